CONSTANTS
  Depth = 3
  PairDepth = 1
  OsLeaves = {"a", "b"}
  WithFeat = TRUE
  WithWord = FALSE
INIT Init
NEXT Next
INVARIANTS Emit Sane ModelAgrees
CHECK_DEADLOCK FALSE
