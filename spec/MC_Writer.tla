------------------------------ MODULE MC_Writer ------------------------------
EXTENDS Writer, Json
\* three abstract source versions over three output paths: a type changes (v2), a file disappears (v2),
\* the helper file appears (v3) and disappears again (v1, v2), an output becomes empty (v4)
MCVersions == {"v1", "v2", "v3", "v4"}
MCGen == [v \in MCVersions |->
    CASE v = "v1" -> [a |-> "A1", b |-> "B1"]
      [] v = "v2" -> [a |-> "A2"]
      [] v = "v3" -> [a |-> "A1", b |-> "B3", codable |-> "CV"]
      [] v = "v4" -> [a |-> "A1", b |-> ""]]
EmitHistory == PrintT(<<"REPLAY", ToJson([history |-> hist])>>)
=============================================================================
