------------------------------ MODULE MC_Writer ------------------------------
EXTENDS Writer, Json
\* three abstract source versions over three output paths: a type changes (v2), a file disappears (v2),
\* the helper file appears (v3) and disappears again (v1, v2), an output becomes empty (v4)
\* v5: the sources of v1 with other line endings (CRLF): for backends that copy a multi-line doc comment through, the
\* output differs from v1's in CR bytes only - a difference a line-wise comparison would not see
\* v6: the sources of v1 plus an item typeshare must reject (a u64 field) in the crate that is written second: the run fails
\* v7: the sources of v3 under another CONFIGURATION (typeshare.toml: decorators, constraints of the unit helper type): a
\* version is everything the output depends on, and the helper file depends on the configuration too
\* v8: a workspace with an ambiguous import (several crates define the name): same abstract behaviour as any other version -
\* the point is made on the real binary, whose choice must be the same in every process
\* v9: the sources of v1 plus one more type whose definition sorts LAST in its output file: v1's output is a proper prefix of
\* v9's (for backends without a footer), and going back from v9 to v1 makes the new output a prefix of the old file
\* v10: the sources of v4 spread over many files, with OVERLAPPING directory arguments on the command line (a directory and
\* two of its own sub-directories): a version is everything the output depends on, the directory arguments included
\* v11: nothing but constants, one per source file, all in one crate: whatever orders the items of a crate has to order these too
\* (for a backend without constants the version is a failing one; the harness says so per language)
\* v12: the sources of v3 under a configuration that changes NOTHING but the helper file (the constraints of the unit helper type):
\* every module file of v3 is up to date, the helper file is not
MCVersions == {"v1", "v2", "v3", "v4", "v5", "v6", "v7", "v8", "v9", "v10", "v11", "v12"}
MCExtends == {<<"A1", "A9">>}
MCFails == [v \in MCVersions |-> v = "v6"]
MCGen == [v \in MCVersions |->
    CASE v = "v1" -> [a |-> "A1", b |-> "B1"]
      [] v = "v2" -> [a |-> "A2"]
      [] v = "v3" -> [a |-> "A1", b |-> "B3", codable |-> "CV"]
      [] v = "v4" -> [a |-> "A1", b |-> ""]
      [] v = "v5" -> [a |-> "A1cr", b |-> "B1"]
      [] v = "v6" -> [a |-> "A1", b |-> "B6"]
      [] v = "v7" -> [a |-> "A1c", b |-> "B3c", codable |-> "CVc"]
      [] v = "v8" -> [a |-> "A8", b |-> "B8"]
      [] v = "v9" -> [a |-> "A9", b |-> "B1"]
      [] v = "v10" -> [a |-> "A10", b |-> "B10"]
      [] v = "v11" -> [a |-> "A11"]
      [] v = "v12" -> [a |-> "A1", b |-> "B3", codable |-> "CV12"]]
\* bounds of the enumeration handed to the real binary (the model configurations fixed / bug / eager / prefix are unbounded):
\* at most MaxDistinct different versions per history, and a history that starts on a placeholder has at most MaxAfterTouch runs
CONSTANTS MaxDistinct, MaxAfterTouch
RunsOf(h) == SelectSeq(h, LAMBDA x : x \notin {"touch", "remove"})
HistBound == /\ Cardinality({hist[k] : k \in 1..Len(hist)} \ {"touch", "remove"}) <= MaxDistinct
             /\ Cardinality({k \in 1..Len(hist) : hist[k] = "remove"}) <= 1
             /\ (\E k \in 1..Len(hist) : hist[k] = "remove") => (Len(RunsOf(hist)) <= 2 /\ hist[1] # "touch")
             /\ (hist # <<>> /\ hist[1] = "touch") => Len(RunsOf(hist)) <= MaxAfterTouch
EmitHistory == HistBound => PrintT(<<"REPLAY", ToJson([history |-> hist])>>)
=============================================================================
