-------------------------------- MODULE Walk --------------------------------
(* Which files a run reads: the directory walk below the DIRECTORIES arguments (cli/src/main.rs walker_builder: the `ignore`       *)
(* crate's WalkBuilder with a `*.rs` type filter, the override !**/tools/typeshare/**, --follow-links; cli/src/parse.rs            *)
(* parse_dir_entry skips directories).                                                                                              *)
(* A PLACE is where one file lies: the chain of directories between a directory argument and the file (seg) and the kind of file     *)
(* name (fname). A run has options: follow (--follow-links) and git (the tree lies in a git work tree, so .gitignore files count).   *)
(* Layer P - what the properties and the CLI help promise (C03 "found anywhere in the scanned files", C06 "ordinary (visible, non-   *)
(* ignored) source files and directories", help: "Directories within which to recursively find and process rust files", "Follow     *)
(* symbolic links to directories instead of ignoring them"):                                                                          *)
(*   MustRead      an ordinary .rs file below ordinary directories (or below a linked directory when follow) is read               *)
(*   MustNotRead   a file below a linked directory is not read without --follow-links; a file that is not a .rs file is never read  *)
(* Layer M - Reads: the full prediction (hidden directories, ignore files, the built-in exclusion, hidden FILE names, which the type  *)
(* filter white-lists before the hidden rule is looked at). M is checked against P by TLC (MRefinesP) and against the binary as a   *)
(* prediction only.                                                                                                                   *)
EXTENDS Naturals, Sequences

\* named_*: directories whose NAME means something to other tools (cargo's target, node_modules, vendor, build) and nothing to typeshare:
\* unless an ignore file of the tree says otherwise they are ordinary directories - a directory module src/target/mod.rs is read
Segs == {"plain", "deep", "hidden_dir", "tools_typeshare", "tools_other", "other_typeshare", "dotignore", "gitignore", "link_dir", "dir_named_rs",
         "named_target", "named_target_deep", "named_node_modules", "named_vendor", "named_build"}
FNames == {"plain", "hidden_file", "upper_ext", "bak", "no_ext", "link_file"}

OrdinaryDirs(seg) == seg \in {"plain", "deep", "tools_other", "other_typeshare", "dir_named_rs",
                              "named_target", "named_target_deep", "named_node_modules", "named_vendor", "named_build"}
RustFile(f) == f \in {"plain", "hidden_file", "link_file"}          \* the name ends in .rs (a link to a regular file counts as the file)
OrdinaryFile(f) == f \in {"plain", "link_file"}                     \* ... and is visible

MustRead(p, opts) == /\ OrdinaryFile(p.fname)
                     /\ OrdinaryDirs(p.seg) \/ (p.seg = "link_dir" /\ opts.follow)
MustNotRead(p, opts) == \/ p.seg = "link_dir" /\ ~opts.follow
                        \/ p.fname \in {"bak", "no_ext"}

\* ---- layer M
Reads(p, opts) ==
    /\ RustFile(p.fname)                                             \* type filter *.rs (case sensitive); white-listed names skip the hidden rule
    /\ CASE OrdinaryDirs(p.seg) -> TRUE
         [] p.seg = "link_dir" -> opts.follow
         [] p.seg = "gitignore" -> ~opts.git                         \* .gitignore files count only inside a git work tree
         [] OTHER -> FALSE                                           \* hidden directory, .ignore file, tools/typeshare
MRefinesP(p, opts) == (MustRead(p, opts) => Reads(p, opts)) /\ (MustNotRead(p, opts) => ~Reads(p, opts))
=============================================================================
