----------------------------- MODULE MC_Variants -----------------------------
(* Builder for Compose at the level of VARIANTS: one variant of the menu inside an adjacently tagged enum, generated as the enum's     *)
(* only variant, after a sibling variant, before a sibling variant, between two - the siblings taken from the same menu (unit,          *)
(* newtype, optional payload, struct variants with and without a rename_all of their own, renamed, skipped, containers). Layer P        *)
(* (Compose!Independent through Trace_Compose, per facet wires / keys / optional / types): what is generated for a variant - its wire   *)
(* string, its payload type, the keys, optional markers and types of the members of a struct variant - is a function of that variant    *)
(* and of the enum's attributes, not of the variants declared before or after it (serde resolves every variant on its own).             *)
(* rule: the enum's rename_all (variant names); frule: the enum's rename_all_fields (fields of struct variants without their own rule). *)
EXTENDS TLC, Json, Naturals
CONSTANTS Variants, Rules, FieldRules
VARIABLE c
\* v_skip and v_unit are siblings only: a skipped variant is not generated; an enum whose only variant is a unit variant is not an
\* adjacently tagged enum
Subjects == Variants \ {"v_skip", "v_unit"}
Init == c \in { r \in [item : Subjects, before : Variants \cup {"none"}, after : Variants \cup {"none"}, rule : Rules, frule : FieldRules] :
                  r.frule # "none" => r.rule = "none" }
Next == UNCHANGED c
Emit == PrintT(<<"REPLAY", ToJson(c)>>)
=============================================================================
