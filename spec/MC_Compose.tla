----------------------------- MODULE MC_Compose -----------------------------
(* Builder for Compose: an item of the menu generated alone, after a neighbour, before a neighbour, between two neighbours - all      *)
(* neighbours self-contained items of the same menu (nothing refers to anything, so the closure of an item is the item).                 *)
(* before / after: the neighbour's NAME sorts before / after the item's within its kind (the output is ordered by kind, then name), and  *)
(* its source text stands before / after the item's.                                                                                    *)
EXTENDS TLC, Json, Naturals
CONSTANTS Items, MaxNeighbours, Places, Namings, Orders
VARIABLE c
\* place: same_file (the neighbours stand in the item's source file) / other_crate (folder output: the neighbours are the items of
\* OTHER crates of the run, whose modules are generated before / after the item's module by the same backend instance)
\* naming: how the neighbour is called relative to the item: far (Aaa / Zzz) / prefix (the neighbour's name is a prefix of the item's, or the
\* item's name a prefix of the neighbour's) / case (the names differ only in the case of their letters)
\* order: the neighbour's source text stands where its name sorts (as_named) or on the other side of the item (crossed)
Init == c \in { r \in [item : Items, before : Items \cup {"none"}, after : Items \cup {"none"}, place : Places, naming : Namings, order : Orders] :
                  /\ (r.naming # "far" \/ r.order # "as_named") => (r.place = "same_file" /\ (r.before = "none") # (r.after = "none"))
                  /\ r.before # r.item /\ r.after # r.item
                  /\ (r.before = "none" /\ r.after = "none") => r.place = "same_file"
                  /\ (r.before # "none" /\ r.after # "none") => (MaxNeighbours >= 2 /\ r.before # r.after) }
Next == UNCHANGED c
Emit == PrintT(<<"REPLAY", ToJson(c)>>)
=============================================================================
