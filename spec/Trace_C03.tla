------------------------------ MODULE Trace_C03 ------------------------------
(* Impl -> spec: each event is one generated file: the abstract source items and the definitions  *)
(* found in the output (name, listed members, fields of each struct variant), plus the names of    *)
(* definitions that belong to no annotated item. Program!ExpectedDefs judges.                       *)
EXTENDS Program, TLC, Json, IOUtils
Rec == ndJsonDeserialize(IOEnv.TRACE)
VARIABLES i, bad

Count(obs, n) == Cardinality({j \in 1..Len(obs) : obs[j].name = n})
TheDef(obs, n) == obs[CHOOSE j \in 1..Len(obs) : obs[j].name = n]
\* e.ungenerable (optional): how many annotated items of the scanned files cannot be generated (an unsupported type, ...): such an item
\* "is reported as an error rather than silently omitted" - the run fails (e.outcome = "error"), whatever else was scanned, in whatever order
Reported(e) == e.outcome = "error"
Ok(e) == IF "ungenerable" \in DOMAIN e /\ e.ungenerable > 0 THEN Reported(e) ELSE
    LET exp == ExpectedDefs(e.items) IN
    /\ \A k \in 1..Len(exp) :
          /\ Count(e.defs, exp[k].name) = 1                                    \* defined, and only once
          /\ LET o == TheDef(e.defs, exp[k].name) IN
                /\ o.members = exp[k].members                                    \* exactly the non-skipped members, in source order
                /\ o.variant_fields = exp[k].variant_fields
    /\ e.extras = <<>>                                                          \* nothing for un-annotated items, nothing invented
Init == i = 1 /\ bad = <<>>
Next == /\ i <= Len(Rec)
        /\ bad' = IF Ok(Rec[i]) THEN bad ELSE Append(bad, i)
        /\ i' = i + 1
Report == (i = Len(Rec) + 1) => PrintT(<<"INFO", "bad", ToJson(bad)>>)
Accepted == PrintT(<<"INFO", "matched", TLCGet("stats").diameter - 1>>)
=============================================================================
