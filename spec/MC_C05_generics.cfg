CONSTANTS
  MaxParams = 3
INIT Init
NEXT Next
INVARIANT Emit
CHECK_DEADLOCK FALSE
