---------------------------- MODULE MC_C10_rerun ----------------------------
(* Builder for C10 over runs: the file ON DISK after generating into a location that already holds the output of an earlier run over *)
(* other sources is a well-formed compilation unit - a file is well formed as a whole, whatever was there before.                      *)
(*   earlier: longer (the earlier sources had more and bigger items) / shorter / other_kinds (aliases and enums instead of structs)    *)
(* Layer P: Trace_C10 (Balanced /\ Grammar_<lang>!Accepts; CPython for Python) on what the real binary leaves at the path.              *)
EXTENDS TLC, Json
CONSTANTS Langs, Modes, Earliers
VARIABLE c
Init == c \in [lang : Langs, mode : Modes, earlier : Earliers]
Next == UNCHANGED c
Emit == PrintT(<<"REPLAY", ToJson(c)>>)
=============================================================================
