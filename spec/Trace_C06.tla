------------------------------ MODULE Trace_C06 ------------------------------
(* Impl -> spec: each event is one real run of the binary: (class, sha of every output byte).    *)
(* A class is one fixed (source items, configuration, options): runs of a class differ only in    *)
(* arrival order, thread count, process (hash seed), how the same items are split over files, or    *)
(* what the output location held before the run.                                                  *)
(* Layer P: within a class every run yields the same bytes.                                        *)
EXTENDS TLC, Json, IOUtils, Sequences, Naturals
Rec == ndJsonDeserialize(IOEnv.TRACE)
VARIABLES i, bad, first

Classes == {Rec[j].class : j \in 1..Len(Rec)}
Init == i = 1 /\ bad = <<>> /\ first = [c \in Classes |-> "unset"]
Next == /\ i <= Len(Rec)
        /\ LET e == Rec[i] IN
             IF first[e.class] = "unset"
             THEN first' = [first EXCEPT ![e.class] = e.sha] /\ bad' = bad
             ELSE first' = first /\ bad' = IF e.sha = first[e.class] THEN bad ELSE Append(bad, i)
        /\ i' = i + 1
Report == (i = Len(Rec) + 1) => PrintT(<<"INFO", "bad", ToJson(bad)>>)
Accepted == PrintT(<<"INFO", "matched", TLCGet("stats").diameter - 1>>)
=============================================================================
