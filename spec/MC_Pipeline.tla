----------------------------- MODULE MC_Pipeline -----------------------------
(* TLC configurations of Pipeline: constants that a .cfg file cannot express.                     *)
EXTENDS Pipeline

\* names are numbers (TLC cannot order strings); the file number makes them distinct
FileSeq == <<"f1", "f2", "f3", "f4">>
No(f) == CHOOSE i \in 1..Len(FileSeq) : FileSeq[i] = f
It(f, k) == [name |-> No(f), kind |-> k, src |-> f]
\* one struct per file, distinct names: nothing for the schedule to reorder
ItemsDistinct == [f \in Files |-> << It(f, "struct") >>]
\* structs, enums, aliases and a const in every file, distinct names within a kind
ItemsMixed == [f \in Files |-> << It(f, "struct"), It(f, "enum"), It(f, "alias"), It(f, "const") >>]
\* the same without consts
ItemsNoConst == [f \in Files |-> << It(f, "struct"), It(f, "enum"), It(f, "alias") >>]
\* deliveries: every file once; or f1 twice (it lies under two of the directory arguments)
VisitsOnce == [f \in Files |-> 1]
VisitsF1Twice == [f \in Files |-> IF f = "f1" THEN 2 ELSE 1]
\* outputs: everything into one file (-o), or two crates (-d): f1, f2 -> o1, the rest -> o2
OutSingle == [f \in Files |-> "o1"]
OutTwo == [f \in Files |-> IF f \in {"f1", "f2"} THEN "o1" ELSE "o2"]
\* two files define a struct of the same name (tie in the sort key)
ItemsTie == [f \in Files |-> << [name |-> 7, kind |-> "struct", src |-> f] >>]
=============================================================================
