CONSTANTS
  N = 4
  PermN = 7
INIT Init
NEXT Next
INVARIANTS Emit ModelOk
CHECK_DEADLOCK FALSE
