------------------------------- MODULE MC_C18 -------------------------------
(* Every value within Radius of each power of two 2^0..2^64 (hence of the four limits           *)
(* +-(2^53-1), 0, u64::MAX+1, i64::MIN/MAX) in both signs is one state; each prints the facts    *)
(* the property requires plus the required order relation to its successor.                       *)
EXTENDS SafeInt, TLC, Json
CONSTANTS Radius
VARIABLES k, d, neg

Init == k \in 0..64 /\ d = -Radius /\ neg \in BOOLEAN
Next == d < Radius /\ d' = d + 1 /\ UNCHANGED <<k, neg>>

Val == LET r == AddSmall(Pow2(k), d) IN [ok |-> r.ok, v |-> [r.v EXCEPT !.neg = neg]]
Succ == LET r == AddSmall(Pow2(k), d + 1) IN [r.v EXCEPT !.neg = neg]

Emit == Val.ok => PrintT(<<"REPLAY", ToJson([neg |-> Norm(Val.v).neg, l |-> Val.v.l, expect |-> Expect(Val.v),
                                             w_neg |-> Norm(Succ).neg, w_l |-> Succ.l, cmp |-> Cmp(Val.v, Succ)])>>)

\* theorems about the specification itself
Sane == Val.ok =>
    /\ InU53(Val.v) => InI54(Val.v) /\ FitsUnsigned(Val.v, 64)
    /\ InI54(Val.v) => FitsSigned(Val.v, 64)
    /\ FitsUnsigned(Val.v, 32) => InU53(Val.v)
    /\ FitsSigned(Val.v, 32) => InI54(Val.v)
    /\ Cmp(Val.v, Val.v) = "Equal"
    /\ Cmp(Val.v, Succ) = (IF neg /\ ~IsZero(Succ) THEN "Greater" ELSE IF neg /\ IsZero(Succ) THEN "Less" ELSE "Less")
    /\ (Cmp(Val.v, Succ) = "Less") <=> (Cmp(Succ, Val.v) = "Greater")
=============================================================================
