------------------------------- MODULE MC_C11 -------------------------------
(* (a) every digraph on N nodes (self loops included), as adjacency in every neighbour order that *)
(*     matters (sets, rendered ascending and descending): M's toposort_impl is checked against P   *)
(*     and each graph is printed for replay on the real toposort_impl;                             *)
(* (b) every index permutation of size <= PermN for sort_by_indices.                               *)
EXTENDS Topsort, TLC, Json, SequencesExt, FiniteSetsExt
CONSTANTS N, PermN
VARIABLES mode, G, perm, prog

M == INSTANCE M_Topsort

Nodes == 1..N
Asc(S) == SetToSortSeq(S, <)
Desc(S) == SetToSortSeq(S, >)
Carriers == {"field", "newtype", "vfield", "alias", "const"}
Wrappers == {"direct", "vec", "option", "mapk", "mapv", "array", "slice", "garg", "garg_unknown", "garg_nested"}
BKinds == {"struct", "unit_enum", "tagged_enum", "alias"}
NoProg == [carrier |-> "", wrapper |-> "", renamed |-> FALSE, bkind |-> "", ovr |-> "", bname |-> "", twin |-> FALSE]
\* two-item programs A -> B: one reference, written in every carrier x container x (B renamed?) x kind of B
\* ovr: the referencing field carries a #[typeshare(<lang>(type = ".."))] override for ANOTHER language than the
\* generated one ("scala" / "typescript"); the reference is still written in the generated language, so P still orders it
\* bname: how B is spelled - UpperCamel, a C-style lower_snake name (handle_t), or with a leading underscore; the order
\* constraint does not depend on the spelling of a name - nor on how B's name relates to A's (a prefix of it, an extension of it: names that sort next to each other)
Progs == {p \in [carrier : Carriers, wrapper : Wrappers, renamed : BOOLEAN, bkind : BKinds, ovr : {"none", "scala", "typescript"},
                 bname : {"upper", "lower_snake", "underscore", "prefix_of_a", "extends_a"}, twin : BOOLEAN] :
             \* twin: two more, unreferenced items that share ONE Rust identifier (the second in a module of its own, told apart by
             \* serde(rename)): the emitted definitions are a permutation of ALL parsed items - neither twin may be dropped
             /\ p.twin => (p.bkind = "struct" /\ p.bname = "upper" /\ p.ovr = "none" /\ ~p.renamed)
             /\ p.carrier = "const" => p.wrapper \in {"direct", "array"}
             /\ p.ovr # "none" => p.carrier \in {"field", "vfield"}
             /\ p.bname # "upper" => (~p.renamed /\ p.ovr = "none")}

\* three-item programs A -> B, A -> C: TWO references in one item, each through a composed container; the two container shapes may
\* coincide (Option<Vec<B>> next to Option<Vec<C>>) - every reference is a dependency of its own, whatever else the item mentions
Wrappers2 == {"direct", "vec", "option_vec", "vec_option", "option_mapv", "option_garg", "mapk"}
Progs2 == [carrier : {"field", "vfield"}, w1 : Wrappers2, w2 : Wrappers2, same_target : BOOLEAN]
\* long chains: a path of ChainLen definitions, each referring to the next (a depth-first ordering walks as deep as the chain is long):
\* the head sorts first (the walk starts at the head) or last
ChainLens == {12, 70, 130}
Init == \/ /\ mode = "chain" /\ G = [x \in Nodes |-> {}] /\ perm = <<>>
           /\ \E n \in ChainLens, d \in {"head_first", "leaf_first"} : prog = [NoProg EXCEPT !.wrapper = d, !.carrier = ToString(n)]
        \/ /\ mode = "prog2" /\ G = [x \in Nodes |-> {}] /\ perm = <<>>
           /\ \E q \in Progs2 : prog = [NoProg EXCEPT !.carrier = q.carrier, !.wrapper = q.w1, !.bname = q.w2, !.twin = q.same_target]
        \/ /\ mode = "graph" /\ G \in [Nodes -> SUBSET Nodes] /\ perm = <<>> /\ prog = NoProg
        \/ /\ mode = "perm" /\ G = [x \in Nodes |-> {}] /\ prog = NoProg
           /\ \E n \in 1..PermN : perm \in {p \in [1..n -> 1..n] : \A i, j \in 1..n : i # j => p[i] # p[j]}
        \/ /\ mode = "prog" /\ G = [x \in Nodes |-> {}] /\ perm = <<>> /\ prog \in Progs
Next == UNCHANGED <<mode, G, perm, prog>>

AdjAsc == [x \in Nodes |-> Asc(G[x])]
AdjDesc == [x \in Nodes |-> Desc(G[x])]

Emit == IF mode = "graph"
        THEN PrintT(<<"REPLAY", ToJson([mode |-> mode, asc |-> AdjAsc, desc |-> AdjDesc,
                                        predict_asc |-> M!ToposortImpl(AdjAsc), predict_desc |-> M!ToposortImpl(AdjDesc)])>>)
        ELSE IF mode = "chain"
        THEN PrintT(<<"REPLAY", ToJson([mode |-> mode, len |-> prog.carrier, dir |-> prog.wrapper])>>)
        ELSE IF mode = "prog2"
        THEN PrintT(<<"REPLAY", ToJson([mode |-> mode, carrier |-> prog.carrier, w1 |-> prog.wrapper, w2 |-> prog.bname, same_target |-> prog.twin,
                                        edges |-> IF prog.twin THEN << <<1, 2>>, <<1, 2>> >> ELSE << <<1, 2>>, <<1, 3>> >>])>>)
        ELSE IF mode = "prog"
        THEN PrintT(<<"REPLAY", ToJson([mode |-> mode, prog |-> prog, edges |-> << <<1, 2>> >>,
                                        collected |-> M!Collected(prog.carrier, prog.wrapper, prog.renamed)])>>)
        ELSE PrintT(<<"REPLAY", ToJson([mode |-> mode, perm |-> perm,
                                        predict |-> M!SortByIndices([i \in 1..Len(perm) |-> i], perm)])>>)

\* M => P in the model (toposort_impl on the graph it is given; the permutation realised by sort_by_indices)
ModelOk == IF mode = "graph"
           THEN OrderOk(M!ToposortImpl(AdjAsc), G) /\ OrderOk(M!ToposortImpl(AdjDesc), G)
           ELSE IF mode \in {"prog", "prog2", "chain"} THEN TRUE
           ELSE M!SortByIndices([i \in 1..Len(perm) |-> i], perm) = perm
=============================================================================
