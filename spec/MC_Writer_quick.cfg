CONSTANTS
  Versions <- MCVersions
  Gen <- MCGen
  HelperPath = "codable"
  Fails <- MCFails
  Extends <- MCExtends
  Compare = "equal"
  MaxDistinct = 2
  MaxAfterTouch = 2
  EagerWrite = FALSE
  HelperBug = FALSE
  MaxRuns = 3
SPECIFICATION Spec
INVARIANT Fresh EmitHistory
PROPERTIES Idempotent FailedRunTouchesNothing
CONSTRAINT HistBound
CHECK_DEADLOCK FALSE
