------------------------------- MODULE MC_C19 -------------------------------
(* Builder for C19: item kind x arguments of the outer #[typeshare] x which positions carry a       *)
(* typeshare(...) helper x which helper x surrounding attributes. Prints the annotated item and its   *)
(* stripped twin Strip(item); the harness compiles both.                                              *)
EXTENDS Annotation, TLC, Json, FiniteSets
CONSTANTS Kinds, OuterArgs, Helpers, Mixes, MaxPos
VARIABLE c

ExprKinds == {"struct_len_if", "struct_len_block", "struct_len_index"}
NPos(k) == CASE k = "named_struct" -> 3 [] k = "tuple_struct" -> 1 [] k = "unit_struct" -> 0 [] k = "enum" -> 4
             [] k = "union" -> 2 [] k = "generic_struct" -> 2 [] k = "alias" -> 0 [] k = "const" -> 0
             \* structs whose field types hold expressions beyond the literal / path subset: an array length written as an if expression,
             \* as a block, as an index expression (valid Rust; the twin compiles)
             [] k \in ExprKinds -> 2
             \* an alias / a const whose text mentions a path through a module called `union` (a contextual keyword only)
             [] k \in {"alias_union_path", "const_union_path"} -> 0
             \* the named struct written inside a macro_rules! wrapper that forwards every attribute through $(#[$a:meta])* fragments
             \* (the attributes reach #[typeshare] inside invisible groups)
             [] k = "named_struct_via_macro" -> 3
Init == c \in [kind : Kinds, outer : OuterArgs, helper : Helpers, mix : Mixes, at : SUBSET (1..MaxPos)]
Next == UNCHANGED c
InScope == c.at \subseteq 1..NPos(c.kind)

A(path, text) == [path |-> path, text |-> text]
Outer == CASE c.outer = "bare" -> A("typeshare", "#[typeshare]")
           [] c.outer = "swift" -> A("typeshare", "#[typeshare(swift = \"Equatable\")]")
           [] c.outer = "redacted" -> A("typeshare", "#[typeshare(redacted)]")
\* the helper attributes put on a position: one attribute, or several SEPARATE typeshare attributes on the same element
\* (adjacent, or with another attribute between them) - Strip must remove every one of them
TS(text) == A("typeshare", text)
HelperAttrs == CASE c.helper = "skip" -> << TS("#[typeshare(skip)]") >>
                 [] c.helper = "serialized_as" -> << TS("#[typeshare(serialized_as = \"String\")]") >>
                 [] c.helper = "lang" -> << TS("#[typeshare(typescript(readonly), swift(type = \"Int\"))]") >>
                 [] c.helper = "stacked" -> << TS("#[typeshare(skip)]"), TS("#[typeshare(serialized_as = \"String\")]") >>
                 [] c.helper = "stacked_apart" -> << TS("#[typeshare(serialized_as = \"String\")]"), A("doc", "/// between the helpers"),
                                                    TS("#[typeshare(typescript(readonly))]") >>
                 [] c.helper = "triple" -> << TS("#[typeshare(skip)]"), TS("#[typeshare(swift(type = \"Int\"))]"), A("cfg", "#[cfg(all())]"),
                                             TS("#[typeshare(kotlin(type = \"Int\"))]") >>
\* mix docs_after: the helper comes FIRST and several doc lines and a serde attribute follow it (what survives keeps its order)
MixBefore == IF c.mix \in {"none", "docs_after"} THEN <<>> ELSE << A("doc", "/// documented"), A("cfg", "#[cfg(all())]") >>
\* serde attributes valid at the position: fields take `default`, variants take `rename` (unions derive nothing)
\* mix cfg_attr: a conditional attribute (true predicate) that carries a serde rename and merely MENTIONS the word typeshare
\* (in a doc string, in a feature name): it is not a typeshare attribute, Strip keeps it, and so must the macro
MixAfter(pos) == IF c.mix = "docs_after"
                 THEN << A("doc", "/// first line of the documentation"), A("doc", "/// second line"), A("doc", "/// third line") >>
                 ELSE IF c.mix = "serde" /\ c.kind # "union"
                 THEN << A("serde", IF pos = "variant" THEN "#[serde(rename = \"renamed_key\")]" ELSE "#[serde(default)]") >>
                 ELSE IF c.mix = "cfg_attr"
                 THEN << A("cfg_attr", IF c.kind = "union" THEN "#[cfg_attr(not(feature = \"typeshare-off\"), doc = \"typeshare is only mentioned\")]"
                                       ELSE "#[cfg_attr(not(feature = \"typeshare-off\"), serde(rename = \"via_cfg_attr\"), doc = \"typeshare is only mentioned\")]") >>
                 ELSE <<>>
At(i, pos) == MixBefore \o (IF i \in c.at THEN HelperAttrs ELSE <<>>) \o MixAfter(pos)
M(name, i, pos, fields) == [name |-> name, attrs |-> At(i, pos), fields |-> fields]
F(name, i) == [name |-> name, attrs |-> At(i, "field"), fields |-> <<>>]
Members ==
    CASE c.kind \in {"named_struct", "named_struct_via_macro"} -> << M("alpha", 1, "field", <<>>), M("beta", 2, "field", <<>>), M("gamma", 3, "field", <<>>) >>
      [] c.kind = "tuple_struct" -> << M("0", 1, "tuple_field", <<>>) >>
      [] c.kind = "enum" -> << M("Unit", 1, "variant", <<>>), M("Tuple", 2, "variant", << F("0", 3) >>), M("Named", 0, "variant", << F("inner", 4) >>) >>
      [] c.kind = "union" -> << M("a", 1, "field", <<>>), M("b", 2, "field", <<>>) >>
      [] c.kind = "generic_struct" -> << M("first", 1, "field", <<>>), M("second", 2, "field", <<>>) >>
      [] c.kind \in ExprKinds -> << M("bytes", 1, "field", <<>>), M("tag", 2, "field", <<>>) >>
      [] OTHER -> <<>>
Item == [kind |-> c.kind, attrs |-> <<Outer>>, members |-> Members]
Emit == InScope => PrintT(<<"REPLAY", ToJson([case |-> [c EXCEPT !.at = {}] , at |-> c.at, item |-> Item, twin |-> Strip(Item)])>>)
=============================================================================
