CONSTANTS
  Files = {"f1", "f2", "f3"}
  Workers = {"w1", "w2"}
  Cap = 1
  ResultKinds = {"ok", "none", "bad"}
  OutOf <- OutSingle
  SingleFile = TRUE
  GenKinds = {"ok"}
  Visits <- VisitsOnce
  Dedupe = "none"
  Items <- ItemsDistinct
SPECIFICATION Spec
INVARIANTS TypeOk ExitOk NoWriteWithErrors WroteOk NoPanicExit CleanSucceeds Deterministic
PROPERTY Terminates
CHECK_DEADLOCK FALSE
