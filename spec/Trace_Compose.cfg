INIT Init
NEXT Next
INVARIANT Report
POSTCONDITION Accepted
CHECK_DEADLOCK FALSE
