------------------------------- MODULE MC_Walk -------------------------------
(* Builder for the walk (C03): every place (directory argument x directory chain x file-name kind) under every option pair; each   *)
(* state prints what P demands (must / must_not / free) and what M predicts. The harness builds ONE tree holding all places (a      *)
(* marker struct per place) per option pair and output mode and runs the real binary on it.                                         *)
EXTENDS Walk, TLC, Json
VARIABLE c
Init == c \in [root : {1, 2}, seg : Segs, fname : FNames, follow : BOOLEAN, git : BOOLEAN]
Next == UNCHANGED c
P == [seg |-> c.seg, fname |-> c.fname]
O == [follow |-> c.follow, git |-> c.git]
Demand == IF MustRead(P, O) THEN "must" ELSE IF MustNotRead(P, O) THEN "must_not" ELSE "free"
Emit == PrintT(<<"REPLAY", ToJson([place |-> c, demand |-> Demand, predict |-> Reads(P, O)])>>)
Refines == MRefinesP(P, O) /\ ~(MustRead(P, O) /\ MustNotRead(P, O))
=============================================================================
