------------------------------- MODULE Config -------------------------------
(* Layer P for C20: how the effective configuration of a run is determined                      *)
(* (docs/src/usage/configuration.md), and what -g / --generate-config must write.                *)
(* A setting's value is "" when absent; values are opaque strings.                                *)
EXTENDS Sequences, FiniteSets, Naturals

Settings == {"swift_prefix", "kotlin_prefix", "java_package", "scala_package", "go_package"}
Absent == ""

\* an option GIVEN on the command line with an empty value (--swift-prefix "") is given: it wins, and the value is empty
GivenEmpty == "<given-empty>"
\* command line wins whenever the option is given, then the file, then the default (empty)
Effective(cli, file) == [s \in Settings |-> IF cli[s] = GivenEmpty THEN Absent
                                             ELSE IF cli[s] # Absent THEN cli[s] ELSE IF file[s] # Absent THEN file[s] ELSE Absent]

\* which file is THE configuration file: the one named by -c when the option is given; else the typeshare.toml found first when walking
\* from the working directory (level 0) up through its ancestors (level 1 = parent, 2 = grandparent, ...); else none (defaults).
\* present: the set of levels that have a typeshare.toml.
Nearest(present) == CHOOSE l \in present : \A k \in present : l <= k
ChosenFile(flagGiven, present) == IF flagGiven THEN "flag" ELSE IF present = {} THEN "none" ELSE Nearest(present)

\* which settings a language's output exposes, and where
Exposes(lang) == CASE lang = "swift" -> {"swift_prefix"}
                   [] lang = "kotlin" -> {"kotlin_prefix", "java_package"}
                   [] lang = "scala" -> {"scala_package"}
                   [] lang = "go" -> {"go_package"}
                   [] OTHER -> {}

\* an observation of one generation run conforms iff every exposed setting shows the effective value
RunConforms(cli, file, lang, obs) == \A s \in Exposes(lang) : obs[s] = Effective(cli, file)[s]

\* -g writes the effective settings of its own invocation over the defaults (no file is consulted: it is being created)
NoFile == [s \in Settings |-> Absent]
GenConfigConforms(cli, written) == \A s \in Settings : written[s] = Effective(cli, NoFile)[s]
\* reloading what -g wrote, with no options, yields the same effective settings
RoundTrips(cli, written) == Effective(NoFile, written) = Effective(cli, NoFile)
=============================================================================
