----------------------------- MODULE M_Rename -----------------------------
(* Layer M: typeshare's own algorithm (core/src/rename.rs rename_field / rename_variant, as     *)
(* called from parser.rs get_ident / get_variant_ident). Only predicts; divergences from         *)
(* SerdeCase are replayed on the real code, and a disagreement between this model and the real    *)
(* code is MODEL-DRIFT (reported, never a violation).                                             *)
EXTENDS Chars, SequencesExt

AllUpper(s) == AsciiUpperStr(s) = s          \* `self.to_ascii_uppercase() == *self`

\* RenameExt::to_snake_case, still used for fields (pinned by the anonymous_struct_with_rename snapshot)
TSnake(s) == LET up == AllUpper(s) IN
    FlattenSeq([i \in 1..Len(s) |->
        IF i > 1 /\ IsUpper(s[i]) /\ ~up THEN <<"_", AsciiLower(s[i])>> ELSE <<AsciiLower(s[i])>>])

FPascal(s) == FlattenSeq([i \in 1..Len(s) |->
                 IF s[i] = "_" THEN <<>>
                 ELSE IF i = 1 \/ s[i-1] = "_" THEN <<AsciiUpper(s[i])>> ELSE <<s[i]>>])
VSnake(s) == FlattenSeq([i \in 1..Len(s) |->
                 IF i > 1 /\ IsUpper(s[i]) THEN <<"_", AsciiLower(s[i])>> ELSE <<AsciiLower(s[i])>>])
LowerFirst(s) == IF s = <<>> THEN <<>> ELSE <<AsciiLower(s[1])>> \o SubSeq(s, 2, Len(s))

TPanics(rule, pos, s) == FALSE               \* lowercase_first never slices bytes

TField(rule, s) ==
    CASE rule = "UPPERCASE" -> AsciiUpperStr(s)
      [] rule = "PascalCase" -> FPascal(s)
      [] rule = "camelCase" -> LowerFirst(FPascal(s))
      [] rule = "snake_case" -> TSnake(s)
      [] rule = "SCREAMING_SNAKE_CASE" -> AsciiUpperStr(TSnake(s))
      [] rule = "kebab-case" -> ReplaceChar(TSnake(s), "_", "-")
      [] rule = "SCREAMING-KEBAB-CASE" -> AsciiUpperStr(ReplaceChar(TSnake(s), "_", "-"))
      [] OTHER -> s

TVariant(rule, s) ==
    CASE rule = "lowercase" -> AsciiLowerStr(s)
      [] rule = "UPPERCASE" -> AsciiUpperStr(s)
      [] rule = "camelCase" -> LowerFirst(s)
      [] rule = "snake_case" -> VSnake(s)
      [] rule = "SCREAMING_SNAKE_CASE" -> AsciiUpperStr(VSnake(s))
      [] rule = "kebab-case" -> ReplaceChar(VSnake(s), "_", "-")
      [] rule = "SCREAMING-KEBAB-CASE" -> ReplaceChar(AsciiUpperStr(VSnake(s)), "_", "-")
      [] OTHER -> s

TRename(rule, pos, s) == IF pos = "variant" THEN TVariant(rule, s) ELSE TField(rule, s)
=============================================================================
