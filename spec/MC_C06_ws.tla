------------------------------ MODULE MC_C06_ws ------------------------------
(* Builder for C06, hash-order side: workspaces in which a name the consumer crate uses is AMBIGUOUS - several      *)
(* provider crates define a type with that Rust identifier - so that whichever table the implementation keeps per    *)
(* name / per crate (imports, renames, type-name sets) is iterated with more than one entry. Each case is run in      *)
(* Reps fresh processes (per-process hash seeds); layer P (Trace_C06): all runs of one case yield the same bytes.     *)
(* Which provider the reference finally designates is NOT judged here (C09 / C14 do that).                             *)
EXTENDS TLC, Json, Naturals
CONSTANTS Forms, NProviders, Renames, Langs, Modes
VARIABLE c
\* form: how the consumer names the type
\*   use_unknown    use zzz::Dup;            zzz is not a typeshared crate of the workspace
\*   use_facade     use facade::Dup;         facade is a crate of the workspace that re-exports but defines no such type
\*   bare           no use statement at all
\*   glob_all       use p1::*; use p2::*; ...
\*   qualified_unknown   zzz::Dup in the field type
\*   use_first      use p1::Dup;             an ordinary, unambiguous import (control)
\*   use_last       use pN::Dup;             an unambiguous import from the LAST provider (with renames = one: a provider that does not
\*                                           rename the type, while another crate's type of the same name is renamed)
\*   qualified_last pN::Dup in the field type
\*   use_facade_plus   use facade::Dup; use pN::OnlyN;   the ambiguous name next to an ordinary import from the last provider
\*   distinct_needs no shared name at all: providers + 2 crates whose modules need different helpers and imports (Option, Vec,
\*                  HashMap, unit, a date, a generic) - state a backend keeps across the modules of one run must not show
\* renames: none | one (only the first provider carries serde(rename)) | all (each provider its own rename)
\* folder mode only: in single-file mode the providers' same-named definitions would all land in ONE file, which is the arrival-order
\* finding listed under C06 (same-name-same-kind), not a question of hashing
Init == c \in [form : Forms, providers : NProviders, renames : Renames, lang : Langs, mode : Modes]
Next == UNCHANGED c
Emit == PrintT(<<"REPLAY", ToJson(c)>>)
=============================================================================
