------------------------------ MODULE Trace_C11 ------------------------------
(* Impl -> spec: events are (graph, order returned by the real toposort_impl), (indices, data    *)
(* after the real sort_by_indices) and (program reference graph, order of definitions in a real  *)
(* generated file). Topsort!OrderOk judges each.                                                  *)
EXTENDS Topsort, TLC, Json, IOUtils
Rec == ndJsonDeserialize(IOEnv.TRACE)
VARIABLES i, bad

GraphOf(adj) == [x \in 1..Len(adj) |-> {adj[x][j] : j \in 1..Len(adj[x])}]
EdgesGraph(n, edges) == [x \in 1..n |-> {edges[j][2] : j \in {k \in 1..Len(edges) : edges[k][1] = x}}]
Ok(e) == CASE e.ev = "graph" -> OrderOk(e.order, GraphOf(e.adj))
           [] e.ev = "perm" -> e.out = e.perm
           [] e.ev = "prog" -> IntervalOk(e.count, e.start, e.main, EdgesGraph(e.n, e.edges))

Init == i = 1 /\ bad = <<>>
Next == /\ i <= Len(Rec)
        /\ bad' = IF Ok(Rec[i]) THEN bad ELSE Append(bad, i)
        /\ i' = i + 1
Report == (i = Len(Rec) + 1) => PrintT(<<"INFO", "bad", ToJson(bad)>>)
Accepted == PrintT(<<"INFO", "matched", TLCGet("stats").diameter - 1>>)
=============================================================================
