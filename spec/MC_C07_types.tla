---------------------------- MODULE MC_C07_types ----------------------------
(* C07, library side: syntactically valid but unusual type expressions at every carrier position, in *)
(* every language. Layer P for each vector is the generator part of Pipeline!NoPanicExit: the run     *)
(* ends with output or with a reported error - never with a panic or an abort. Whether the type is    *)
(* supported is not judged here (C05 / C08 do that).                                                   *)
EXTENDS TLC, Json
CONSTANTS OddTypes, Positions, Langs
VARIABLE v
Init == v \in [ty : OddTypes, pos : Positions, lang : Langs]
Next == UNCHANGED v
Emit == PrintT(<<"REPLAY", ToJson(v)>>)
=============================================================================
