--------------------------- MODULE MC_C03_places ---------------------------
(* Builder for C03, discovery side (real binary): three annotated structs, the second of which lives in an unusual but        *)
(* ordinary (visible, not ignored) PLACE of the scanned directories. Layer P (Program!ExpectedDefs through Trace_C03): one       *)
(* definition per annotated item "found anywhere in the scanned files", whichever directory argument, depth or file name.        *)
EXTENDS TLC, Json
CONSTANTS Places, Modes, Langs
VARIABLE c
\* second_root   under a second DIRECTORIES argument          third_root    under a third one
\* deep6         six directory levels below src               dir_tests     in a directory called tests
\* mod_rs        in a file called mod.rs                      main_rs / build_rs   in files with those names
\* space_name    a file name with a space                     dotted_name   a file called types.v2.rs
\* nonascii_dir  a directory with a non-ASCII name            upper_dir     a directory called SRC_Types
\* symlink_file  a .rs file that is a symbolic link to a regular file outside the scanned directories (a linked FILE is read with
\*               or without --follow-links; the option is about linked directories)
\* sibling_prefix_root  under a second DIRECTORIES argument whose path starts with the characters of the first one (root1, root1-types)
\* prefix_crate_dirs    the directory arguments are three crate directories, one of them named like another plus a suffix (ca, ca-types)
\* ann_*_alone   an ordinary file whose ONLY annotated item is annotated in another spelling than #[typeshare] (through the crate path,
\*               through the absolute path ::typeshare::typeshare, with blanks inside the brackets)
\* bad_item_arrives_*  the second item cannot be generated (a u64 field); its file reaches the collector first / between / after the two
\*               good files of the same crate: the run reports it (Trace_C03!Reported), it is not silently omitted
\* bad_vfield_item / bad_payload_item / bad_alias_item   the part that cannot be generated (a u64) is a field of a struct variant, the payload
\*               of a tuple variant, the target of an alias: the item is reported, neither dropped nor generated without that part
\* second_run    the same command twice into the same location: the definitions the second run leaves are one per annotated item again
\* no_src        a crate directory without a src directory (single-file mode only: folder mode names files after the directory above src)
Init == c \in { r \in [place : Places, mode : Modes, lang : Langs] : r.place = "no_src" => r.mode = "single" }
Next == UNCHANGED c
Emit == PrintT(<<"REPLAY", ToJson(c)>>)
=============================================================================
