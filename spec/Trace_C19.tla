------------------------------ MODULE Trace_C19 ------------------------------
(* Impl -> spec: each event is one annotated item and its stripped twin after rustc and serde have  *)
(* run on them: whether each compiled, whether the serde_json of a default value and size_of agree.   *)
EXTENDS Annotation, TLC, Json, IOUtils
Rec == ndJsonDeserialize(IOEnv.TRACE)
VARIABLES i, bad
Init == i = 1 /\ bad = <<>>
Next == /\ i <= Len(Rec)
        /\ bad' = IF Transparent(Rec[i]) THEN bad ELSE Append(bad, i)
        /\ i' = i + 1
Report == (i = Len(Rec) + 1) => PrintT(<<"INFO", "bad", ToJson(bad)>>)
Accepted == PrintT(<<"INFO", "matched", TLCGet("stats").diameter - 1>>)
=============================================================================
