------------------------------ MODULE Trace_C01 ------------------------------
(* Impl -> spec: each event is one field of a real generated definition: the Rust identifier,     *)
(* its serde(rename), the rename_all that applies, and the JSON key the generated code binds.      *)
EXTENDS SerdeAttrs, TLC, Json, IOUtils
Rec == ndJsonDeserialize(IOEnv.TRACE)
VARIABLES i, bad
\* Scala output carries no key binding, so for Scala only keys without '-' are in scope (property text)
\* e.rule: the rename_all of the field's own container (struct / variant); e.fields_rule: the enum's rename_all_fields ("none" for structs)
Rule(e) == RuleForField([kind |-> e.kind, rename_all |-> e.rule, variant_rename_all |-> e.rule, enum_rename_all_fields |-> e.fields_rule])
Ok(e) == LET w == FieldWire(e.ident, e.rename, Rule(e)) IN
    (e.lang = "scala" /\ "-" \in Range(w)) \/ e.key = w
Init == i = 1 /\ bad = <<>>
Next == /\ i <= Len(Rec)
        /\ bad' = IF Ok(Rec[i]) THEN bad ELSE Append(bad, i)
        /\ i' = i + 1
Report == (i = Len(Rec) + 1) => PrintT(<<"INFO", "bad", ToJson(bad)>>)
Accepted == PrintT(<<"INFO", "matched", TLCGet("stats").diameter - 1>>)
=============================================================================
