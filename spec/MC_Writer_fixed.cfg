CONSTANTS
  Versions <- MCVersions
  Gen <- MCGen
  HelperPath = "codable"
  Fails <- MCFails
  Extends <- MCExtends
  Compare = "equal"
  MaxDistinct = 9
  MaxAfterTouch = 9
  EagerWrite = FALSE
  HelperBug = FALSE
  MaxRuns = 3
SPECIFICATION Spec
INVARIANT Fresh 
PROPERTIES Idempotent FailedRunTouchesNothing
CHECK_DEADLOCK FALSE
