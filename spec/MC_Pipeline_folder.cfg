CONSTANTS
  Files = {"f1", "f2", "f3"}
  Workers = {"w1", "w2"}
  Cap = 1
  ResultKinds = {"ok", "err"}
  OutOf <- OutTwo
  SingleFile = FALSE
  GenKinds = {"ok", "generr"}
  Visits <- VisitsOnce
  Dedupe = "none"
  Items <- ItemsDistinct
SPECIFICATION Spec
INVARIANTS TypeOk ExitOk NoWriteWithErrors WroteOk NoPanicExit
PROPERTY Terminates
CHECK_DEADLOCK FALSE
