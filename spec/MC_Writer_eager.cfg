CONSTANTS
  Versions <- MCVersions
  Gen <- MCGen
  HelperPath = "codable"
  Fails <- MCFails
  EagerWrite = TRUE
  HelperBug = FALSE
  MaxRuns = 4
SPECIFICATION Spec
INVARIANT Fresh 
PROPERTIES Idempotent FailedRunTouchesNothing
CHECK_DEADLOCK FALSE
