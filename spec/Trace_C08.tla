------------------------------ MODULE Trace_C08 ------------------------------
(* Impl -> spec: each event is one real run (library or binary) on a program with one planted      *)
(* unsupported construct: the outcome class and whether a pre-existing output file was touched.      *)
EXTENDS Reject, TLC, Json, IOUtils
Rec == ndJsonDeserialize(IOEnv.TRACE)
VARIABLES i, bad
Init == i = 1 /\ bad = <<>>
Next == /\ i <= Len(Rec)
        /\ bad' = IF Conforms(Rec[i].case, Rec[i].outcome, Rec[i].touched, Rec[i].value_ok) THEN bad ELSE Append(bad, i)
        /\ i' = i + 1
Report == (i = Len(Rec) + 1) => PrintT(<<"INFO", "bad", ToJson(bad)>>)
Accepted == PrintT(<<"INFO", "matched", TLCGet("stats").diameter - 1>>)
=============================================================================
