------------------------------ MODULE TargetOs ------------------------------
(* Layer P for C13: the documented --target-os rule (docs/src/usage/target_os.md).              *)
(* A cfg expression is a tree:  [k |-> "os", v |-> name]  (target_os = "name")                   *)
(*                              [k |-> "feat"] (feature = "f")   [k |-> "word"] (unix)           *)
(*                              [k |-> "os_other"] (target_family = ".." style name-values)      *)
(*                              [k |-> "not"|"any"|"all", cs |-> <<children>>]                   *)
(* An element carries a sequence of such expressions (one per #[cfg(..)] attribute).             *)
EXTENDS Naturals, Sequences, FiniteSets

RECURSIVE OsUnder(_, _, _)
\* OS names occurring in e; wantNeg = TRUE collects those inside some not(...), FALSE those outside every not
OsUnder(e, underNot, wantNeg) ==
    IF e.k = "os" THEN (IF underNot = wantNeg THEN {e.v} ELSE {})
    ELSE IF e.k \in {"not", "any", "all"} THEN
        UNION {OsUnder(e.cs[i], underNot \/ e.k = "not", wantNeg) : i \in 1..Len(e.cs)}
    ELSE {}

Rej(attrs) == UNION {OsUnder(attrs[i], FALSE, TRUE) : i \in 1..Len(attrs)}
Acc(attrs) == UNION {OsUnder(attrs[i], FALSE, FALSE) : i \in 1..Len(attrs)}

\* kept iff no OS named inside not(...) is targeted and, if any OS is named outside not(...), one of them is targeted
Accept(attrs, T) ==
    \/ T = {}
    \/ /\ Rej(attrs) \cap T = {}
       /\ (Acc(attrs) = {} \/ Acc(attrs) \cap T # {})
=============================================================================
