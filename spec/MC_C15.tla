------------------------------- MODULE MC_C15 -------------------------------
(* Builder for C15: every doc text of up to MaxLen tokens over the alphabet, as ONE comment entry   *)
(* (block / #[doc] style: may contain line breaks) - the `///` style is the same text split at NL.    *)
(* Layer M (how each backend wraps comment entries) predicts per language whether the text escapes;  *)
(* the predictions are the injections replayed on the real generators.                                *)
EXTENDS DocText, TLC, Json, SequencesExt
CONSTANTS Alphabet, MaxLen
VARIABLE doc

Init == doc = <<>>
Next == Len(doc) < MaxLen /\ \E t \in Alphabet : doc' = Append(doc, t)

\* a doc token as lexer symbols in a target language (each token is followed by a DOC marker)
Sym(lang, t) ==
    CASE t \in {"NL", "CRLF"} -> <<"NL">> [] t = "CR" -> <<"CR">>
      \* the conventional ` * ` leader of block comments: SL = a star at the beginning of the text, NLSL = a line break followed by
      \* a star, NLBC = a line break followed by `*/` (the closing line of a quoted nested comment): a backend that re-uses or
      \* strips leaders must still not let the `*/` through
      \* BCCR: a star and a slash with nothing but a carriage return between them - not a terminator, unless something removes the CR
      [] t = "BCCR" -> <<"X", "CR", "X">>
      [] t = "SL" -> <<"X">> [] t = "NLSL" -> <<"NL", "X">> [] t = "NLBC" -> <<"NL", "BC">>
      [] t = "BC" -> <<"BC">> [] t = "BO" -> <<"BO">> [] t = "LC" -> <<"LC">>
      [] t = "TDQ" -> (IF lang = "python" THEN <<"TDQ">> ELSE <<"DQ", "DQ", "DQ">>)
      [] t = "TSQ" -> (IF lang = "python" THEN <<"TSQ">> ELSE <<"SQ", "SQ", "SQ">>)
      \* runs of 2, 4 and 5 double quotes: a run that is not a multiple of three leaves quotes next to an escaped triple
      [] t = "DDQ" -> <<"DQ", "DQ">>
      [] t = "QDQ" -> (IF lang = "python" THEN <<"TDQ", "DQ">> ELSE <<"DQ", "DQ", "DQ", "DQ">>)
      [] t = "PDQ" -> (IF lang = "python" THEN <<"TDQ", "DQ", "DQ">> ELSE <<"DQ", "DQ", "DQ", "DQ", "DQ">>)
      [] t = "BS" -> <<"BS">> [] t = "HASH" -> <<"HASH">> [] t = "BT" -> <<"BT">> [] t = "DQ" -> <<"DQ">>
      \* text that only SPELLS a line break (&#10; &#xA; %0A are plain text; \n and \u{a} start with a backslash): it stays text
      [] t \in {"AMPNL", "AMPXA"} -> <<"X", "HASH", "X">>
      [] t = "PCTNL" -> <<"X">>
      [] t \in {"BSN", "UNL"} -> <<"BS", "X">>
      [] OTHER -> <<"X">>
\* what the wrappers do to a token before writing it (since fixes in typeshare: line-comment backends start a new
\* comment line at every line break, TypeScript writes `*\/` for `*/`, Python escapes backslashes and the delimiter)
WSym(lang, t) ==
    CASE t \in {"NL", "CRLF", "CR"} /\ lang \in {"kotlin", "swift", "scala", "go"} -> <<"NL", "LC">>      \* (CR: since 8cdcc90)
      [] t = "BCCR" /\ lang \in {"kotlin", "swift", "scala", "go"} -> <<"X", "NL", "LC", "X">>
      [] t = "BC" /\ lang = "typescript" -> <<"X", "BS", "X">>
      [] t = "NLBC" /\ lang = "typescript" -> <<"NL", "X", "BS", "X">>
      [] t \in {"NLSL", "NLBC"} /\ lang \in {"kotlin", "swift", "scala", "go"} -> <<"NL", "LC">> \o Tail(Sym(lang, t))
      [] t = "TDQ" /\ lang = "python" -> <<"BS", "DQ", "BS", "DQ", "BS", "DQ">>
      [] t = "QDQ" /\ lang = "python" -> <<"BS", "DQ", "BS", "DQ", "BS", "DQ", "DQ">>
      [] t = "PDQ" /\ lang = "python" -> <<"BS", "DQ", "BS", "DQ", "BS", "DQ", "DQ", "DQ">>
      [] t = "BS" /\ lang = "python" -> <<"BS", "BS">>
      [] OTHER -> Sym(lang, t)
Body(lang) == FlattenSeq([i \in 1..Len(doc) |-> WSym(lang, doc[i]) \o <<"DOC">>])

\* layer M: the wrappers (type-level comment; one entry)
Wrapped(lang) ==
    CASE lang = "typescript" -> <<"BO">> \o Body(lang) \o <<"BC", "NL", "X", "NL">>          \* /** entry */
      [] lang \in {"kotlin", "swift"} -> <<"LC">> \o Body(lang) \o <<"NL", "X", "NL">>        \* /// entry
      [] lang \in {"scala", "go"} -> <<"LC">> \o Body(lang) \o <<"NL", "X", "NL">>            \* // entry
      [] lang = "python" -> <<"X", "NL", "TDQ", "NL">> \o Body(lang) \o <<"NL", "TDQ", "NL">> \* docstring
Langs == {"typescript", "kotlin", "swift", "scala", "go", "python"}
Predict == [l \in Langs |-> Safe(l, Wrapped(l))]

\* companies: the entry (which may contain line breaks: block / #[doc] style) is not the element's only doc attribute - a single-line
\* `///` attribute stands before or after it. Every entry is wrapped on its own, whatever else documents the element.
Companies == {"block_after_line", "attr_after_line", "block_before_line", "attr_before_line"}
\* Named: the entry documents a TYPE and begins with the type's own name, which a naming option of the run re-spells (Go acronyms)
HasBreak == \E i \in 1..Len(doc) : doc[i] \in {"NL", "CRLF", "CR", "NLSL", "NLBC", "BCCR"}
Emit == doc # <<>> => PrintT(<<"REPLAY", ToJson([doc |-> doc, predict_safe |-> Predict, companies |-> IF HasBreak THEN Companies ELSE {}])>>)
=============================================================================
