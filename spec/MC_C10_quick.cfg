CONSTANT Mode = "quick"
INIT Init
NEXT Next
INVARIANT Emit
CHECK_DEADLOCK FALSE
