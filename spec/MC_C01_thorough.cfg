CONSTANTS
  Siblings = {"none", "ruled_before", "ruled_after", "plain_after"}
  Decors = {"none", "ts_readonly", "type_override", "ts_date"}
  Layouts = {"two", "then_word", "word_first", "subject_last", "word_last_only", "between_words"}
  EnumFieldRules = {"none", "camelCase", "SCREAMING-KEBAB-CASE"}
  Idents = {"caf<e>_max", "a", "foo_bar", "foo_bar2", "r#type", "r#match", "class", "default", "x_", "_lead", "http_url_v2", "user_id", "id", "ID", "URL", "API_KEY", "userName", "HTTPServer2"}
  Renames = {"$ref", "none", "other", "parentId", "fooBar", "foo-bar", "Foo_Bar-2", "class", "_x"}
  RuleSet = {"none", "lowercase", "UPPERCASE", "PascalCase", "camelCase", "snake_case", "SCREAMING_SNAKE_CASE", "kebab-case", "SCREAMING-KEBAB-CASE"}
  Spellings = {"after_list", "merged", "split", "reversed", "extra"}
  EnumRules = {"none", "SCREAMING_SNAKE_CASE", "kebab-case"}
INIT Init
NEXT Next
INVARIANT Emit
CHECK_DEADLOCK FALSE
