CONSTANTS
  Idents = {"Target", "PreTarget", "Protocol"}
  SvNames = {"Sv", "OK", "Rate_Limited", "lowerCase"}
  Modes = {"single", "folder"}
  Elsewheres = {"none", "same_ident_renamed", "same_ident_plain", "module_twin", "same_ident_renamed_later_crate"}
  Kinds = {"struct", "generic_struct", "unit_enum", "tagged_enum", "alias", "recursive_struct", "recursive_enum", "generic_alias", "generic_enum", "unit_struct", "newtype_struct", "jvm_inline", "sas_struct", "sas_enum"}
  Prefixes = {"", "Pre"}
INIT Init
NEXT Next
INVARIANT Emit
CHECK_DEADLOCK FALSE
