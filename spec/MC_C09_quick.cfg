CONSTANTS
  Kinds = {"struct", "generic_struct", "unit_enum", "tagged_enum", "alias", "recursive_struct", "recursive_enum"}
  Prefixes = {"", "Pre"}
INIT Init
NEXT Next
INVARIANT Emit
CHECK_DEADLOCK FALSE
