CONSTANTS
  Depth = 2
  PairDepth = 1
  OsLeaves = {"a", "b", "c"}
  WithFeat = TRUE
  WithWord = TRUE
INIT Init
NEXT Next
INVARIANTS Emit Sane ModelAgrees
CHECK_DEADLOCK FALSE
