------------------------------ MODULE Trace_C04 ------------------------------
(* Events as in Trace_C05, plus ty_plain. C04: the member is marked optional exactly when its Rust  *)
(* type is Option<..> (behind any smart pointers) or it carries the bare serde(default); the marker  *)
(* does not change the translated type; TypeScript keeps Option<Option<T>> apart in struct fields:   *)
(* `?` plus `| null`.                                                                                 *)
EXTENDS TypeExpr, TLC, Json, IOUtils
Rec == ndJsonDeserialize(IOEnv.TRACE)
VARIABLES i, bad
\* e.ty_plain: the type the SAME backend printed for the same core type used plainly (no Option around it, no
\* default attribute). "The optional marker never changes the underlying translated type" is this relation
\* between two observations; it does not depend on what C05 says the translation should be.
RECURSIVE StripOpts(_)
StripOpts(o) == IF o.k \in {"opt", "undef"} THEN StripOpts(o.e) ELSE o
OptOk(e) == LET a == Abs(e.rust) IN
    /\ e.optional = (a.k = "opt" \/ e.default)
    /\ StripOpts(e.ty) = StripOpts(e.ty_plain)
    /\ (e.lang = "typescript" /\ a.k = "opt" /\ a.e.k = "opt" /\ e.pos \in {"field", "vfield"}) => e.ty.k = "opt"
    \* ... and the other way round: a single Option is `?` alone - printed as `?` plus `| null` it could not be told from Option<Option<T>>
    /\ (e.lang = "typescript" /\ a.k = "opt" /\ a.e.k # "opt" /\ e.pos \in {"field", "vfield"}) => e.ty.k # "opt"
Ok(e) == e.pos \in {"alias", "const"} \/ OptOk(e)
Init == i = 1 /\ bad = <<>>
Next == /\ i <= Len(Rec)
        /\ bad' = IF Ok(Rec[i]) THEN bad ELSE Append(bad, i)
        /\ i' = i + 1
Report == (i = Len(Rec) + 1) => PrintT(<<"INFO", "bad", ToJson(bad)>>)
Accepted == PrintT(<<"INFO", "matched", TLCGet("stats").diameter - 1>>)
=============================================================================
