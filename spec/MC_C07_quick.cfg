CONSTANTS
  Invocations = {"absolute", "relative_src", "relative_dot"}
  Constructs = {"ok_struct", "empty_tuple_struct", "empty_tuple_variant", "vec_noargs", "option_noargs", "hashmap_noargs",
                "hashmap_onearg", "box_noargs", "unknown_typeshare_list", "typeshare_lang_list_bad", "underscore_field_camel",
                "dunder_field_camel", "nonascii_variant_camel", "nonascii_field_pascal", "nonascii_field_snake", "nonascii_field_kebab", "nonascii_vfield_snake", "const_nonascii", "use_bare_crate", "use_glob_only",
                "const_int", "const_string", "const_usize", "const_u64", "const_i64_neg", "const_bool", "const_user_type", "const_option", "not_rust", "not_utf8", "unit_struct", "empty_enum", "generic_map_key",
                "serialized_as_garbage", "tuple_field", "u64_field", "nested_mod_fn", "unicode_rename", "raw_ident_field",
                "doc_weird", "array_len_expr", "fn_pointer_field", "impl_trait_alias", "lifetime_generic", "const_generic",
                "where_clause", "macro_item", "empty_file_marker",
                "generic_tree", "generic_enum_two_selfrefs", "mutual_generic_twice", "generic_list", "nonascii_enum_name", "nonascii_struct_name",
                "dangling_symlink", "symlink_loop_dir", "dir_named_rs",
                "config_is_dir", "config_is_dir_in_parent", "config_empty", "config_invalid", "config_symlink_loop", "config_dangling_link", "config_odd_values"}
  Packages = {"given", "none"}
  Langs = {"typescript", "kotlin", "swift", "scala", "go", "python"}
  Modes = {"single", "multi"}
  Companions = {"none"}
INIT Init
NEXT Next
INVARIANT Emit
CHECK_DEADLOCK FALSE
