------------------------------- MODULE MC_C14 -------------------------------
(* Builder for C14: a consumer crate referencing a type of a provider crate through every `use` /    *)
(* path form, x provider directory name (plain, dashed, digit) x consumer file depth x target renamed *)
(* x a same-named type in a third crate. Prints the file every type must be written to.                *)
EXTENDS Workspace, TLC, Json
CONSTANTS Forms, Dirs, Depths
VARIABLE c
\* dup: a third crate defines a type with the same Rust identifier; dup_renamed: that one carries its own serde(rename)
Init == c \in { r \in [form : Forms, dir : Dirs, depth : Depths, renamed : BOOLEAN, dup : BOOLEAN, dup_renamed : BOOLEAN] : r.dup_renamed => r.dup }
Next == UNCHANGED c

DirChars(d) == CASE d = "alpha" -> <<"a","l","p","h","a">>
                 [] d = "beta-two" -> <<"b","e","t","a","-","t","w","o">>
                 [] d = "gamma_3" -> <<"g","a","m","m","a","_","3">>
                 [] d = "my-long-crate" -> <<"m","y","-","l","o","n","g","-","c","r","a","t","e">>
Consumer == <<"c","o","n","s","u","m","e","r">>
Third == <<"t","h","i","r","d">>
Langs == {"typescript", "kotlin", "swift", "scala", "go", "python"}
SameCrate == c.form \in {"crate_path", "super_path", "self_path", "use_crate"}
Emit == PrintT(<<"REPLAY", ToJson([case |-> c,
    files |-> [l \in Langs |-> [provider |-> FileName(l, DirChars(c.dir)), consumer |-> FileName(l, Consumer), third |-> FileName(l, Third)]],
    crate |-> Str(CrateName(DirChars(c.dir))), same_crate |-> SameCrate])>>)
=============================================================================
