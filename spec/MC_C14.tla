------------------------------- MODULE MC_C14 -------------------------------
(* Builder for C14: a consumer crate referencing a type of a provider crate through every `use` /    *)
(* path form, x provider directory name (plain, dashed, digit) x consumer file depth x target renamed *)
(* x a same-named type in a third crate. Prints the file every type must be written to.                *)
EXTENDS Workspace, TLC, Json
CONSTANTS Forms, Dirs, Depths, Roots, Shapes
VARIABLE c
\* form use_via_facade: the type is named through a crate of the workspace that only re-exports it (and has typeshared types of
\* its own): the import still has to come from the file of the crate that DEFINES the type
\* dup: a third crate defines a type with the same Rust identifier; dup_renamed: that one carries its own serde(rename)
\* root: where the workspace lies: plain (no ancestor directory is called src) / under_src (the whole workspace lies below a
\* directory called src, as in ~/src/project) / under_src_twice. The crate of a file does not depend on it (Workspace!CrateDirOf).
\* shadow: the consumer FILE also has a generic item one of whose type parameters is called like the imported type
\* (struct Wrapper<Target> { w: Target }): inside that item the name is a placeholder, everywhere else in the file it is the
\* imported type, which still has to be imported
\* (shape swift_override: the only reference carries typeshare(swift(type = "Date")): an override for one language, the type is used - and imported - in every other)
\* shape: the consumer's ONLY references to the type: plain_and_vec (a field of the type and a Vec of it) / map_key / map_val /
\* gen_first / gen_last (first / last argument of a two-parameter generic of the consumer crate) / gen_nested_first: a type that is
\* mentioned once, anywhere inside a type expression, is used by the file
\* second_file: the consumer CRATE has a second source file that brings in a type of the third crate in the same way (a glob import
\* of another crate, a single import): the imports of a generated module are those of all the files of its crate
Init == c \in { r \in [form : Forms, dir : Dirs, depth : Depths, renamed : BOOLEAN, dup : BOOLEAN, dup_renamed : BOOLEAN, root : Roots, shadow : BOOLEAN, shape : Shapes,
                        second_file : BOOLEAN] :
                  /\ r.second_file => (r.form \in {"use_glob", "use_single", "use_group", "qualified"} /\ ~r.dup /\ r.root = "plain" /\ ~r.shadow /\ r.shape = "plain_and_vec")
                  /\ r.shape # "plain_and_vec" => (r.form \in {"use_single", "use_group", "qualified", "use_glob"} /\ r.depth = "lib" /\ ~r.dup /\ r.root = "plain" /\ ~r.shadow /\ r.dir = "alpha")
                  /\ r.shadow => (~r.dup /\ r.root = "plain" /\ r.depth = "lib")
                  /\ r.dup_renamed => r.dup
                  /\ r.root # "plain" => (r.depth = "lib" /\ ~r.dup) }
Next == UNCHANGED c

DirChars(d) == CASE d = "alpha" -> <<"a","l","p","h","a">>
                 [] d = "beta-two" -> <<"b","e","t","a","-","t","w","o">>
                 [] d = "gamma_3" -> <<"g","a","m","m","a","_","3">>
                 [] d = "my-long-crate" -> <<"m","y","-","l","o","n","g","-","c","r","a","t","e">>
Consumer == <<"c","o","n","s","u","m","e","r">>
Third == <<"t","h","i","r","d">>
Langs == {"typescript", "kotlin", "swift", "scala", "go", "python"}
\* model-level check of CrateDirOf on the paths the harness will create
\* cwd_dot / cwd_dot_src: the command is run from inside the consumer crate; its own sources are named `.` / `./src`, the other crates
\* `../<crate>` (the crate of a file is the directory above src of its ABSOLUTE path, however the argument was spelled)
RootPath == CASE c.root \in {"plain", "cwd_dot", "cwd_dot_src"} -> <<"tmp", "ws">> [] c.root = "under_src" -> <<"tmp", "src", "ws">> [] OTHER -> <<"src", "tmp", "src", "ws">>
DepthPath == IF c.depth = "lib" THEN <<"lib.rs">> ELSE IF c.depth = "deep" THEN <<"a", "b.rs">> ELSE <<"x", "y", "z", "w.rs">>
CrateRule == /\ CrateDirOf(RootPath \o <<"consumer", "src">> \o DepthPath) = "consumer"
             /\ CrateDirOf(RootPath \o <<c.dir, "src", "m.rs">>) = c.dir
             /\ CrateDirOf(<<"tmp", "lib.rs">>) = ""
SameCrate == c.form \in {"crate_path", "super_path", "self_path", "use_crate"}
Emit == PrintT(<<"REPLAY", ToJson([case |-> c,
    files |-> [l \in Langs |-> [provider |-> FileName(l, DirChars(c.dir)), consumer |-> FileName(l, Consumer), third |-> FileName(l, Third)]],
    crate |-> Str(CrateName(DirChars(c.dir))), same_crate |-> SameCrate])>>)
=============================================================================
