------------------------------ MODULE Trace_C18 ------------------------------
(* Impl -> spec: each event is one value pushed through every U53/I54 constructor of the real   *)
(* library, with the observed outcomes; SafeInt judges each event independently. A second event  *)
(* kind records an observed comparison of two accepted values.                                    *)
EXTENDS SafeInt, TLC, Json, IOUtils
Rec == ndJsonDeserialize(IOEnv.TRACE)
VARIABLES i, bad

W(e, n, l) == [neg |-> e[n], l |-> <<e[l][1], e[l][2], e[l][3]>>]
\* cmpw: a safe integer compared with ANY wide integer (w may lie outside the safe range): the same order as the underlying integers
Ok(e) == IF e.ev = "value" THEN Conforms(W(e, "neg", "l"), e.obs)
         ELSE IF e.ev = "cmpw" THEN LET o == Cmp(W(e, "neg", "l"), W(e, "w_neg", "w_l")) IN
                e.cmp = o /\ e.eq = (o = "Equal") /\ e.lt = (o = "Less") /\ e.ge = (o # "Less")
         ELSE e.cmp = Cmp(W(e, "neg", "l"), W(e, "w_neg", "w_l")) /\ (e.eq = (Cmp(W(e, "neg", "l"), W(e, "w_neg", "w_l")) = "Equal"))

Init == i = 1 /\ bad = <<>>
Next == /\ i <= Len(Rec)
        /\ bad' = IF Ok(Rec[i]) THEN bad ELSE Append(bad, i)
        /\ i' = i + 1
Report == (i = Len(Rec) + 1) => PrintT(<<"INFO", "bad", ToJson(bad)>>)
Accepted == PrintT(<<"INFO", "matched", TLCGet("stats").diameter - 1>>)
=============================================================================
