CONSTANTS
  Members = {"m_plain", "m_opt", "m_default", "m_renamed", "m_dashed", "m_cont", "m_skip", "m_override", "m_unit", "m_optopt", "m_boxed"}
  Hosts = {"struct", "variant"}
  Rules = {"none", "camelCase", "kebab-case"}
INIT Init
NEXT Next
INVARIANT Emit
CHECK_DEADLOCK FALSE
