------------------------------ MODULE SafeInt ------------------------------
(* Layer P for C18. TLC integers are 32-bit, so a wide integer is a sign and three limbs in     *)
(* base 2^22 (66 bits): value = (-1)^neg * (l[1] + l[2]*2^22 + l[3]*2^44). The bridge between   *)
(* the limb predicates below and true integers is discharged by Apalache (SafeIntLemma.tla).    *)
EXTENDS Naturals, Integers, Sequences

B == 4194304                    \* 2^22
Limb == 0..(B - 1)
Wide == [neg : BOOLEAN, l : Limb \X Limb \X Limb]

IsZero(v) == v.l = <<0, 0, 0>>
Norm(v) == IF IsZero(v) THEN [v EXCEPT !.neg = FALSE] ELSE v        \* no negative zero

\* 2^53 - 1 = (2^22-1) + (2^22-1)*2^22 + 511*2^44   ==>   |v| <= 2^53-1  <=>  l[3] <= 511
InU53(v) == (~v.neg \/ IsZero(v)) /\ v.l[3] <= 511
InI54(v) == v.l[3] <= 511

\* magnitude < 2^n  for the widths that occur
MagBelowPow(v, n) ==
    CASE n = 7  -> v.l[3] = 0 /\ v.l[2] = 0 /\ v.l[1] < 128
      [] n = 8  -> v.l[3] = 0 /\ v.l[2] = 0 /\ v.l[1] < 256
      [] n = 15 -> v.l[3] = 0 /\ v.l[2] = 0 /\ v.l[1] < 32768
      [] n = 16 -> v.l[3] = 0 /\ v.l[2] = 0 /\ v.l[1] < 65536
      [] n = 31 -> v.l[3] = 0 /\ v.l[2] < 512
      [] n = 32 -> v.l[3] = 0 /\ v.l[2] < 1024
      [] n = 63 -> v.l[3] < 524288
      [] n = 64 -> v.l[3] < 1048576
IsPow(v, n) ==                        \* magnitude = 2^n, for n in {7,15,31,63}
    CASE n = 7  -> v.l = <<128, 0, 0>>
      [] n = 15 -> v.l = <<32768, 0, 0>>
      [] n = 31 -> v.l = <<0, 512, 0>>
      [] n = 63 -> v.l = <<0, 0, 524288>>

FitsUnsigned(v, bits) == (~v.neg \/ IsZero(v)) /\ MagBelowPow(v, bits)
FitsSigned(v, bits) == IF v.neg /\ ~IsZero(v) THEN MagBelowPow(v, bits - 1) \/ IsPow(v, bits - 1)
                       ELSE MagBelowPow(v, bits - 1)

\* order on Wide (values normalised)
MagLess(a, b) == \/ a.l[3] < b.l[3]
                 \/ a.l[3] = b.l[3] /\ a.l[2] < b.l[2]
                 \/ a.l[3] = b.l[3] /\ a.l[2] = b.l[2] /\ a.l[1] < b.l[1]
Less(a0, b0) == LET a == Norm(a0) b == Norm(b0) IN
    IF a.neg /\ ~b.neg THEN TRUE
    ELSE IF ~a.neg /\ b.neg THEN FALSE
    ELSE IF a.neg THEN MagLess(b, a) ELSE MagLess(a, b)
Cmp(a, b) == IF Less(a, b) THEN "Less" ELSE IF Less(b, a) THEN "Greater" ELSE "Equal"

\* 2^k as limbs, k in 0..65
Pow2(k) == LET i == k \div 22  r == k % 22 IN
    [neg |-> FALSE, l |-> <<IF i = 0 THEN 2^r ELSE 0, IF i = 1 THEN 2^r ELSE 0, IF i = 2 THEN 2^r ELSE 0>>]

\* magnitude + d for a small integer d (|d| < 2^22); result undefined (neg magnitude) reported as "under"
AddSmall(v, d) ==
    LET s1 == v.l[1] + d
        c1 == IF s1 >= B THEN 1 ELSE IF s1 < 0 THEN -1 ELSE 0
        n1 == s1 - c1 * B
        s2 == v.l[2] + c1
        c2 == IF s2 >= B THEN 1 ELSE IF s2 < 0 THEN -1 ELSE 0
        n2 == s2 - c2 * B
        s3 == v.l[3] + c2
    IN [ok |-> s3 >= 0 /\ s3 < B, v |-> [neg |-> v.neg, l |-> <<n1, n2, IF s3 >= 0 /\ s3 < B THEN s3 ELSE 0>>]]

\* Tri-state expectation vocabulary shared by both conformance directions: "T", "F", "na" (constructor not
\* applicable to this value). Keys starting with may_ are upper bounds: observed "T" is allowed only if "T".
TF(b) == IF b THEN "T" ELSE "F"
Expect(v0) == LET v == Norm(v0) IN
    [u53_try |-> IF FitsUnsigned(v, 64) THEN TF(InU53(v)) ELSE "na",       \* TryFrom<u64>
     i54_try |-> IF FitsSigned(v, 64) THEN TF(InI54(v)) ELSE "na",         \* TryFrom<i64>
     u53_de |-> TF(InU53(v)), i54_de |-> TF(InI54(v)),                      \* serde_json integer literal
     may_u53_de_float |-> TF(InU53(v)), may_i54_de_float |-> TF(InI54(v)),  \* float-shaped literal: never outside the range
     \* accepted values survive: back to wide, Display, serde_json round trip, f64 round trip, ==, usize
     u53_preserved |-> IF FitsUnsigned(v, 64) /\ InU53(v) THEN "T" ELSE "na",
     i54_preserved |-> IF FitsSigned(v, 64) /\ InI54(v) THEN "T" ELSE "na",
     u53_to_u32 |-> IF InU53(v) THEN TF(FitsUnsigned(v, 32)) ELSE "na",
     u53_to_u16 |-> IF InU53(v) THEN TF(FitsUnsigned(v, 16)) ELSE "na",
     u53_to_u8 |-> IF InU53(v) THEN TF(FitsUnsigned(v, 8)) ELSE "na",
     i54_to_i32 |-> IF InI54(v) /\ FitsSigned(v, 64) THEN TF(FitsSigned(v, 32)) ELSE "na",
     i54_to_i16 |-> IF InI54(v) /\ FitsSigned(v, 64) THEN TF(FitsSigned(v, 16)) ELSE "na",
     i54_to_i8 |-> IF InI54(v) /\ FitsSigned(v, 64) THEN TF(FitsSigned(v, 8)) ELSE "na",
     u53_from_narrow |-> IF FitsUnsigned(v, 32) THEN "T" ELSE "na",        \* From<u8/u16/u32> preserves the value
     i54_from_narrow |-> IF FitsSigned(v, 32) THEN "T" ELSE "na"]

\* an observation (same keys) conforms iff it equals Expect except for the may_ upper bounds
Conforms(v, obs) == LET e == Expect(v) IN
    /\ \A key \in DOMAIN e \ {"may_u53_de_float", "may_i54_de_float"} : obs[key] = e[key]
    /\ obs["may_u53_de_float"] = "T" => e["may_u53_de_float"] = "T"
    /\ obs["may_i54_de_float"] = "T" => e["may_i54_de_float"] = "T"

\* What the property requires of every constructor, for a value v (facts, as a record)
Facts(v0) == LET v == Norm(v0) IN
    [u53_accept |-> InU53(v),          \* TryFrom<u64>, serde_json integer literal
     i54_accept |-> InI54(v),          \* TryFrom<i64>, serde_json integer literal
     in_u64 |-> FitsUnsigned(v, 64), in_i64 |-> FitsSigned(v, 64),
     fits_u32 |-> FitsUnsigned(v, 32), fits_u16 |-> FitsUnsigned(v, 16), fits_u8 |-> FitsUnsigned(v, 8),
     fits_i32 |-> FitsSigned(v, 32), fits_i16 |-> FitsSigned(v, 16), fits_i8 |-> FitsSigned(v, 8)]
=============================================================================
