CONSTANTS
  Shapes = {"plain", "vec", "option", "map_key", "map_val", "gen_first", "gen_last", "gen_nested_first", "map_key_nested", "qualified_generic", "qualified_generic_nested"}
  Prefixes = {"", "Pre"}
  Forms = {"use_single", "use_group", "qualified"}
INIT Init
NEXT Next
INVARIANT Emit
CHECK_DEADLOCK FALSE
