------------------------------ MODULE Trace_C16 ------------------------------
(* Impl -> spec: every recorded event is one real rename observed in typeshare's parser       *)
(* (identifier, rule, position, observed name). The spec judges each event with SerdeCase;     *)
(* events are independent, so the trace always advances and the indices P rejects are reported. *)
EXTENDS SerdeCase, TLC, Json, IOUtils
Rec == ndJsonDeserialize(IOEnv.TRACE)
VARIABLES l, bad

Conforms(e) ==
    Defined(e.rule, e.pos, e.ident) => (~e.panic /\ e.obs = Apply(e.rule, e.pos, e.ident))

Init == l = 1 /\ bad = <<>>
Next == /\ l <= Len(Rec)
        /\ bad' = IF Conforms(Rec[l]) THEN bad ELSE Append(bad, l)
        /\ l' = l + 1
Report == (l = Len(Rec) + 1) => PrintT(<<"INFO", "bad", ToJson(bad)>>)
Accepted == PrintT(<<"INFO", "matched", TLCGet("stats").diameter - 1>>)
=============================================================================
