---------------------------- MODULE SafeIntLemma ----------------------------
(* Bridge lemma for SafeInt.tla, over true (unbounded) integers, discharged by Apalache:         *)
(* the limb predicates used by TLC are equivalent to the integer predicates the property states. *)
EXTENDS Integers
VARIABLES
  \* @type: Int;
  l1,
  \* @type: Int;
  l2,
  \* @type: Int;
  l3

B == 4194304
Init == /\ l1 \in Int /\ l2 \in Int /\ l3 \in Int
        /\ 0 <= l1 /\ l1 < B /\ 0 <= l2 /\ l2 < B /\ 0 <= l3 /\ l3 < B
Next == UNCHANGED <<l1, l2, l3>>
Val == l1 + l2 * B + l3 * B * B

Lemma ==
    /\ (Val <= 9007199254740991) <=> (l3 <= 511)                         \* 2^53 - 1
    /\ (Val < 128) <=> (l3 = 0 /\ l2 = 0 /\ l1 < 128)
    /\ (Val < 256) <=> (l3 = 0 /\ l2 = 0 /\ l1 < 256)
    /\ (Val < 32768) <=> (l3 = 0 /\ l2 = 0 /\ l1 < 32768)
    /\ (Val < 65536) <=> (l3 = 0 /\ l2 = 0 /\ l1 < 65536)
    /\ (Val < 2147483648) <=> (l3 = 0 /\ l2 < 512)                       \* 2^31
    /\ (Val < 4294967296) <=> (l3 = 0 /\ l2 < 1024)                      \* 2^32
    /\ (Val < 9223372036854775808) <=> (l3 < 524288)                     \* 2^63
    /\ (Val < 18446744073709551616) <=> (l3 < 1048576)                   \* 2^64
    /\ (Val = 128) <=> (l1 = 128 /\ l2 = 0 /\ l3 = 0)
    /\ (Val = 32768) <=> (l1 = 32768 /\ l2 = 0 /\ l3 = 0)
    /\ (Val = 2147483648) <=> (l1 = 0 /\ l2 = 512 /\ l3 = 0)
    /\ (Val = 9223372036854775808) <=> (l1 = 0 /\ l2 = 0 /\ l3 = 524288)
=============================================================================
