------------------------------ MODULE StringLit ------------------------------
(* Layer P for C10, lexical part: the body of every (non-raw) string literal of a generated file uses only escape     *)
(* sequences the target language defines. body = the characters between the quotes, one 1-character string each        *)
(* (characters outside ASCII are irrelevant to escapes and are passed as "x").                                          *)
(*   Kotlin      \t \b \n \r \' \" \\ \$  \uXXXX                                                                        *)
(*   Scala       \b \t \n \f \r \" \' \\  \uXXXX  (octal \0..\377 deprecated but accepted)                               *)
(*   Go          \a \b \f \n \r \t \v \\ \"  \xHH  \uXXXX  \UXXXXXXXX  \ooo         (interpreted string literals)          *)
(*   Swift       \0 \\ \t \n \r \" \'  \u{1..8 hex}  \( interpolation                                                     *)
(*   TypeScript  any character may follow a backslash, but \x needs 2 hex digits and \u needs XXXX or {1..6 hex}         *)
EXTENDS Naturals, Sequences

Hex == {"0","1","2","3","4","5","6","7","8","9","a","b","c","d","e","f","A","B","C","D","E","F"}
Oct == {"0","1","2","3","4","5","6","7"}
Simple(lang) ==
    CASE lang = "kotlin" -> {"t", "b", "n", "r", "'", "\"", "\\", "$"}
      [] lang = "scala" -> {"b", "t", "n", "f", "r", "\"", "'", "\\"}
      [] lang = "go" -> {"a", "b", "f", "n", "r", "t", "v", "\\", "\""}
      [] lang = "swift" -> {"0", "\\", "t", "n", "r", "\"", "'", "("}
      [] OTHER -> {}

AllHex(s, from, n) == from + n - 1 <= Len(s) /\ \A k \in from..(from + n - 1) : s[k] \in Hex
\* \u{h..h}: index of the closing brace, or 0 when the form is malformed (no digits, more than max digits, a non-hex character)
RECURSIVE BraceEnd(_, _, _, _)
BraceEnd(s, k, cnt, max) ==
    IF k > Len(s) THEN 0
    ELSE IF s[k] = "}" THEN (IF cnt >= 1 THEN k ELSE 0)
    ELSE IF s[k] \in Hex /\ cnt < max THEN BraceEnd(s, k + 1, cnt + 1, max)
    ELSE 0

\* length of the escape sequence that starts with the backslash at position i (0 = not an escape of this language)
EscLen(lang, s, i) ==
    IF i + 1 > Len(s) THEN 0
    ELSE LET c == s[i + 1] IN
      IF c \in Simple(lang) THEN 2
      ELSE IF c = "u" THEN
             IF lang \in {"swift", "typescript"} /\ i + 2 <= Len(s) /\ s[i + 2] = "{"
             THEN (LET e == BraceEnd(s, i + 3, 0, IF lang = "swift" THEN 8 ELSE 6) IN IF e = 0 THEN 0 ELSE e - i + 1)
             ELSE IF lang \in {"kotlin", "scala", "go", "typescript"} /\ AllHex(s, i + 2, 4) THEN 6 ELSE 0
      ELSE IF c = "x" /\ lang \in {"go", "typescript"} THEN (IF AllHex(s, i + 2, 2) THEN 4 ELSE 0)
      ELSE IF c = "U" /\ lang = "go" THEN (IF AllHex(s, i + 2, 8) THEN 10 ELSE 0)
      ELSE IF c \in Oct /\ lang = "go" THEN (IF i + 3 <= Len(s) /\ s[i + 2] \in Oct /\ s[i + 3] \in Oct THEN 4 ELSE 0)
      ELSE IF c \in Oct /\ lang = "scala" THEN 2
      ELSE IF lang = "typescript" THEN 2
      ELSE 0

RECURSIVE EscapesFrom(_, _, _)
EscapesFrom(lang, s, i) ==
    IF i > Len(s) THEN TRUE
    ELSE IF s[i] # "\\" THEN EscapesFrom(lang, s, i + 1)
    ELSE LET n == EscLen(lang, s, i) IN n > 0 /\ EscapesFrom(lang, s, i + n)
EscapesOk(lang, s) == EscapesFrom(lang, s, 1)
AllOk(lang, strs) == \A k \in 1..Len(strs) : EscapesOk(lang, strs[k])
=============================================================================
