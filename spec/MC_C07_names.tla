---------------------------- MODULE MC_C07_names ----------------------------
(* C07, library side: members whose names are distinct in Rust / on the wire but COLLIDE once a backend normalises    *)
(* them (Python Types-enum members and snake_case fields, Go exported identifiers, Swift / Kotlin camel case, ...).    *)
(* A vector is a set of 2..MaxSize spellings x the place they are used x language. Layer P for each vector is the      *)
(* generator part of Pipeline!Terminates /\ NoPanicExit: output or a reported error - never a panic, an abort or a     *)
(* spin (a de-duplication loop that never finds a free name). What the members are finally called is not judged here.  *)
EXTENDS TLC, Json, FiniteSets, Naturals
CONSTANTS Spellings, IdentSpellings, MaxSize, Langs
VARIABLE v
\* wire_*: the spellings are serde(rename) values on placeholder identifiers; ident_*: they are the Rust identifiers themselves
Kinds == {"wire_tagged_variant", "wire_unit_variant", "wire_field", "wire_vfield", "ident_field", "ident_variant", "ident_type"}
Pool(k) == IF k \in {"ident_field", "ident_variant", "ident_type"} THEN IdentSpellings ELSE Spellings
Init == v \in { r \in [kind : Kinds, names : SUBSET Spellings, lang : Langs] :
                  /\ Cardinality(r.names) \in 2..MaxSize
                  /\ r.names \subseteq Pool(r.kind) }
Next == UNCHANGED v
Emit == PrintT(<<"REPLAY", ToJson(v)>>)
=============================================================================
