CONSTANTS
  Files = {"f1", "f2", "f3"}
  Workers = {"w1", "w2"}
  Cap = 1
  ResultKinds = {"ok"}
  OutOf <- OutSingle
  SingleFile = TRUE
  GenKinds = {"ok"}
  Visits <- VisitsOnce
  Dedupe = "none"
  Items <- ItemsNoConst
SPECIFICATION Spec
INVARIANTS TypeOk Deterministic

CHECK_DEADLOCK FALSE
