------------------------------ MODULE Trace_C02 ------------------------------
(* Impl -> spec: each event is one generated enum in one language: the Rust variants (identifier, *)
(* per-variant rename), the rename_all rule, the serde tag/content keys, and what the generated    *)
(* code shows: the wire string of every case, every occurrence of the tag key and of the content   *)
(* key. Languages are judged on the facets their output carries.                                    *)
EXTENDS SerdeAttrs, TLC, Json, IOUtils
Rec == ndJsonDeserialize(IOEnv.TRACE)
VARIABLES i, bad
HasTag(lang) == lang \in {"typescript", "swift", "go", "python"}
Ok(e) ==
    /\ Len(e.wires) = Len(e.variants)                                            \* exactly one case per variant
    /\ \A j \in 1..Len(e.variants) : e.wires[j] = VariantWire(e.variants[j].ident, e.variants[j].rename, e.rule)
    /\ e.enum = "tagged" =>
         /\ \A j \in 1..Len(e.tag_obs) : e.tag_obs[j] = e.tag
         /\ \A j \in 1..Len(e.content_obs) : e.content_obs[j] = e.content
         /\ HasTag(e.lang) => Len(e.tag_obs) >= 1
         /\ e.has_payload => Len(e.content_obs) >= 1
Init == i = 1 /\ bad = <<>>
Next == /\ i <= Len(Rec)
        /\ bad' = IF Ok(Rec[i]) THEN bad ELSE Append(bad, i)
        /\ i' = i + 1
Report == (i = Len(Rec) + 1) => PrintT(<<"INFO", "bad", ToJson(bad)>>)
Accepted == PrintT(<<"INFO", "matched", TLCGet("stats").diameter - 1>>)
=============================================================================
