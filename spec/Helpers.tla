------------------------------- MODULE Helpers -------------------------------
(* Layer P for C12: names that typeshare itself brings into a generated file must be defined or   *)
(* imported there (or, for Swift's CodableVoid in multi-file mode, in the shared Codable.swift).   *)
EXTENDS Sequences, FiniteSets, Naturals

ToSet(s) == {s[i] : i \in 1..Len(s)}

\* names that are typeshare's, not the user's, per language
Vocabulary(lang) ==
    CASE lang = "swift" -> {"CodableVoid"}
      [] lang = "scala" -> {"UByte", "UShort", "UInt", "ULong"}
      [] lang = "python" -> {"List", "Dict", "Optional", "Union", "Literal", "Generic", "TypeVar", "Annotated", "Any",
                              "BaseModel", "Field", "ConfigDict", "BeforeValidator", "PlainSerializer", "Enum", "datetime"}
      [] lang = "go" -> {"time", "json"}
      [] OTHER -> {}

\* obs: [lang, used (seq), provided (seq: names defined or imported in the file, plus the shared helper file),
\*       typevars (seq: generic parameter names of the program that this file uses), functions_used (seq: serializer helper
\*       functions referenced), requires (seq: helper definitions the configuration makes necessary)]
\* what the helper functions typeshare emits refer to themselves
FunctionNeeds(f) == IF f \in {"parse_rfc3339", "serialize_datetime_data"} THEN {"datetime"} ELSE {}
\* user_names: identifiers that occur in the TARGET text of a configured type mapping (e.g. `time` in "time.Time"): where such a
\* name is in the file only because the user's mapping put it there, it is the user's name, not typeshare's - unless a helper
\* function that typeshare emits needs it too
Ok(o) == LET used == ToSet(o.used) provided == ToSet(o.provided)
             own == UNION {FunctionNeeds(f) : f \in ToSet(o.functions_used)}
             users == ToSet(o.user_names) \ own IN
    /\ \A n \in (used \cap Vocabulary(o.lang)) \ users : n \in provided
    /\ \A n \in ToSet(o.typevars) : n \in provided                 \* Python TypeVars for every generic parameter in use
    /\ \A n \in ToSet(o.functions_used) : n \in provided           \* custom (de)serialiser functions referenced by Annotated[...]
    /\ \A n \in ToSet(o.requires) : n \in provided                 \* e.g. TypeScript ReviverFunc/ReplacerFunc when a mapped Date/Uint8Array is used
=============================================================================
