------------------------------- MODULE MC_C08 -------------------------------
(* Builder for C08: one unsupported construct planted at a carrier position, through a chain of    *)
(* containers, with or without a skip marker on the enclosing field / variant.                       *)
EXTENDS Reject, TLC, Json, FiniteSets
CONSTANTS Wrappers, MaxChain, TypeCs, ItemCs
VARIABLE c

Chains == UNION {[1..n -> Wrappers] : n \in 0..MaxChain}
Carriers == {"field", "vfield", "payload", "alias", "const_type", "sas_field", "sas_type"}
Init == \/ c \in [construct : TypeCs, carrier : Carriers, chain : Chains, skip : {"none", "serde", "typeshare"}]
        \/ c \in [construct : ItemCs, carrier : {"item"}, chain : {<<>>}, skip : {"none", "serde", "typeshare"}]
Next == UNCHANGED c

InScope ==
    /\ (c.skip # "none" => Skippable(c))
    /\ (c.carrier = "const_type" => c.chain = <<>> /\ c.construct \in {"u64", "i64", "usize", "isize"})
    /\ (c.construct = "tuple3_nested" => Len(c.chain) <= 1)
\* binary runs: the offending item next to valid items in one file, or alone in its own file that reaches the collector before /
\* after a file of valid items (arrival forced through the order hook). The required outcome does not depend on the layout.
\* folder_*: folder-output mode with the offending item in its own CRATE whose name sorts before / after the crate of valid items
\* (files are written crate by crate in name order): no file of any crate may be created or modified by the failing run.
Layouts == {"one_file", "bad_file_first", "bad_file_last", "folder_bad_crate_first", "folder_bad_crate_last"}
Emit == InScope => PrintT(<<"REPLAY", ToJson([case |-> c, must_reject |-> MustReject(c), layouts |-> Layouts])>>)
=============================================================================
