CONSTANTS
  Shapes = {"swift_override", "plain_and_vec", "map_key", "map_val", "gen_first", "gen_last", "gen_nested_first"}
  Roots = {"cwd_dot", "cwd_dot_src", "plain", "under_src"}
  Forms = {"use_via_facade", "use_single", "use_group", "use_nested_self", "use_group_then_fn", "use_group_then_self", "use_group_then_nested_fn", "use_glob", "qualified", "crate_path", "super_path", "self_path", "use_crate", "generic_qualified", "use_alias"}
  Dirs = {"alpha", "beta-two"}
  Depths = {"lib", "deep"}
INIT Init
NEXT Next
INVARIANTS Emit CrateRule
CHECK_DEADLOCK FALSE
