------------------------------ MODULE Grammar_kt ------------------------------
(* The declaration subset of Kotlin that typeshare emits.                                            *)
EXTENDS GrammarBase
Soft == {"sw:data", "sw:sealed", "sw:enum", "sw:value", "sw:const", "sw:open", "sw:annotation", "sw:override", "sw:private", "sw:inline"}
IsId(ts, p) == AtAny(ts, p, {"id"} \cup Soft)
Id(ts, p) == IF IsId(ts, p) THEN p + 1 ELSE 0

RECURSIVE QName(_, _), Type(_, _), TypeArgs(_, _), Annots(_, _), Params(_, _), Nullable(_, _), AnnArgs(_, _), FunMembers(_, _)
QName(ts, p) == LET q == IF At(ts, p, "*") THEN p + 1 ELSE Id(ts, p) IN
                IF q = 0 THEN 0 ELSE IF At(ts, q, ".") THEN QName(ts, q + 1) ELSE q
Nullable(ts, p) == IF At(ts, p, "?") THEN Nullable(ts, p + 1) ELSE p
TypeArgs(ts, p) == LET q == Type(ts, p) IN IF q = 0 THEN 0 ELSE IF At(ts, q, ",") THEN TypeArgs(ts, q + 1) ELSE Eat(ts, q, ">")
Type(ts, p) == LET q == QName(ts, p) IN
               IF q = 0 THEN 0 ELSE Nullable(ts, IF At(ts, q, "<") THEN TypeArgs(ts, q + 1) ELSE q)
\* annotations: @Name or @Name([name =] "literal" | number | Qualified.Name, ...)      - AnnArgs: p after "("
AnnArgs(ts, p) ==
    IF At(ts, p, ")") THEN p + 1
    ELSE LET a == IF IsId(ts, p) /\ At(ts, p + 1, "=") THEN p + 2 ELSE p
             v == IF AtAny(ts, a, {"str", "num", "kw:true", "kw:false", "kw:null"}) THEN a + 1 ELSE QName(ts, a)
         IN IF v = 0 THEN 0 ELSE IF At(ts, v, ",") /\ ~At(ts, v + 1, ")") THEN AnnArgs(ts, v + 1) ELSE Eat(ts, v, ")")
Annots(ts, p) == IF At(ts, p, "@") THEN
                    LET q == QName(ts, p + 1) IN
                    IF q = 0 THEN 0 ELSE Annots(ts, IF At(ts, q, "(") THEN AnnArgs(ts, q + 1) ELSE q)
                 ELSE p
Generics(ts, p) == IF At(ts, p, "<") THEN
        LET RECURSIVE G(_) G(q) == LET r == Id(ts, q) r2 == IF At(ts, r, ":") THEN Type(ts, r + 1) ELSE r
                                   IN IF r2 = 0 THEN 0 ELSE IF At(ts, r2, ",") THEN G(r2 + 1) ELSE Eat(ts, r2, ">") IN G(p + 1)
    ELSE p
Default(ts, p) == IF At(ts, p, "=") THEN (IF AtAny(ts, p + 1, {"kw:null", "str", "num", "kw:true", "kw:false"}) \/ IsId(ts, p + 1) THEN p + 2 ELSE 0) ELSE p
\* ( [annots] [private] val|var name: Type [= default] , ... )   - p is after "("
Params(ts, p) ==
    IF At(ts, p, ")") THEN p + 1
    ELSE LET a == Annots(ts, p)
             b == IF At(ts, a, "sw:private") THEN a + 1 ELSE a
             c == IF AtAny(ts, b, {"kw:val", "kw:var"}) THEN b + 1 ELSE 0
             d == Default(ts, Type(ts, Eat(ts, Id(ts, c), ":")))
         IN IF d = 0 THEN 0 ELSE IF At(ts, d, ",") THEN Params(ts, d + 1) ELSE Eat(ts, d, ")")
Super(ts, p) == IF At(ts, p, ":") THEN Eat(ts, Eat(ts, Type(ts, p + 1), "("), ")") ELSE p
\* { ( [override] fun name() [: Type] = "literal" | name )* }
FunMembers(ts, p) ==
    IF At(ts, p, "}") THEN p + 1
    ELSE LET a == IF At(ts, p, "sw:override") THEN p + 1 ELSE p
             b == Eat(ts, Eat(ts, Id(ts, Eat(ts, a, "kw:fun")), "("), ")")
             c == Eat(ts, IF At(ts, b, ":") THEN Type(ts, b + 1) ELSE b, "=")
             d == IF At(ts, c, "str") \/ IsId(ts, c) THEN c + 1 ELSE 0
         IN IF d = 0 THEN 0 ELSE FunMembers(ts, d)
Body(ts, p) == IF At(ts, p, "{") THEN FunMembers(ts, p + 1) ELSE p

ClassDecl(ts, p) ==           \* [data] class Name<T>(params) [: Super()] [{ body }]   |   [data] object Name [: Super()]
    LET a == IF At(ts, p, "sw:data") THEN p + 1 ELSE p IN
    IF At(ts, a, "kw:class") THEN Body(ts, Super(ts, Params(ts, Eat(ts, Generics(ts, Id(ts, a + 1)), "("))))
    ELSE IF At(ts, a, "kw:object") THEN Super(ts, Id(ts, a + 1))
    ELSE 0
RECURSIVE Entries(_, _), Variants(_, _)
Entries(ts, p) ==             \* ( annots Name("wire") , )* [;] }
    IF At(ts, p, "}") THEN p + 1
    ELSE IF At(ts, p, ";") THEN Eat(ts, p + 1, "}")
    ELSE LET q == Eat(ts, Eat(ts, Eat(ts, Id(ts, Annots(ts, p)), "("), "str"), ")") IN
         IF q = 0 THEN 0 ELSE Entries(ts, IF At(ts, q, ",") THEN q + 1 ELSE q)
Variants(ts, p) == IF At(ts, p, "}") THEN p + 1 ELSE LET q == ClassDecl(ts, Annots(ts, p)) IN IF q = 0 THEN 0 ELSE Variants(ts, q)

Decl(ts, p0) ==
    LET p == Annots(ts, p0) IN
    IF p = 0 THEN 0
    ELSE IF At(ts, p, "kw:typealias") THEN Type(ts, Eat(ts, Generics(ts, Id(ts, p + 1)), "="))
    ELSE IF At(ts, p, "sw:const") /\ At(ts, p + 1, "kw:val") THEN Default(ts, Type(ts, Eat(ts, Id(ts, p + 2), ":")))
    ELSE IF At(ts, p, "sw:enum") /\ At(ts, p + 1, "kw:class") THEN Entries(ts, Eat(ts, Params(ts, Eat(ts, Id(ts, p + 2), "(")), "{"))
    ELSE IF At(ts, p, "sw:sealed") /\ At(ts, p + 1, "kw:class") THEN Variants(ts, Eat(ts, Generics(ts, Id(ts, p + 2)), "{"))
    ELSE IF At(ts, p, "sw:value") /\ At(ts, p + 1, "kw:class") THEN Body(ts, Params(ts, Eat(ts, Generics(ts, Id(ts, p + 2)), "(")))
    ELSE ClassDecl(ts, p)

RECURSIVE Imports(_, _), Decls(_, _)
Imports(ts, p) == IF At(ts, p, "kw:import") THEN LET q == QName(ts, p + 1) IN IF q = 0 THEN 0 ELSE Imports(ts, q) ELSE p
Decls(ts, p) == IF End(ts, p) THEN TRUE ELSE LET q == Decl(ts, p) IN IF q = 0 THEN FALSE ELSE Decls(ts, q)
Accepts(ts) == LET a == IF At(ts, 1, "kw:package") THEN QName(ts, 2) ELSE 1
                   b == Imports(ts, a)
               IN b > 0 /\ Decls(ts, b)
=============================================================================
