CONSTANTS
  Depth = 3
  PrimLeaves = {"bool", "char", "String", "str", "i8", "i16", "i32", "u8", "u16", "u32", "I54", "U53", "f32", "f64", "unit"}
  Wrappers = {"Box", "Arc"}
  MapKeys = {"String", "u32"}
  ExtraDepth = 0
INIT Init
NEXT Next
INVARIANTS Emit Sane
CHECK_DEADLOCK FALSE
