CONSTANTS Discoveries = {"flag", "flag_over_cwd"}
INIT Init
NEXT Next
INVARIANTS Emit ModelAgrees
CHECK_DEADLOCK FALSE
