CONSTANTS Discoveries = {"flag", "flag_over_cwd", "cwd_over_parent", "cwd_over_all"}
INIT Init
NEXT Next
INVARIANTS Emit ModelAgrees DiscoveryOk
CHECK_DEADLOCK FALSE
