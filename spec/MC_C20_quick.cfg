CONSTANTS Discoveries = {"flag"}
INIT Init
NEXT Next
INVARIANTS Emit ModelAgrees
CHECK_DEADLOCK FALSE
