------------------------------ MODULE Grammar_go ------------------------------
(* The declaration subset of Go that typeshare emits. Function bodies are balanced blocks.            *)
EXTENDS GrammarBase
Soft == {"sw:string", "sw:int", "sw:bool", "sw:error", "sw:nil", "sw:true", "sw:false", "sw:any"}
IsId(ts, p) == AtAny(ts, p, {"id"} \cup Soft)
Id(ts, p) == IF IsId(ts, p) THEN p + 1 ELSE 0
RECURSIVE Type(_, _), TypeArgs(_, _), Fields(_, _), ConstEntries(_, _), ImportList(_, _), ParamList(_, _)
TypeArgs(ts, p) == LET q == Type(ts, p) IN IF q = 0 THEN 0 ELSE IF At(ts, q, ",") THEN TypeArgs(ts, q + 1) ELSE Eat(ts, q, "]")
Type(ts, p) ==
    IF At(ts, p, "*") THEN Type(ts, p + 1)
    ELSE IF At(ts, p, "[") THEN (IF At(ts, p + 1, "]") THEN Type(ts, p + 2) ELSE Type(ts, Eat(ts, Eat(ts, p + 1, "num"), "]")))
    ELSE IF At(ts, p, "kw:map") THEN Type(ts, Eat(ts, Type(ts, Eat(ts, p + 1, "[")), "]"))
    ELSE IF At(ts, p, "kw:interface") \/ At(ts, p, "kw:struct") THEN (IF At(ts, p + 1, "{") /\ At(ts, p + 2, "}") THEN p + 3 ELSE 0)
    ELSE IF IsId(ts, p) THEN
        LET q == IF At(ts, p + 1, ".") THEN Id(ts, p + 2) ELSE p + 1 IN
        IF At(ts, q, "[") /\ ~At(ts, q + 1, "]") THEN TypeArgs(ts, q + 1) ELSE q
    ELSE 0
\* struct fields until "}":  Name Type [`tag`]
Fields(ts, p) ==
    IF At(ts, p, "}") THEN p + 1
    ELSE LET t == Type(ts, Id(ts, p))
             u == IF At(ts, t, "str") THEN t + 1 ELSE t
         IN IF u = 0 THEN 0 ELSE Fields(ts, u)
\* const block entries until ")":  Name [Type] = value
ConstEntries(ts, p) ==
    IF At(ts, p, ")") THEN p + 1
    ELSE LET a == Id(ts, p)
             b == IF At(ts, a, "=") THEN a ELSE Type(ts, a)
             c == Eat(ts, b, "=")
             d == IF At(ts, c, "-") THEN c + 1 ELSE c
             e == IF AtAny(ts, d, {"str", "num"}) \/ IsId(ts, d) THEN d + 1 ELSE 0
         IN IF e = 0 THEN 0 ELSE ConstEntries(ts, e)
ImportList(ts, p) == IF At(ts, p, ")") THEN p + 1 ELSE IF At(ts, p, "str") THEN ImportList(ts, p + 1) ELSE IF IsId(ts, p) /\ At(ts, p + 1, "str") THEN ImportList(ts, p + 2) ELSE 0
\* ( name Type, ... )   p after "("
ParamList(ts, p) ==
    IF At(ts, p, ")") THEN p + 1
    ELSE LET t == Type(ts, Id(ts, p)) IN IF t = 0 THEN 0 ELSE IF At(ts, t, ",") THEN ParamList(ts, t + 1) ELSE Eat(ts, t, ")")
TParams(ts, p) == IF At(ts, p, "[") THEN
        LET RECURSIVE G(_) G(q) == LET r == Type(ts, Id(ts, q)) IN IF r = 0 THEN 0 ELSE IF At(ts, r, ",") THEN G(r + 1) ELSE Eat(ts, r, "]") IN Opt(p, G(p + 1))     \* `type A []T` is not a parameter list
    ELSE p
Results(ts, p) ==             \* nothing | Type | (Type, Type)
    IF At(ts, p, "{") THEN p
    ELSE IF At(ts, p, "(") THEN LET RECURSIVE R(_) R(q) == LET r == Type(ts, q) IN IF r = 0 THEN 0 ELSE IF At(ts, r, ",") THEN R(r + 1) ELSE Eat(ts, r, ")") IN R(p + 1)
    ELSE Type(ts, p)
\* --- statements of function bodies (newlines are not tokens; see Grammar_swift)
RECURSIVE GExpr(_, _), GUnary(_, _), GPostfix(_, _), GArgL(_, _), GExprList(_, _), GStmts(_, _), GStmt(_, _), GCases(_, _), GCaseBody(_, _), GKeyVals(_, _), GIf(_, _), RetList(_, _)
GPrimary(ts, p) == IF At(ts, p, "(") THEN Eat(ts, GExpr(ts, p + 1), ")") ELSE IF AtAny(ts, p, {"num", "str"}) \/ IsId(ts, p) THEN p + 1 ELSE 0
GArgs(ts, p) == IF At(ts, p, ")") THEN p + 1 ELSE GArgL(ts, p)
GArgL(ts, p) == LET e == GExpr(ts, p) IN IF e = 0 THEN 0 ELSE IF At(ts, e, ",") THEN GArgL(ts, e + 1) ELSE Eat(ts, e, ")")
GPostfix(ts, p) ==
    IF At(ts, p, ".") THEN (IF IsId(ts, p + 1) THEN GPostfix(ts, p + 2)
                            ELSE IF At(ts, p + 1, "(") THEN GPostfix(ts, Eat(ts, Type(ts, p + 2), ")"))      \* type assertion x.(*T)
                            ELSE 0)
    ELSE IF At(ts, p, "(") THEN GPostfix(ts, GArgs(ts, p + 1))
    ELSE IF At(ts, p, "[") THEN GPostfix(ts, Eat(ts, GExpr(ts, p + 1), "]"))
    ELSE p
GUnary(ts, p) == IF AtAny(ts, p, {"&", "*", "-", "!"}) THEN GUnary(ts, p + 1) ELSE GPostfix(ts, GPrimary(ts, p))
GExpr(ts, p) == LET u == GUnary(ts, p) IN IF AtAny(ts, u, {"!=", "==", "&&", "||", "+"}) THEN GExpr(ts, u + 1) ELSE u
GExprList(ts, p) == LET e == GExpr(ts, p) IN IF e = 0 THEN 0 ELSE IF At(ts, e, ",") THEN GExprList(ts, e + 1) ELSE e
Simple(ts, p) == LET l == GExprList(ts, p) IN IF AtAny(ts, l, {"=", ":="}) THEN GExprList(ts, l + 1) ELSE l
GKeyVals(ts, p) ==            \* composite literal body, p after "{":  Name: expr, ... }
    IF At(ts, p, "}") THEN p + 1
    ELSE LET v == GExpr(ts, Eat(ts, Id(ts, p), ":")) IN IF v = 0 THEN 0 ELSE IF At(ts, v, ",") THEN GKeyVals(ts, v + 1) ELSE Eat(ts, v, "}")
RetItem(ts, p) == LET t == IF IsId(ts, p) THEN Type(ts, p) ELSE 0 IN IF t > 0 /\ At(ts, t, "{") THEN GKeyVals(ts, t + 1) ELSE GExpr(ts, p)
RetList(ts, p) == LET e == RetItem(ts, p) IN IF e = 0 THEN 0 ELSE IF At(ts, e, ",") THEN RetList(ts, e + 1) ELSE e
GIf(ts, p) == LET s == Simple(ts, p + 1)
                  c == IF At(ts, s, ";") THEN GExpr(ts, s + 1) ELSE s
                  b == GStmts(ts, Eat(ts, c, "{"))
              IN IF At(ts, b, "kw:else") THEN (IF At(ts, b + 1, "kw:if") THEN GIf(ts, b + 1) ELSE GStmts(ts, Eat(ts, b + 1, "{"))) ELSE b
GCaseBody(ts, p) == IF p = 0 THEN 0 ELSE IF AtAny(ts, p, {"kw:case", "kw:default", "}"}) THEN GCases(ts, p) ELSE GCaseBody(ts, GStmt(ts, p))
GCases(ts, p) ==
    IF At(ts, p, "}") THEN p + 1
    ELSE IF At(ts, p, "kw:case") THEN GCaseBody(ts, Eat(ts, GExprList(ts, p + 1), ":"))
    ELSE IF At(ts, p, "kw:default") THEN GCaseBody(ts, Eat(ts, p + 1, ":"))
    ELSE 0
GStmt(ts, p) ==
    IF At(ts, p, "kw:var") THEN
        LET n == Id(ts, p + 1) IN
        IF At(ts, n, "kw:struct") /\ At(ts, n + 1, "{") /\ ~At(ts, n + 2, "}") THEN Fields(ts, n + 2)
        ELSE LET t == Type(ts, n) IN IF At(ts, t, "=") THEN GExpr(ts, t + 1) ELSE t
    ELSE IF At(ts, p, "kw:if") THEN GIf(ts, p)
    ELSE IF At(ts, p, "kw:switch") THEN GCases(ts, Eat(ts, GExpr(ts, p + 1), "{"))
    ELSE IF At(ts, p, "kw:return") THEN (IF AtAny(ts, p + 1, {"}", "kw:case", "kw:default"}) THEN p + 1 ELSE RetList(ts, p + 1))
    ELSE Simple(ts, p)
GStmts(ts, p) == IF At(ts, p, "}") THEN p + 1 ELSE IF p = 0 THEN 0 ELSE LET q == GStmt(ts, p) IN IF q = 0 THEN 0 ELSE GStmts(ts, q)      \* p after "{"
Decl(ts, p) ==
    IF At(ts, p, "kw:import") THEN (IF At(ts, p + 1, "str") THEN p + 2 ELSE IF At(ts, p + 1, "(") THEN ImportList(ts, p + 2) ELSE 0)
    ELSE IF At(ts, p, "kw:type") THEN
        LET n == TParams(ts, Id(ts, p + 1)) IN
        IF At(ts, n, "kw:struct") /\ At(ts, n + 1, "{") THEN Fields(ts, n + 2)
        ELSE IF At(ts, n, "=") THEN Type(ts, n + 1)
        ELSE Type(ts, n)
    ELSE IF At(ts, p, "kw:const") THEN
        IF At(ts, p + 1, "(") THEN ConstEntries(ts, p + 2)
        ELSE LET a == Id(ts, p + 1)
                 b == IF At(ts, a, "=") THEN a ELSE Type(ts, a)
                 c == Eat(ts, b, "=")
                 d == IF At(ts, c, "-") THEN c + 1 ELSE c
             IN IF AtAny(ts, d, {"str", "num"}) THEN d + 1 ELSE 0
    ELSE IF At(ts, p, "kw:func") THEN
        LET a == IF At(ts, p + 1, "(") THEN ParamList(ts, p + 2) ELSE p + 1        \* receiver
            b == ParamList(ts, Eat(ts, TParams(ts, Id(ts, a)), "("))
        IN GStmts(ts, Eat(ts, Results(ts, b), "{"))
    ELSE 0
RECURSIVE Decls(_, _)
Decls(ts, p) == IF End(ts, p) THEN TRUE ELSE LET q == Decl(ts, p) IN IF q = 0 THEN FALSE ELSE Decls(ts, q)
Accepts(ts) == LET a == IF At(ts, 1, "kw:package") THEN Id(ts, 2) ELSE 0 IN a > 0 /\ Decls(ts, a)
=============================================================================
