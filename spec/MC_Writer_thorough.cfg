CONSTANTS
  Versions <- MCVersions
  Gen <- MCGen
  HelperPath = "codable"
  Fails <- MCFails
  EagerWrite = FALSE
  HelperBug = FALSE
  MaxRuns = 4
SPECIFICATION Spec
INVARIANT Fresh EmitHistory
PROPERTIES Idempotent FailedRunTouchesNothing
CHECK_DEADLOCK FALSE
