CONSTANTS
  Versions <- MCVersions
  Gen <- MCGen
  HelperPath = "codable"
  HelperBug = FALSE
  MaxRuns = 4
SPECIFICATION Spec
INVARIANT Fresh EmitHistory
PROPERTY Idempotent
CHECK_DEADLOCK FALSE
