------------------------------- MODULE MC_C07 -------------------------------
(* Enumerates the edge-of-grammar inputs C07 quantifies over as abstract feature vectors:         *)
(* construct x language x output mode x companion files. Layer P (Pipeline!ExitOk + Terminates +  *)
(* NoPanicExit + "a diagnostic names the file") is the same for every vector; the expected        *)
(* outcome CLASS below only says which side of ExitOk applies when the construct is rejected.     *)
EXTENDS TLC, Json, Sequences
CONSTANTS Constructs, Langs, Modes, Companions, Packages, Invocations
VARIABLE v

\* packages: "given" = the package options every backend wants are on the command line; "none" = no package option at all
\* (Kotlin / Scala / Go without a package: the property lists "empty packages"); explored on the plain supported struct only
\* invocation: how the source directories are named on the command line: absolute (the tree's root) / relative_src (the working
\* directory is a crate directory and the argument is the relative path `src`, next to `../crate_b/src`) / relative_dot (`.`)
\* what lies where the configuration file is looked for (the working directory and its ancestors, no -c option), next to an ordinary
\* source tree: a DIRECTORY called typeshare.toml (here / one level up), an empty file, a file that is not TOML, a symbolic link to
\* itself, a dangling link. The run still ends: with output, or with a diagnostic that names the file.
\* config_odd_values: a valid configuration whose lists and strings hold empty / one-character values (an empty acronym, "_", an empty decorator,
\* an empty mapping key): every backend still terminates
ConfigSurroundings == {"config_is_dir", "config_is_dir_in_parent", "config_empty", "config_invalid", "config_symlink_loop", "config_dangling_link", "config_odd_values"}
Init == v \in { r \in [construct : Constructs, lang : Langs, mode : Modes, companion : Companions, packages : Packages, invocation : Invocations] :
                  /\ r.packages = "none" => (r.construct \in {"ok_struct", "generic_tree"} /\ r.companion = "none")
                  /\ r.invocation # "absolute" => (r.construct \in {"ok_struct", "not_rust"} \cup ConfigSurroundings /\ r.packages = "given"
                                                   /\ (r.lang \in {"typescript", "swift"} \/ r.construct = "config_odd_values"))
                  /\ r.construct \in ConfigSurroundings => r.invocation # "absolute" }
Next == UNCHANGED v
\* Go and Scala cannot generate without a package name: that is a configuration error. No source file is at fault, so the
\* diagnostic has to name the missing option instead of a file (still: non-zero exit, no panic, no hang).
Expect == IF v.packages = "none" /\ v.lang \in {"go", "scala"} THEN "config_error" ELSE "pipeline"
Emit == PrintT(<<"REPLAY", ToJson([f \in DOMAIN v \cup {"expect"} |-> IF f = "expect" THEN Expect ELSE v[f]])>>)
=============================================================================
