------------------------------- MODULE MC_C07 -------------------------------
(* Enumerates the edge-of-grammar inputs C07 quantifies over as abstract feature vectors:         *)
(* construct x language x output mode x companion files. Layer P (Pipeline!ExitOk + Terminates +  *)
(* NoPanicExit + "a diagnostic names the file") is the same for every vector; the expected        *)
(* outcome CLASS below only says which side of ExitOk applies when the construct is rejected.     *)
EXTENDS TLC, Json, Sequences
CONSTANTS Constructs, Langs, Modes, Companions
VARIABLE v

Init == v \in [construct : Constructs, lang : Langs, mode : Modes, companion : Companions]
Next == UNCHANGED v
Emit == PrintT(<<"REPLAY", ToJson(v)>>)
=============================================================================
