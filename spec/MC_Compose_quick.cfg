CONSTANTS
  Namings = {"far", "prefix", "case"}
  Orders = {"as_named", "crossed"}
  Places = {"same_file", "other_crate"}
  Items = {"s_plain", "s_opt", "s_cont", "s_cont2", "s_kebab", "s_generic", "e_unit", "e_unit_renamed", "e_tagged", "e_tagged_generic", "alias", "alias_cont", "s_doc", "s_unit_field", "s_keyword", "s_dashed_last_word"}
  MaxNeighbours = 1
INIT Init
NEXT Next
INVARIANT Emit
CHECK_DEADLOCK FALSE
