------------------------------- MODULE MC_C01 -------------------------------
(* Builder for C01: one container (struct, or struct variant of a tagged enum whose own           *)
(* rename_all must not leak) holding the field under test plus a plain neighbour, in every          *)
(* combination of identifier, serde(rename), rename_all rule and attribute spelling. Each state     *)
(* prints the JSON keys layer P requires for both fields.                                           *)
EXTENDS SerdeAttrs, TLC, Json
CONSTANTS Idents, Renames, RuleSet, Spellings, EnumRules, EnumFieldRules, Layouts, Decors, Siblings
VARIABLES c

\* identifiers as character sequences; raw = written r#ident in Rust
IdentOf(n) == CASE n = "a" -> [s |-> <<"a">>, raw |-> FALSE]
                [] n = "foo_bar" -> [s |-> <<"f","o","o","_","b","a","r">>, raw |-> FALSE]
                [] n = "foo_bar2" -> [s |-> <<"f","o","o","_","b","a","r","2">>, raw |-> FALSE]
                [] n = "r#type" -> [s |-> <<"t","y","p","e">>, raw |-> TRUE]
                [] n = "r#match" -> [s |-> <<"m","a","t","c","h">>, raw |-> TRUE]
                [] n = "class" -> [s |-> <<"c","l","a","s","s">>, raw |-> FALSE]
                [] n = "default" -> [s |-> <<"d","e","f","a","u","l","t">>, raw |-> FALSE]
                [] n = "x_" -> [s |-> <<"x","_">>, raw |-> FALSE]
                [] n = "_lead" -> [s |-> <<"_","l","e","a","d">>, raw |-> FALSE]
                [] n = "http_url_v2" -> [s |-> <<"h","t","t","p","_","u","r","l","_","v","2">>, raw |-> FALSE]
                [] n = "user_id" -> [s |-> <<"u","s","e","r","_","i","d">>, raw |-> FALSE]
                [] n = "id" -> [s |-> <<"i","d">>, raw |-> FALSE]
                [] n = "ID" -> [s |-> <<"I","D">>, raw |-> FALSE]
                [] n = "URL" -> [s |-> <<"U","R","L">>, raw |-> FALSE]
                [] n = "API_KEY" -> [s |-> <<"A","P","I","_","K","E","Y">>, raw |-> FALSE]
                [] n = "userName" -> [s |-> <<"u","s","e","r","N","a","m","e">>, raw |-> FALSE]
                \* a non-ASCII lower-case letter (token <e> = e with acute, spec/Chars.tla): serde's rules move ASCII letters only
                [] n = "caf<e>_max" -> [s |-> <<"c","a","f","<e>","_","m","a","x">>, raw |-> FALSE]
                [] n = "HTTPServer2" -> [s |-> <<"H","T","T","P","S","e","r","v","e","r","2">>, raw |-> FALSE]
RenameOf(n) == CASE n = "none" -> None
                 [] n = "other" -> <<"o","t","h","e","r">>
                 [] n = "fooBar" -> <<"f","o","o","B","a","r">>
                 [] n = "foo-bar" -> <<"f","o","o","-","b","a","r">>
                 [] n = "Foo_Bar-2" -> <<"F","o","o","_","B","a","r","-","2">>
                 [] n = "class" -> <<"c","l","a","s","s">>
                 [] n = "_x" -> <<"_","x">>
                 [] n = "parentId" -> <<"p","a","r","e","n","t","I","d">>
                 [] n = "empty" -> <<>>                 \* serde(rename = ""): the JSON key is the empty string
                 [] n = "$ref" -> <<"$","r","e","f">>            \* JSON-Schema / MongoDB style keys: `$` means something in Kotlin strings, nothing in Go tags

Init == c \in [kind : {"struct", "variant"}, ident : Idents, rename : Renames, rule : RuleSet,
               enum_rule : EnumRules, spelling : Spellings, enum_fields_rule : EnumFieldRules, layout : Layouts, decor : Decors, sibling : Siblings]
Next == UNCHANGED c

RECURSIVE Str(_)
Str(s) == IF s = <<>> THEN "" ELSE s[1] \o Str(Tail(s))

\* enum_fields_rule: the enum carries serde(rename_all_fields = ..): the rule of the fields of struct variants WITHOUT their own rename_all
Container == [kind |-> c.kind, rename_all |-> c.rule, variant_rename_all |-> c.rule, enum_rename_all_fields |-> c.enum_fields_rule]
Neighbour == <<"p","l","a","i","n","_","o","n","e">>
\* every case is generated under each configuration; the JSON key never depends on it. go_acronyms: the file-only Go option
\* uppercase_acronyms = ["ID", "URL", "API"], which re-spells Go IDENTIFIERS (UserID) - not the json tag
Configs == {"default", "prefix", "go_acronyms"}
\* Identifiers with upper-case letters are legal field names (non_snake_case is only a lint). Under the four snake / kebab rules
\* typeshare re-splits such a field where serde leaves it alone: that defect is listed under C16 (known_findings.jsonl, pinned by
\* snapshots) and is judged there; every other rule x upper-case identifier combination is judged here.
SnakeFamily == {"snake_case", "SCREAMING_SNAKE_CASE", "kebab-case", "SCREAMING-KEBAB-CASE"}
EffRule == RuleForField(Container)
DeferredToC16 == c.rename = "none" /\ EffRule \in SnakeFamily /\ \E k \in DOMAIN IdentOf(c.ident).s : IsUpper(IdentOf(c.ident).s[k])
FieldsRuleScope == c.enum_fields_rule # "none" => (c.kind = "variant" /\ c.enum_rule = "none" /\ c.spelling = "merged")
\* layout: the members of the container, in order. S = the field under test, N = the two-word neighbour plain_one, W = a one-word
\* member (head / tail) that most rules leave alone. A backend that switches to an explicit binding (CodingKeys, quoted properties) as
\* soon as ONE key needs it must do so wherever that member stands: first, in the middle, last, before a member that needs none.
Word(w) == IF w = "head" THEN <<"h","e","a","d">> ELSE <<"t","a","i","l">>
LayoutOf(l) == CASE l = "two" -> <<"S", "N">> [] l = "then_word" -> <<"S", "N", "tail">> [] l = "word_first" -> <<"head", "S", "N">>
                 [] l = "subject_last" -> <<"N", "S">> [] l = "word_last_only" -> <<"S", "tail">> [] l = "between_words" -> <<"head", "S", "tail">>
KeyOfMember(m) == IF m = "S" THEN Str(FieldWire(IdentOf(c.ident).s, RenameOf(c.rename), RuleForField(Container)))
                  ELSE IF m = "N" THEN Str(FieldWire(Neighbour, None, RuleForField(Container)))
                  ELSE Str(FieldWire(Word(m), None, RuleForField(Container)))
\* (ts_date: the member gets TypeScript's custom JSON translation; the generated reviver names the member by its JSON key once more)
\* decor: a typeshare(..) decoration of the field that changes how a backend PRINTS the member (TypeScript readonly, a per-language type
\* override) - never which JSON key it is bound to
DecorScope == c.decor # "none" => (c.layout = "two" /\ c.spelling = "merged" /\ c.enum_rule = "none" /\ c.enum_fields_rule = "none")
LayoutScope == c.layout # "two" => (c.spelling = "merged" /\ c.enum_rule = "none" /\ c.enum_fields_rule = "none")
\* sibling: a SECOND struct variant (Dec { dec_word }) of the same enum, declared before or after the variant under test. serde resolves
\* the rule of each variant on its own (the variant's rename_all, else the enum's rename_all_fields): a rule written on one variant
\* reaches neither the variants declared after it nor those before it. ruled_*: the sibling carries a rule of its own (another one
\* than the variant under test); plain_after: it carries none and follows a variant that does
SiblingRule == IF c.sibling = "plain_after" THEN "none" ELSE IF c.rule = "SCREAMING_SNAKE_CASE" THEN "camelCase" ELSE "SCREAMING_SNAKE_CASE"
SiblingContainer == [kind |-> "variant", rename_all |-> SiblingRule, variant_rename_all |-> SiblingRule, enum_rename_all_fields |-> c.enum_fields_rule]
SiblingKey == Str(FieldWire(<<"d","e","c","_","w","o","r","d">>, None, RuleForField(SiblingContainer)))
SiblingScope == c.sibling # "none" => (c.kind = "variant" /\ c.layout = "two" /\ c.spelling = "merged" /\ c.enum_rule = "none" /\ c.decor = "none" /\ c.rename = "none")
Emit == ((c.kind = "struct" => c.enum_rule = "none") /\ FieldsRuleScope /\ LayoutScope /\ DecorScope /\ SiblingScope /\ ~DeferredToC16) =>
    PrintT(<<"REPLAY", ToJson([case |-> c, configs |-> Configs, members |-> LayoutOf(c.layout),
        keys |-> [k \in 1..Len(LayoutOf(c.layout)) |-> KeyOfMember(LayoutOf(c.layout)[k])],
        sibling_rule |-> SiblingRule, sibling_key |-> SiblingKey])>>)
=============================================================================
