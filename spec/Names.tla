-------------------------------- MODULE Names --------------------------------
(* Layer P for C09: the name a typeshared type is defined under, and therefore the name every    *)
(* reference to it must use.  item = [ident, rename] (rename = "" when absent).                    *)
EXTENDS Naturals, Sequences, FiniteSets

DefName(item, prefix) == prefix \o (IF item.rename # "" THEN item.rename ELSE item.ident)

\* one reference site conforms: it is spelled with the target's definition name, and that name is defined
\* (exactly once) in the same run
RefOk(target, prefix, refName, defNames) ==
    /\ refName = DefName(target, prefix)
    /\ Cardinality({i \in 1..Len(defNames) : defNames[i] = DefName(target, prefix)}) = 1
\* generic parameters are never prefixed or renamed
ParamOk(param, refName) == refName = param
\* a helper type derived from a struct variant must be defined under the name it is used by
HelperOk(refName, defNames) == \E i \in 1..Len(defNames) : defNames[i] = refName
=============================================================================
