CONSTANTS Radius = 4096
INIT Init
NEXT Next
INVARIANTS Emit Sane
CHECK_DEADLOCK FALSE
