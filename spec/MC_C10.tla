------------------------------- MODULE MC_C10 -------------------------------
(* Builder for C10: the choice points of the hand-written printers. One subject item per case:       *)
(*   kind x number of members (0..3: empty bodies, a single element, first / middle / last element)    *)
(*   x naming of the members (plain, target keywords, dashed keys, rename_all, leading digit, ...)      *)
(*   x type feature of the first member x decoration of the item x doc comments x configuration.        *)
(* Scope(lang) says for which languages the property promises a well-formed file for this case.        *)
EXTENDS Naturals, Sequences, FiniteSets, TLC, Json
CONSTANTS Mode
VARIABLE c

Kinds == {"struct", "generic_struct", "unit_struct", "newtype_struct", "tuple_struct_generic", "alias", "generic_alias",
          "unit_enum", "enum_newtype", "enum_struct", "enum_mixed", "generic_enum", "enum_tag_dashed", "enum_tag_kw", "const"}
\* kw_dashed / kebab_kw: keyword members next to dashed members in the same item (a dashed key switches Swift and Kotlin to a
\* different printing path - CodingKeys / @SerialName - for all the members of the item)
Namings == {"plain", "kw_swift", "kw_py", "kw_both", "kw_type", "kw_dashed", "kebab_kw", "dashed", "rename_all_kebab", "rename_all_upper", "digit", "quote", "single_letter"}
TypeFeatures == {"prim", "option", "vec_option", "map", "user", "generic", "override_lang", "serialized_as", "unit", "array", "nested", "boxed_self", "i64", "default_attr"}
Decos == {"none", "swift_deco", "swift_decos2", "kotlin_deco", "redacted", "constraints", "item_serialized_as", "readonly"}
Docs == {"none", "all", "multiline"}
Cfgs == {"default", "prefix", "packages", "swift_defaults", "header"}

HasMembers(k) == k \in {"struct", "generic_struct", "unit_enum", "enum_newtype", "enum_struct", "enum_mixed", "generic_enum", "enum_tag_dashed", "enum_tag_kw"}
IsEnum(k) == k \in {"unit_enum", "enum_newtype", "enum_struct", "enum_mixed", "generic_enum", "enum_tag_dashed", "enum_tag_kw"}
IsGeneric(k) == k \in {"generic_struct", "tuple_struct_generic", "generic_alias", "generic_enum"}
HasTypes(k) == k # "unit_enum" /\ k # "unit_struct" /\ k # "const"

N2(r) == r.n = 2 \/ (~HasMembers(r.kind) /\ r.n = 0)
Full == [kind : Kinds, n : 0..3, naming : Namings, tyf : TypeFeatures, deco : Decos, doc : Docs, cfg : Cfgs]
Base == [kind |-> "struct", n |-> 2, naming |-> "plain", tyf |-> "prim", deco |-> "none", doc |-> "none", cfg |-> "default"]
\* quick: every pair (kind, x) for each other dimension x, with the remaining dimensions at their base value,
\* plus all (naming, tyf) and (deco, cfg) pairs on the two richest kinds
Quick == { r \in Full :
             \/ /\ r.naming = "plain" /\ r.tyf = "prim" /\ r.deco = "none" /\ r.doc = "none" /\ r.cfg = "default"
             \/ /\ N2(r) /\ r.tyf = "prim" /\ r.deco = "none" /\ r.doc = "none" /\ r.cfg = "default"
             \/ /\ N2(r) /\ r.naming = "plain" /\ r.deco = "none" /\ r.doc = "none" /\ r.cfg = "default"
             \/ /\ N2(r) /\ r.naming = "plain" /\ r.tyf = "prim" /\ r.doc = "none" /\ r.cfg = "default"
             \/ /\ N2(r) /\ r.naming = "plain" /\ r.tyf = "prim" /\ r.deco = "none"
             \/ /\ r.kind \in {"struct", "enum_mixed"} /\ r.n \in {1, 3} /\ r.deco = "none" /\ r.doc = "none" /\ r.cfg = "default"
             \/ /\ r.kind \in {"generic_struct", "generic_enum"} /\ N2(r) /\ r.naming = "plain" /\ r.tyf = "generic" /\ r.doc = "none" }
\* thorough: all triples that matter for separators: (kind, n, naming, tyf) fully, and (kind, deco, doc, cfg) fully
Thorough == { r \in Full :
             \/ r.deco = "none" /\ r.doc = "none" /\ r.cfg = "default"
             \/ N2(r) /\ r.naming = "plain" /\ r.tyf \in {"prim", "generic"}
             \/ r.n \in {0, 1} /\ r.naming \in {"plain", "dashed"} /\ r.tyf = "prim" /\ r.cfg = "default" }
Space == IF Mode = "quick" THEN Quick ELSE Thorough

InScope(r) ==
    /\ (~HasMembers(r.kind) => (r.n = 0 /\ r.naming \in {"plain", "kw_type"}))
    /\ (~HasTypes(r.kind) => r.tyf = "prim")
    /\ (r.tyf = "generic" => IsGeneric(r.kind))
    /\ (r.naming \in {"digit", "quote"} => IsEnum(r.kind))          \* promised for variant names only (`_` prefix, escaped literal)
    /\ (r.deco = "constraints" => IsGeneric(r.kind))
    /\ (r.deco = "readonly" => r.kind \in {"struct", "generic_struct", "enum_struct", "enum_mixed"})
    /\ (r.kind = "const" => (r.deco = "none"))
    /\ (r.tyf \in {"default_attr", "override_lang"} => r.kind \in {"struct", "generic_struct", "enum_struct", "enum_mixed"})
    /\ (r.tyf = "serialized_as" => r.kind \in {"struct", "generic_struct", "enum_struct", "enum_mixed", "enum_newtype"})
    /\ (r.tyf = "boxed_self" => r.kind \in {"struct", "enum_newtype", "enum_struct", "enum_mixed"})
    /\ (r.deco = "item_serialized_as" => r.kind \in {"struct", "unit_enum", "enum_mixed", "newtype_struct"})

Init == c \in { r \in Space : InScope(r) }
Next == UNCHANGED c

AllLangs == {"typescript", "kotlin", "swift", "scala", "go", "python"}
\* keywords are promised to be escaped by Swift (names of types, fields, variants) and Python (field names)
Scope == CASE c.naming \in {"kw_swift", "kw_py", "kw_both", "kw_dashed", "kebab_kw"} -> {"swift", "python"}
           [] c.naming = "kw_type" -> {"swift"}
           [] OTHER -> AllLangs
\* constants are supported by TypeScript, Go and Python only; the others must refuse (judged by C03/C07)
ConstLangs == {"typescript", "go", "python"}
Langs == IF c.kind = "const" THEN Scope \cap ConstLangs
         ELSE IF c.kind = "enum_tag_kw" THEN Scope \cap {"swift", "python"}
         ELSE Scope

Emit == PrintT(<<"REPLAY", ToJson([case |-> c, langs |-> Langs])>>)
=============================================================================
