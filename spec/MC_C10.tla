------------------------------- MODULE MC_C10 -------------------------------
(* Builder for C10: the choice points of the hand-written printers. One subject item per case:       *)
(*   kind x number of members (0..3: empty bodies, a single element, first / middle / last element)    *)
(*   x naming of the members (plain, target keywords, dashed keys, rename_all, leading digit, ...)      *)
(*   x type feature of the first member x decoration of the item x doc comments x configuration.        *)
(* Scope(lang) says for which languages the property promises a well-formed file for this case.        *)
EXTENDS Naturals, Sequences, FiniteSets, TLC, Json
CONSTANTS Mode
VARIABLE c

Kinds == {"struct", "generic_struct", "unit_struct", "newtype_struct", "tuple_struct_generic", "alias", "generic_alias",
          "unit_enum", "enum_newtype", "enum_struct", "enum_mixed", "generic_enum", "enum_tag_dashed", "enum_tag_kw", "const"}
\* underscore_digit: variant identifiers _2FA, _3dSecure, _1Tap (valid Rust; whatever a backend derives from them must still be an identifier)
\* kw_py_edge: field names that are not keywords as written but become one when a backend normalises them (from_, in_, _return)
\* datetime / bytes (type features): time::OffsetDateTime and Vec<u8> members: TypeScript, Go and Python give them custom
\* (de)serialisation helpers whose text names the member's KEY; Kotlin / Swift / Scala refuse OffsetDateTime (out of scope there)
\* unicode: variant wire names with a combining mark, a variation selector, a zero-width joiner, a non-ASCII letter
\* kw_dashed / kebab_kw: keyword members next to dashed members in the same item (a dashed key switches Swift and Kotlin to a
\* different printing path - CodingKeys / @SerialName - for all the members of the item)
Namings == {"plain", "kw_swift", "kw_py", "kw_both", "kw_type", "kw_dashed", "kebab_kw", "dashed", "rename_all_kebab", "rename_all_upper", "digit", "quote", "unicode", "single_letter", "kw_py_edge", "underscore_digit"}
TypeFeatures == {"prim", "option", "vec_option", "map", "user", "generic", "override_lang", "serialized_as", "unit", "array", "nested", "boxed_self", "i64", "default_attr", "datetime", "bytes"}
Decos == {"none", "swift_deco", "swift_decos2", "kotlin_deco", "redacted", "constraints", "item_serialized_as", "readonly"}
\* hostile / hostile_multi: doc text (one line / the second of three lines) with the tokens that end or open a comment or a string in
\* some target language: */ /* """ a trailing backslash. C15 judges where the text ends up; here the file must stay well formed.
\* block: ONE doc attribute that spans several lines (a /** .. */ block comment): a backend that writes a prefix per attribute instead of per
\* line leaves the later lines outside the comment
Docs == {"none", "all", "multiline", "hostile", "hostile_multi", "block"}
\* folder: folder-output mode with a second crate whose type is imported (import lines are part of the file)
\* packages_single: package names of ONE segment (com.example.app is three): Kotlin / Scala / Go
\* ts_special_mapped: TypeScript mappings for SPECIAL Rust types onto types with a custom JSON translation ("OffsetDateTime" = "Date",
\* "Vec<u8>" = "Uint8Array"): the reviver / replacer helper code is assembled from what was registered while the items were written
Cfgs == {"default", "prefix", "packages", "packages_single", "ts_special_mapped", "swift_defaults", "header", "folder", "folder_prefix"}

HasMembers(k) == k \in {"struct", "generic_struct", "unit_enum", "enum_newtype", "enum_struct", "enum_mixed", "generic_enum", "enum_tag_dashed", "enum_tag_kw"}
IsEnum(k) == k \in {"unit_enum", "enum_newtype", "enum_struct", "enum_mixed", "generic_enum", "enum_tag_dashed", "enum_tag_kw"}
IsGeneric(k) == k \in {"generic_struct", "tuple_struct_generic", "generic_alias", "generic_enum"}
HasTypes(k) == k # "unit_enum" /\ k # "unit_struct" /\ k # "const"

N2(r) == r.n = 2 \/ (~HasMembers(r.kind) /\ r.n = 0)
Full == [kind : Kinds, n : 0..3, naming : Namings, tyf : TypeFeatures, deco : Decos, doc : Docs, cfg : Cfgs]
Base == [kind |-> "struct", n |-> 2, naming |-> "plain", tyf |-> "prim", deco |-> "none", doc |-> "none", cfg |-> "default"]
\* number of dimensions (other than the item kind) in which r differs from the base case
Diff(r) == (IF N2(r) THEN 0 ELSE 1) + (IF r.naming = "plain" THEN 0 ELSE 1) + (IF r.tyf = "prim" THEN 0 ELSE 1)
           + (IF r.deco = "none" THEN 0 ELSE 1) + (IF r.doc = "none" THEN 0 ELSE 1) + (IF r.cfg = "default" THEN 0 ELSE 1)
\* quick: every item kind x every PAIR of non-base values (all-pairs over the six dimensions, the rest at base);
\* thorough: every triple, plus the full naming x type-feature x member-count product
Quick == { r \in Full : Diff(r) <= 2 }
Thorough == { r \in Full : Diff(r) <= 3 \/ (r.deco = "none" /\ r.doc = "none" /\ r.cfg = "default") }
Space == IF Mode = "quick" THEN Quick ELSE Thorough

InScope(r) ==
    /\ (~HasMembers(r.kind) => (r.n = 0 /\ r.naming \in {"plain", "kw_type"}))
    /\ (~HasTypes(r.kind) => r.tyf = "prim")
    /\ (r.tyf = "generic" => IsGeneric(r.kind))
    /\ (r.naming \in {"digit", "quote", "unicode", "underscore_digit"} => IsEnum(r.kind))          \* promised for variant names only (`_` prefix, escaped literal)
    /\ (r.deco = "constraints" => IsGeneric(r.kind))
    /\ (r.deco = "readonly" => r.kind \in {"struct", "generic_struct", "enum_struct", "enum_mixed"})
    /\ (r.kind = "const" => (r.deco = "none"))
    /\ (r.tyf \in {"default_attr", "override_lang"} => r.kind \in {"struct", "generic_struct", "enum_struct", "enum_mixed"})
    /\ (r.tyf \in {"datetime", "bytes"} => r.kind \in {"struct", "enum_struct", "enum_mixed", "enum_newtype", "alias"})
    /\ (r.tyf = "serialized_as" => r.kind \in {"struct", "generic_struct", "enum_struct", "enum_mixed", "enum_newtype"})
    /\ (r.tyf = "boxed_self" => r.kind \in {"struct", "enum_newtype", "enum_struct", "enum_mixed"})
    /\ (r.deco = "item_serialized_as" => r.kind \in {"struct", "unit_enum", "enum_mixed", "newtype_struct"})

Init == c \in { r \in Space : InScope(r) }
Next == UNCHANGED c

AllLangs == {"typescript", "kotlin", "swift", "scala", "go", "python"}
\* keywords are promised to be escaped by Swift (names of types, fields, variants) and Python (field names)
Scope == CASE c.naming \in {"kw_swift", "kw_py", "kw_both", "kw_dashed", "kebab_kw"} -> {"swift", "python"}
           [] c.naming = "kw_py_edge" -> AllLangs
           [] c.naming = "kw_type" -> {"swift"}
           [] OTHER -> AllLangs
\* constants are supported by TypeScript, Go and Python only; the others must refuse (judged by C03/C07)
ConstLangs == {"typescript", "go", "python"}
FolderLangs == AllLangs \ {"go"}                 \* Go has no folder mode
Langs0 == IF c.cfg \in {"folder", "folder_prefix"} THEN Scope \cap FolderLangs ELSE Scope
Langs == IF c.tyf = "datetime" THEN Langs0 \cap {"typescript", "go", "python"}
         ELSE IF c.kind = "const" THEN Langs0 \cap ConstLangs
         ELSE IF c.kind = "enum_tag_kw" THEN Langs0 \cap {"swift", "python"}
         ELSE Langs0

Emit == PrintT(<<"REPLAY", ToJson([case |-> c, langs |-> Langs])>>)
=============================================================================
