------------------------------ MODULE Pipeline ------------------------------
(* One run of the typeshare CLI as a state machine (cli/src/parse.rs parallel_parse +            *)
(* ignore 0.4.23 WalkParallel + cli/src/main.rs generate_types), one action per critical section. *)
(*                                                                                                *)
(*   workers   ignore's Worker::run / get_work: shared work pool (over-approximates stealing),     *)
(*             quit_now flag, active_workers counter, Quit messages                                *)
(*   visitor   the closure in parallel_parse: parse, then tx.send(..).unwrap()                     *)
(*   channel   crossbeam bounded(Cap)                                                              *)
(*   collector `for result in rx { let d = result?; acc += d }`  (first Err: return, rx dropped)   *)
(*   main      thread::scope + join().unwrap(); drop(tx); collector.join(); reconcile; check       *)
(*             errors; generate + write; exit                                                      *)
(*                                                                                                *)
(* Layer P is the bottom part (ExitOk, Terminates, NoPanicExit, Deterministic): what the           *)
(* properties C06/C07 demand of ANY implementation. The actions are layer M: what the code does.   *)
EXTENDS Naturals, Sequences, FiniteSets, TLC, SequencesExt
DP == INSTANCE DataPath

CONSTANTS Files,        \* source files in the tree
          Workers,      \* walker threads
          Cap,          \* channel capacity (100 in the code)
          ResultKinds,  \* subset of {"none","ok","bad","err","panic"} explored for every file
          Items,        \* Items[f] = sequence of [name, kind] the file contributes when parsed
          OutOf,        \* OutOf[f] = the output file the items of f go to (one for all in single-file mode, one per crate in folder mode)
          SingleFile,   \* TRUE: -o (exactly one output, its absence is an error); FALSE: -d
          GenKinds,     \* subset of {"ok","generr"}: whether generating an output can be refused by the backend (consts in Kotlin, ...)
          Visits,       \* Visits[f] >= 1: how often the walk delivers f (2: overlapping directory arguments, a directory given twice)
          Dedupe        \* what is done about repeated deliveries: "none" (the code: every delivery is parsed and folded),
                        \* "global" (one shared seen-set) or "per_worker" (one seen-set per walker thread - a tempting mistake,
                        \* kept as a switch so that TLC can show what it violates)

\* result of parsing a file:
\*   none  no #[typeshare] in it (Ok(None))            ok   ParsedData without errors
\*   bad   ParsedData carrying per-item parse errors    err  Err(..) (unreadable / not Rust)
\*   panic the parser panics inside the worker
VARIABLES result,                 \* chosen once in Init: [Files -> ResultKinds]
          pool, quitMsgs,         \* deliveries not yet taken (pool[f] = how many of f are left); Quit messages lying in the deques
          seenG, seenW,           \* files already parsed: globally / per worker (used by the Dedupe variants only)
          wpc, wfile,             \* per worker program counter / file in hand
          active, quitNow,        \* ignore's shared atomics
          chan, rxOpen,           \* bounded channel; FALSE once the receiver is dropped
          col, acc,               \* collector state; files folded so far, in arrival order
          txMain,                 \* main still holds its Sender
          main,                   \* main thread / process outcome
          genres, todo, wrote     \* generation stage: backend verdict per output (chosen in Init); outputs still to generate, in
                                  \* name order; outputs handed to the writer so far (written or found unchanged)

vars == <<result, pool, quitMsgs, seenG, seenW, wpc, wfile, active, quitNow, chan, rxOpen, col, acc, txMain, main, genres, todo, wrote>>
Left == {f \in Files : pool[f] > 0}
gvars == <<genres, todo, wrote>>
Outs == {OutOf[f] : f \in Files}
RECURSIVE SeqOfSet(_)
SeqOfSet(S) == IF S = {} THEN <<>> ELSE LET x == CHOOSE y \in S : TRUE IN <<x>> \o SeqOfSet(S \ {x})
\* a total order on output names (TLC compares strings only for equality): position in a fixed enumeration
OutSeq == SeqOfSet(Outs)
Before(a, b) == (CHOOSE i \in 1..Len(OutSeq) : OutSeq[i] = a) < (CHOOSE i \in 1..Len(OutSeq) : OutSeq[i] = b)

NoFile == "-"
Finished(w) == wpc[w] \in {"exited", "dead"}
Exits == {"exit0", "exit1", "exit101"}

Init ==
    /\ result \in [Files -> ResultKinds]
    /\ pool = Visits /\ quitMsgs = 0
    /\ seenG = {} /\ seenW = [w \in Workers |-> {}]
    /\ wpc = [w \in Workers |-> "get"] /\ wfile = [w \in Workers |-> NoFile]
    /\ active = Cardinality(Workers) /\ quitNow = FALSE
    /\ chan = <<>> /\ rxOpen = TRUE
    /\ col = "run" /\ acc = <<>>
    /\ txMain = TRUE
    /\ main = "walking"
    /\ genres \in [Outs -> GenKinds] /\ todo = <<>> /\ wrote = {}

\* ----------------------------------------------------------------- workers
\* Worker::get_work, one pass through its loop
GetWork(w) ==
    /\ wpc[w] = "get"
    /\ IF quitNow \/ (Left = {} /\ quitMsgs > 0)
       THEN \* Message::Quit: repeat it for the others and leave
            /\ quitMsgs' = IF quitNow /\ quitMsgs = 0 THEN 1 ELSE quitMsgs
            /\ wpc' = [wpc EXCEPT ![w] = "exited"]
            /\ UNCHANGED <<pool, wfile, active>>
       ELSE IF Left # {}
       THEN \E f \in Left :
            /\ pool' = [pool EXCEPT ![f] = @ - 1]
            /\ wfile' = [wfile EXCEPT ![w] = f]
            /\ wpc' = [wpc EXCEPT ![w] = "parse"]
            /\ UNCHANGED <<quitMsgs, seenG, seenW, active>>
       ELSE \* nothing to do: deactivate; the last one to do so tells everybody to quit
            /\ active' = active - 1
            /\ IF active' = 0
               THEN quitMsgs' = quitMsgs + 1 /\ wpc' = [wpc EXCEPT ![w] = "exited"]
               ELSE quitMsgs' = quitMsgs /\ wpc' = [wpc EXCEPT ![w] = "idle"]
            /\ UNCHANGED <<pool, wfile>>
    /\ UNCHANGED <<result, seenG, seenW, quitNow, chan, rxOpen, col, acc, txMain, main, genres, todo, wrote>>

\* the sleep loop: a message became available
IdleWake(w) ==
    /\ wpc[w] = "idle"
    /\ Left # {} \/ quitMsgs > 0
    /\ active' = active + 1
    /\ wpc' = [wpc EXCEPT ![w] = "get"]
    /\ UNCHANGED <<result, pool, quitMsgs, seenG, seenW, wfile, quitNow, chan, rxOpen, col, acc, txMain, main, genres, todo, wrote>>

\* the visitor closure up to the send
\* a repeated delivery that the Dedupe variant recognises is dropped like a file without annotations
Repeated(w) == \/ Dedupe = "global" /\ wfile[w] \in seenG
               \/ Dedupe = "per_worker" /\ wfile[w] \in seenW[w]
Parse(w) ==
    /\ wpc[w] = "parse"
    /\ LET r == IF Repeated(w) THEN "none" ELSE result[wfile[w]] IN
       /\ wpc' = [wpc EXCEPT ![w] = CASE r = "panic" -> "dead"      \* unwinds; active_workers is NOT decremented
                                      [] r = "none" -> "get"
                                      [] OTHER -> "send"]
       /\ wfile' = [wfile EXCEPT ![w] = IF r \in {"panic", "none"} THEN NoFile ELSE wfile[w]]
    /\ seenG' = IF Dedupe = "global" THEN seenG \cup {wfile[w]} ELSE seenG
    /\ seenW' = IF Dedupe = "per_worker" THEN [seenW EXCEPT ![w] = @ \cup {wfile[w]}] ELSE seenW
    /\ UNCHANGED <<result, pool, quitMsgs, active, quitNow, chan, rxOpen, col, acc, txMain, main, genres, todo, wrote>>

\* tx.send(..): blocks while the channel is full; Err(SendError) once the receiver is gone, in which
\* case the visitor returns WalkState::Quit (before fix e0dfe05 it unwrapped and the worker died).
\* The enqueue is the linearisation point; the call returns in a second step (SendRet), so that a
\* trace may show  SendStart(f) . Recv(f) . SendEnd(f).
Send(w) ==
    /\ wpc[w] = "send"
    /\ IF ~rxOpen
       THEN /\ wpc' = [wpc EXCEPT ![w] = "quit"]                 \* nobody is listening any more: stop walking
            /\ wfile' = [wfile EXCEPT ![w] = NoFile]
            /\ chan' = chan
       ELSE /\ Len(chan) < Cap
            /\ chan' = Append(chan, wfile[w])
            /\ wpc' = [wpc EXCEPT ![w] = "sent"]
            /\ wfile' = wfile
    /\ UNCHANGED <<result, pool, quitMsgs, seenG, seenW, active, quitNow, rxOpen, col, acc, txMain, main, genres, todo, wrote>>

SendRet(w) ==
    /\ wpc[w] = "sent"
    /\ wpc' = [wpc EXCEPT ![w] = IF result[wfile[w]] = "err" THEN "quit" ELSE "get"]
    /\ wfile' = [wfile EXCEPT ![w] = NoFile]
    /\ UNCHANGED <<result, pool, quitMsgs, seenG, seenW, active, quitNow, chan, rxOpen, col, acc, txMain, main, genres, todo, wrote>>

\* WalkState::Quit -> Worker::quit_now()
Quit(w) ==
    /\ wpc[w] = "quit"
    /\ quitNow' = TRUE
    /\ wpc' = [wpc EXCEPT ![w] = "get"]
    /\ UNCHANGED <<result, pool, quitMsgs, seenG, seenW, wfile, active, chan, rxOpen, col, acc, txMain, main, genres, todo, wrote>>

\* ----------------------------------------------------------------- collector
Recv ==
    /\ col = "run" /\ chan # <<>>
    /\ IF result[Head(chan)] = "err"
       THEN col' = "retErr" /\ rxOpen' = FALSE /\ chan' = <<>> /\ acc' = acc     \* `result?`
       ELSE col' = col /\ rxOpen' = rxOpen /\ chan' = Tail(chan) /\ acc' = Append(acc, Head(chan))
    /\ UNCHANGED <<result, pool, quitMsgs, seenG, seenW, wpc, wfile, active, quitNow, txMain, main, genres, todo, wrote>>

\* the iterator ends when the channel is empty and every Sender is gone
ColEnd ==
    /\ col = "run" /\ chan = <<>>
    /\ ~txMain /\ \A w \in Workers : Finished(w)
    /\ col' = "retOk" /\ rxOpen' = FALSE
    /\ UNCHANGED <<result, pool, quitMsgs, seenG, seenW, wpc, wfile, active, quitNow, chan, acc, txMain, main, genres, todo, wrote>>

\* ----------------------------------------------------------------- main
\* thread::scope returns once every worker thread has finished; a dead worker makes join().unwrap() panic
ScopeEnd ==
    /\ main = "walking"
    /\ \A w \in Workers : Finished(w)
    /\ IF \E w \in Workers : wpc[w] = "dead"
       THEN main' = "exit101" /\ txMain' = txMain
       ELSE main' = "joincol" /\ txMain' = FALSE                 \* drop(tx)
    /\ UNCHANGED <<result, pool, quitMsgs, seenG, seenW, wpc, wfile, active, quitNow, chan, rxOpen, col, acc, genres, todo, wrote>>

HasErrors == \E i \in 1..Len(acc) : result[acc[i]] = "bad"

\* collector_thread.join(); reconcile; check_parse_errors: ALL errors are known before the first output is generated
JoinCol ==
    /\ main = "joincol"
    /\ col \in {"retErr", "retOk"}
    /\ IF col = "retErr" \/ HasErrors
       THEN main' = "exit1" /\ todo' = todo
       ELSE main' = "generate" /\ todo' = SortSeq(SetToSeq({OutOf[acc[i]] : i \in 1..Len(acc)}), LAMBDA a, b : Before(a, b))
    /\ UNCHANGED <<result, pool, quitMsgs, seenG, seenW, wpc, wfile, active, quitNow, chan, rxOpen, col, acc, txMain, genres, wrote>>

\* write_generated, one output after the other (crate name order): lang.generate_types, then check_write_file
\* (Writer.tla says what the writer does with the bytes). A refusal by the backend ends the run: outputs generated
\* before it stay written.
GenWrite ==
    /\ main = "generate" /\ todo # <<>>
    /\ IF genres[Head(todo)] = "generr"
       THEN main' = "exit1" /\ UNCHANGED <<todo, wrote>>
       ELSE main' = main /\ todo' = Tail(todo) /\ wrote' = wrote \cup {Head(todo)}
    /\ UNCHANGED <<result, pool, quitMsgs, seenG, seenW, wpc, wfile, active, quitNow, chan, rxOpen, col, acc, txMain, genres>>

\* nothing left to generate. -o with no annotated item anywhere: "Could not get parsed data for single file output"
GenDone ==
    /\ main = "generate" /\ todo = <<>>
    /\ main' = IF SingleFile /\ wrote = {} THEN "exit1" ELSE "exit0"
    /\ UNCHANGED <<result, pool, quitMsgs, seenG, seenW, wpc, wfile, active, quitNow, chan, rxOpen, col, acc, txMain, genres, todo, wrote>>

Done == main \in Exits /\ UNCHANGED vars

Next == \/ \E w \in Workers : GetWork(w) \/ IdleWake(w) \/ Parse(w) \/ Send(w) \/ SendRet(w) \/ Quit(w)
        \/ Recv \/ ColEnd \/ ScopeEnd \/ JoinCol \/ GenWrite \/ GenDone \/ Done

Fairness == /\ \A w \in Workers : WF_vars(GetWork(w)) /\ WF_vars(IdleWake(w)) /\ WF_vars(Parse(w))
                                   /\ WF_vars(Send(w)) /\ WF_vars(SendRet(w)) /\ WF_vars(Quit(w))
            /\ WF_vars(Recv) /\ WF_vars(ColEnd) /\ WF_vars(ScopeEnd) /\ WF_vars(JoinCol) /\ WF_vars(GenWrite) /\ WF_vars(GenDone)
Spec == Init /\ [][Next]_vars /\ Fairness

\* ----------------------------------------------------------------- data path (C06)
\* What the generation stage makes of the accumulator: per kind, concatenation in arrival order;
\* reconcile sorts structs, enums and aliases by name with a STABLE sort, consts keep arrival order;
\* generate_types chains aliases, structs, enums, consts (topsort is stable where there are no references).
Output(arrival) == DP!OutputOf(Items, arrival)

\* ----------------------------------------------------------------- layer P
OkFiles == {f \in Files : result[f] \in {"ok", "bad"}}
\* C07: the run ends, and it ends with output or a diagnostic, never with a panic
Terminates == <>(main \in Exits)
NoPanicExit == main # "exit101"
\* how often an accepted file is in the accumulator: once per delivery when nothing is de-duplicated; a de-duplicating variant
\* may fold it once - but then ONCE, whatever the schedule (C06: the bytes are a function of the inputs)
Copies(f) == Cardinality({i \in 1..Len(acc) : acc[i] = f})
Allowed(f) == IF Dedupe = "none" THEN {Visits[f]} ELSE {1}
NothingToGenerate == SingleFile /\ \A f \in Files : result[f] = "none"
Refused == \E o \in Outs : genres[o] = "generr"
ExitOk ==
    /\ main = "exit0" => /\ \A f \in Files : result[f] \in {"ok", "none"}
                         /\ {acc[i] : i \in 1..Len(acc)} = OkFiles
                         /\ \A f \in OkFiles : Copies(f) \in Allowed(f)
                         /\ wrote = {OutOf[f] : f \in OkFiles}                \* "exits 0 after writing the requested output": all of it
    /\ main = "exit1" => (\E f \in Files : result[f] \in {"bad", "err"}) \/ Refused \/ NothingToGenerate
\* a clean tree must not fail
CleanSucceeds == (main \in Exits /\ (\A f \in Files : result[f] \in {"ok", "none"}) /\ ~Refused /\ ~NothingToGenerate) => main = "exit0"
\* C08 / C17: when some file is rejected (parse errors, unreadable), NO output is generated or handed to the writer - at no point of the run
NoWriteWithErrors == (wrote # {}) => (col = "retOk" /\ ~HasErrors)
\* C14: every output is handed to the writer at most once, and only outputs that some accepted file contributes to
WroteOk == wrote \subseteq {OutOf[acc[i]] : i \in 1..Len(acc)}

\* C06: the bytes are a function of the source tree, not of the schedule. Canonical = any fixed arrival order.
RECURSIVE Repeat(_, _)
Repeat(x, n) == IF n = 0 THEN <<>> ELSE <<x>> \o Repeat(x, n - 1)
RECURSIVE Canonical(_)
Canonical(S) == IF S = {} THEN <<>> ELSE LET x == CHOOSE y \in S : TRUE IN
                    Repeat(x, IF Dedupe = "none" THEN Visits[x] ELSE 1) \o Canonical(S \ {x})
Deterministic == main = "exit0" => Output(acc) = Output(Canonical(OkFiles))

\* reachability query (expected to be VIOLATED): TLC's counter-example is a schedule in which a result
\* is sent after the collector has gone; it is replayed on the real binary through the gates
NoLateSend == ~(\E w \in Workers : wpc[w] = "send" /\ ~rxOpen)

TypeOk == /\ active \in 0..Cardinality(Workers) /\ Len(chan) <= Cap /\ wrote \subseteq Outs /\ \A f \in Files : pool[f] \in 0..Visits[f]
          /\ wpc \in [Workers -> {"get", "parse", "send", "sent", "quit", "idle", "exited", "dead"}]
=============================================================================
