CONSTANTS
  Files = {"f1", "f2", "f3"}
  Workers = {"w1", "w2"}
  Cap = 1
  ResultKinds = {"ok", "err"}
  OutOf <- OutSingle
  SingleFile = TRUE
  GenKinds = {"ok"}
  Visits <- VisitsOnce
  Dedupe = "none"
  Items <- ItemsDistinct
SPECIFICATION Spec
INVARIANTS TypeOk ExitOk NoWriteWithErrors WroteOk NoPanicExit
PROPERTY Terminates
CHECK_DEADLOCK FALSE
