CONSTANTS
  Shapes = {"T", "Option", "OptionOption", "BoxOption", "OptionBox", "VecOption"}
  Ts = {"u32", "String", "VecU8", "User", "T", "unit", "DateTime", "Ovr", "Sas"}
  Defaults = {"absent", "bare", "merged_rename", "separate", "path"}
INIT Init
NEXT Next
INVARIANT Emit
CHECK_DEADLOCK FALSE
