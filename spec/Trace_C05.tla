------------------------------ MODULE Trace_C05 ------------------------------
(* Impl -> spec: each event is one type position of a real generated definition in one language:  *)
(* the Rust type expression, the position (field / vfield / payload / alias / const), whether the  *)
(* member carries the bare serde(default), the optional marker observed and the observed target     *)
(* type tree (top-level optional wrapper already removed for members). TypeExpr judges structure,   *)
(* primitives and mappings (C05); the optional marker itself is judged by Trace_C04.                *)
EXTENDS TypeExpr, TLC, Json, IOUtils
Rec == ndJsonDeserialize(IOEnv.TRACE)
VARIABLES i, bad
\* e.vecu8: the name a container-instance mapping "Vec<u8>" = Name configures for this run ("" when there is none)
A0(e) == AbsC(e.rust, e.vecu8)
Cfg(e) == [prefix |-> e.prefix, mapping |-> e.mapping, aliases |-> e.aliases, renames |-> e.renames, prims |-> TRUE]
\* e.noptr: the run was configured with Go's no_pointer_slice = true (TypeExpr!SliceOpt)
FL(e, a) == ForLangO(e.lang, e.noptr, a)
\* ... for the observed type (TypeExpr!ForLangObs)
FLO(e, a) == ForLangObs(e.lang, e.noptr, e.vecu8, a)
\* members: compare what is under the optional marker. A double option collapses to one option outside
\* TypeScript, whether the backend prints it as marker + nullable type (T??) or as a single marker.
MemberOk(e) == LET A == FL(e, A0(e))
                   U == Unopt(A)
                   O == FLO(e, e.ty)
                   OU == IF e.lang # "typescript" /\ A.k = "opt" /\ O.k = "opt" THEN O.e ELSE O
               IN Conf(e.lang, Cfg(e), U, OU)
TypeOk(e) == IF e.pos \in {"alias", "const"}
             THEN Conf(e.lang, Cfg(e), FL(e, A0(e)), FLO(e, e.ty))
             ELSE MemberOk(e)
\* where the target type states a LENGTH (a TypeScript tuple [T, T, T]), it is the length of an array of the Rust expression
\* (e.fixed_lens: the lengths the observed type states; e.rust_lens: the lengths of the arrays of the Rust type)
LengthsOk(e) == ("fixed_lens" \in DOMAIN e) =>
    \A k \in 1..Len(e.fixed_lens) : \E j \in 1..Len(e.rust_lens) : e.fixed_lens[k] = e.rust_lens[j]
\* a DECLARATION event (e.declared): the parameter list the generated declaration of an item states is the item's Rust parameter list,
\* in order - whether or not the body mentions every parameter ("generic parameters are preserved in order")
DeclOk(e) == e.declared = e.params
EventOk(e) == IF "declared" \in DOMAIN e THEN DeclOk(e) ELSE TypeOk(e) /\ LengthsOk(e)
Init == i = 1 /\ bad = <<>>
Next == /\ i <= Len(Rec)
        /\ bad' = IF EventOk(Rec[i]) THEN bad ELSE Append(bad, i)
        /\ i' = i + 1
Report == (i = Len(Rec) + 1) => PrintT(<<"INFO", "bad", ToJson(bad)>>)
Accepted == PrintT(<<"INFO", "matched", TLCGet("stats").diameter - 1>>)
=============================================================================
