------------------------------- MODULE Topsort -------------------------------
(* Layer P for C11. Items are 1..n; a reference graph G is a function node -> set of nodes it     *)
(* refers to (through ANY carrier and container - P does not look at how the reference is        *)
(* written). `order` is the sequence of items as emitted.                                         *)
EXTENDS Naturals, Sequences, FiniteSets

Range(s) == {s[i] : i \in 1..Len(s)}
IsPerm(order, n) == Len(order) = n /\ Range(order) = 1..n
Pos(order, x) == CHOOSE i \in 1..Len(order) : order[i] = x

\* reachability through proper paths
RECURSIVE ReachN(_, _, _)
ReachN(G, S, k) == IF k = 0 THEN S ELSE ReachN(G, S \cup UNION {G[x] : x \in S}, k - 1)
Reach(G, x) == ReachN(G, G[x], Cardinality(DOMAIN G))
Acyclic(G) == \A x \in DOMAIN G : x \notin Reach(G, x)

RespectsDeps(order, G) == \A x \in DOMAIN G : \A y \in G[x] : x # y => Pos(order, y) < Pos(order, x)

\* the property: always a permutation; a linear extension when the graph is acyclic
OrderOk(order, G) ==
    /\ IsPerm(order, Cardinality(DOMAIN G))
    /\ Acyclic(G) => RespectsDeps(order, G)

\* the same on a generated file: count[x] = how many times item x is defined, main[x] = line of its
\* definition, start[x] = first line of anything that belongs to x (helper structs of struct variants)
IntervalOk(count, start, main, G) ==
    /\ \A x \in DOMAIN G : count[x] = 1
    /\ Acyclic(G) => \A x \in DOMAIN G : \A y \in G[x] : x # y => main[y] < start[x]
=============================================================================
