------------------------------ MODULE Trace_C20 ------------------------------
(* Impl -> spec: events are real runs of the binary: a generation run (options, file, language,  *)
(* what the generated code shows), a -g run (options, the TOML it wrote) and the reload of that  *)
(* TOML. Config.tla judges each.                                                                   *)
EXTENDS Config, TLC, Json, IOUtils, Naturals
Rec == ndJsonDeserialize(IOEnv.TRACE)
VARIABLES i, bad
Ok(e) == CASE e.ev = "run" -> RunConforms(e.cli, e.file, e.lang, e.obs) /\ e.tobs = e.texp     \* file-only tables applied unchanged
           [] e.ev = "gen" -> GenConfigConforms(e.cli, e.written) /\ RoundTrips(e.cli, e.written)
           [] e.ev = "reload" -> RunConforms(NoFile, e.written, e.lang, e.obs) /\ RunConforms(e.cli, NoFile, e.lang, e.obs)
           [] e.ev = "nooverwrite" -> e.failed /\ e.intact
Init == i = 1 /\ bad = <<>>
Next == /\ i <= Len(Rec)
        /\ bad' = IF Ok(Rec[i]) THEN bad ELSE Append(bad, i)
        /\ i' = i + 1
Report == (i = Len(Rec) + 1) => PrintT(<<"INFO", "bad", ToJson(bad)>>)
Accepted == PrintT(<<"INFO", "matched", TLCGet("stats").diameter - 1>>)
=============================================================================
