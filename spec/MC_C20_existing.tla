--------------------------- MODULE MC_C20_existing ---------------------------
(* Builder for C20, "-g never overwrites an existing file": what lies at the path -g would write (./typeshare.toml, or the path     *)
(* given with -c) x how the path is named. Layer P (Trace_C20, event nooverwrite): the run fails and the bytes at the path are the   *)
(* bytes that were there - whatever they are: a configuration, an empty or blank placeholder, text that is not UTF-8, text that is   *)
(* not TOML, a symbolic link to a file elsewhere (the linked file stays as it is).                                                    *)
EXTENDS TLC, Json
CONSTANTS Existings, Targets
VARIABLE c
Init == c \in [existing : Existings, target : Targets]
Next == UNCHANGED c
Emit == PrintT(<<"REPLAY", ToJson(c)>>)
=============================================================================
