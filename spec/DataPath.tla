------------------------------ MODULE DataPath ------------------------------
(* Layer M for C06: what the sequential stages make of the accumulator (core/src/parser.rs     *)
(* AddAssign, core/src/reconcile.rs sorting, language/mod.rs generate_types chaining).            *)
(* items[f] = sequence of [name, kind, ...] records contributed by file f; names are integers     *)
(* (TLC cannot order strings).                                                                     *)
EXTENDS Naturals, Sequences

RECURSIVE Flatten(_, _)
Flatten(items, fs) == IF fs = <<>> THEN <<>> ELSE items[Head(fs)] \o Flatten(items, Tail(fs))

RECURSIVE InsertSorted(_, _)
InsertSorted(s, x) ==           \* stable: x goes after every element with name <= x.name
    IF s = <<>> THEN <<x>>
    ELSE IF Head(s).name <= x.name THEN <<Head(s)>> \o InsertSorted(Tail(s), x)
    ELSE <<x>> \o s
RECURSIVE StableSort(_)
StableSort(s) == IF s = <<>> THEN <<>> ELSE InsertSorted(StableSort(SubSeq(s, 1, Len(s) - 1)), s[Len(s)])

OfKind(s, k) == SelectSeq(s, LAMBDA x : x.kind = k)

\* per kind: concatenation in arrival order; structs, enums, aliases sorted by name with a STABLE sort;
\* SortConsts = FALSE is the behaviour before the fix (consts keep arrival order)
OutputWith(items, arrival, SortConsts) == LET all == Flatten(items, arrival) IN
    StableSort(OfKind(all, "alias")) \o StableSort(OfKind(all, "struct")) \o StableSort(OfKind(all, "enum"))
        \o (IF SortConsts THEN StableSort(OfKind(all, "const")) ELSE OfKind(all, "const"))
OutputOf(items, arrival) == OutputWith(items, arrival, TRUE)     \* consts are sorted since fix 1d75015
=============================================================================
