------------------------------ MODULE Trace_C15 ------------------------------
(* Impl -> spec: each event is one real generated file abstracted to lexer symbols (DOC = a byte   *)
(* that came from a doc comment). DocText!Safe runs the target language's comment lexer over it.     *)
EXTENDS DocText, TLC, Json, IOUtils
Rec == ndJsonDeserialize(IOEnv.TRACE)
VARIABLES i, bad
Init == i = 1 /\ bad = <<>>
Next == /\ i <= Len(Rec)
        /\ bad' = IF Safe(Rec[i].lang, Rec[i].stream) THEN bad ELSE Append(bad, i)
        /\ i' = i + 1
Report == (i = Len(Rec) + 1) => PrintT(<<"INFO", "bad", ToJson(bad)>>)
Accepted == PrintT(<<"INFO", "matched", TLCGet("stats").diameter - 1>>)
=============================================================================
