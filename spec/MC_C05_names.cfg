CONSTANTS
  Names = {"AccountId", "UrlInfo", "IdUrl", "HttpApi", "Identity", "Plain"}
  Positions = {"direct", "vec", "option", "map_key", "map_val", "gen_only", "gen_first", "gen_last", "nested"}
  Namings = {"none", "go_acronyms", "prefix", "serde_rename"}
INIT Init
NEXT Next
INVARIANT Emit
CHECK_DEADLOCK FALSE
