--------------------------- MODULE M_TargetOsWalk ---------------------------
(* Layer M: core/src/target_os_check.rs - TargetOsIterator is an explicit stack walk that        *)
(* carries a scope (Accept/Reject) per stacked meta item; accept_target_os partitions what it    *)
(* yields and decides. Transcribed as a recursive operator over the stack.                        *)
EXTENDS Naturals, Sequences, FiniteSets

\* stack: sequence of <<scope, expr>>; yields a set of <<scope, os>>; pop takes the LAST element (Vec::pop)
RECURSIVE Walk(_)
Walk(stack) ==
    IF stack = <<>> THEN {}
    ELSE LET top == stack[Len(stack)]
             rest == SubSeq(stack, 1, Len(stack) - 1)
             e == top[2]
             scope == IF e.k = "not" THEN "Reject" ELSE top[1]
         IN IF e.k \in {"not", "any", "all"} THEN
                Walk(rest \o [i \in 1..Len(e.cs) |-> <<scope, e.cs[i]>>])
            ELSE IF e.k = "os" THEN {<<scope, e.v>>} \cup Walk(rest)
            ELSE Walk(rest)                         \* paths and other name-values yield nothing

Yielded(attrs) == UNION {Walk(<< <<"Accept", attrs[i]>> >>) : i \in 1..Len(attrs)}
MAccept(attrs, T) ==
    IF T = {} THEN TRUE
    ELSE LET y == Yielded(attrs)
             accepted == {p[2] : p \in {q \in y : q[1] = "Accept"}}
             rejected == {p[2] : p \in {q \in y : q[1] = "Reject"}}
         IN ~(\E t \in T : t \in rejected) /\ (accepted = {} \/ \E t \in T : t \in accepted)
=============================================================================
