------------------------------- MODULE Program -------------------------------
(* Layer P for C03: which definitions, with which members, a set of source items must produce.  *)
(* Abstract item:                                                                                 *)
(*   [name, kind \in {"struct","newtype_struct","unit_struct","unit_enum","tagged_enum","alias","const"}, *)
(*    annotated \in BOOLEAN, members \in Seq([name, skipped \in BOOLEAN, payload \in {"unit","newtype","struct"}, *)
(*                                           fields \in Seq([name, skipped])])]                    *)
(* members are fields (structs) or variants (enums); struct variants have their own fields.        *)
EXTENDS Naturals, Sequences, FiniteSets

Kept(s) == SelectSeq(s, LAMBDA m : ~m.skipped)
Names(s) == [i \in 1..Len(s) |-> s[i].name]

\* the members a generated definition must list: exactly the non-skipped ones, in source order
ExpectedMembers(item) == Names(Kept(item.members))
\* per struct variant: its non-skipped fields, in source order
ExpectedVariantFields(item) ==
    LET vs == SelectSeq(Kept(item.members), LAMBDA v : v.payload = "struct")
    IN [i \in 1..Len(vs) |-> [variant |-> vs[i].name, fields |-> Names(Kept(vs[i].fields))]]

\* one definition per annotated item, nothing for the others
ExpectedDefs(items) ==
    LET a == SelectSeq(items, LAMBDA it : it.annotated)
    IN [i \in 1..Len(a) |-> [name |-> a[i].name, kind |-> a[i].kind, members |-> ExpectedMembers(a[i]),
                             variant_fields |-> ExpectedVariantFields(a[i])]]
=============================================================================
