------------------------------- MODULE MC_C05 -------------------------------
(* Exhaustive enumeration of Rust type expressions up to Depth over the given leaves and           *)
(* constructors. Every tree is one state; it prints the tree and its abstract translation Abs.       *)
(* TLC also checks structural theorems of the specification itself on every tree.                     *)
EXTENDS TypeExpr, TLC, Json, SequencesExt
CONSTANTS Depth, PrimLeaves, Wrappers, MapKeys, ExtraDepth
VARIABLE t

P(n) == [k |-> "prim", n |-> n]
\* Ren: a user type defined with serde(rename = "RenDto"); every reference must use the name it is defined under
Leaves == {P(n) : n \in PrimLeaves} \cup {[k |-> "user", n |-> "User", args |-> <<>>], [k |-> "user", n |-> "Ren", args |-> <<>>], [k |-> "param", n |-> "T"]}
KeyOf(n) == IF n = "User" THEN [k |-> "user", n |-> "User", args |-> <<>>] ELSE P(n)

RECURSIVE E(_)
E(d) == IF d = 0 THEN Leaves
        ELSE LET S == E(d - 1) IN
             S \cup {[k |-> c, e |-> x] : c \in {"vec", "array", "slice", "option", "ref", "path"}, x \in S}
               \cup {[k |-> "wrap", w |-> w, e |-> x] : w \in Wrappers, x \in S}
               \cup {[k |-> "map", key |-> KeyOf(kn), val |-> x] : kn \in MapKeys, x \in S}
               \cup {[k |-> "map3", key |-> KeyOf("String"), val |-> x] : x \in S}            \* HashMap<String, x, RandomState>
               \cup {[k |-> "user", n |-> "Gen", args |-> <<x>>] : x \in S}

Init == t \in E(Depth)
Next == UNCHANGED t

\* every tree is generated under each configuration: no mapping / a mapping of the user type / a Swift-Kotlin prefix /
\* prefix AND mapping together (the mapped name is used exactly as configured: TypeExpr!Conf never prefixes it)
\* lang_options: the file-only backend options (Go no_pointer_slice / uppercase_acronyms, Swift decorators and constraints) - they
\* re-shape members and helper text but never the translated type
\* after_sibling: the tree is generated in a program whose EARLIER items use its sibling Sib(t) - the same constructors over other
\* leaf types (and another array length): what a backend remembers from one item to the next must not reach the translation of t
\* go_noptr_mapped_container: Go with no_pointer_slice AND the container-instance mapping "Vec<u8>" = Blob (two file-only options at once)
Configs == {"base", "mapped", "prefixed", "prefixed_mapped", "mapped_container", "lang_options", "after_sibling", "go_noptr_mapped_container"}      \* mapped_container: "Vec<u8>" = Name (TypeScript, Go, Python)
\* (Sib2(t), also used by the earlier items: t itself with every array given another LENGTH - lengths are not part of the abstract
\* tree, so Sib2 is the identity here and a rendering choice of the harness)
RECURSIVE Sib(_)
Sib(x) == CASE x.k = "prim" -> [x EXCEPT !.n = IF x.n = "String" THEN "u32" ELSE "String"]
            [] x.k \in {"vec", "array", "slice", "option", "ref", "path", "wrap"} -> [x EXCEPT !.e = Sib(x.e)]
            [] x.k \in {"map", "map3"} -> [x EXCEPT !.val = Sib(x.val)]
            [] x.k = "user" /\ Len(x.args) = 1 -> [x EXCEPT !.args = <<Sib(x.args[1])>>]
            [] OTHER -> x
Emit == PrintT(<<"REPLAY", ToJson([rust |-> t, abs |-> Abs(t), configs |-> Configs, sibling |-> Sib(t)])>>)

\* theorems about the specification itself
Wrap(c, x) == [k |-> c, e |-> x]
Sane ==
    /\ Abs(Wrap("ref", t)) = Abs(t)                                            \* references disappear
    /\ \A w \in SmartPointers : Abs([k |-> "wrap", w |-> w, e |-> t]) = Abs(t)    \* all 11 smart pointers disappear
    /\ Abs(Wrap("vec", t)) = Abs(Wrap("slice", t)) /\ Abs(Wrap("vec", t)) = Abs(Wrap("array", t))
    /\ IsOpt(Wrap("option", t)) /\ IsOpt([k |-> "wrap", w |-> "Box", e |-> Wrap("option", t)])
    /\ IsOpt(t) => Unopt(Abs(t)) # Abs(t)
=============================================================================
