------------------------------ MODULE Trace_C12 ------------------------------
(* Impl -> spec: each event is one generated file: the identifiers it uses, the names it defines  *)
(* or imports (plus Swift's shared Codable.swift in multi-file mode), the generic parameters and   *)
(* helper functions it references. Helpers!Ok judges.                                               *)
EXTENDS Helpers, TLC, Json, IOUtils
Rec == ndJsonDeserialize(IOEnv.TRACE)
VARIABLES i, bad
Init == i = 1 /\ bad = <<>>
Next == /\ i <= Len(Rec)
        /\ bad' = IF Ok(Rec[i]) THEN bad ELSE Append(bad, i)
        /\ i' = i + 1
Report == (i = Len(Rec) + 1) => PrintT(<<"INFO", "bad", ToJson(bad)>>)
Accepted == PrintT(<<"INFO", "matched", TLCGet("stats").diameter - 1>>)
=============================================================================
