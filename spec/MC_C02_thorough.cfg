CONSTANTS
  Marks = {"none", "skip_serializing", "skip_deserializing"}
  Collisions = {"none", "not3", "xy3", "ab4"}
  Spellings = {"after_list", "between_lists", "merged", "split", "split_rev", "apart"}
  Idents = {"<A>nderung", "UserId", "A", "Foo", "FooBar", "Foo2Bar", "HTTPServer", "IOError", "ID", "URL", "HTTP2", "Init", "Default", "None", "Class", "In", "Self_"}
  Renames = {"empty", "none", "x", "foo-bar", "Other_Name", "init", "$ref", "$a_quote_b", "default"}
  Kinds = {"newtype_opt", "unit", "newtype", "struct"}
  RuleSet = {"none", "lowercase", "UPPERCASE", "PascalCase", "camelCase", "snake_case", "SCREAMING_SNAKE_CASE", "kebab-case", "SCREAMING-KEBAB-CASE"}
  TagPairs = {"type_content", "t_c", "kind_data", "myTag_my_content"}
  Flavours = {"plain", "recursive", "generic"}
INIT Init
NEXT Next
INVARIANT Emit
CHECK_DEADLOCK FALSE
