CONSTANTS
  Forms = {"use_unknown", "use_facade", "bare", "glob_all", "qualified_unknown", "use_first", "use_last", "qualified_last", "distinct_needs", "use_facade_plus"}
  NProviders = {2, 3}
  Renames = {"none", "one", "all"}
  Langs = {"typescript", "kotlin", "swift", "scala", "go", "python"}
  Modes = {"multi", "single"}
INIT Init
NEXT Next
INVARIANT Emit
CHECK_DEADLOCK FALSE
