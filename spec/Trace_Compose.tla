---------------------------- MODULE Trace_Compose ----------------------------
(* Impl -> spec: one event per (language, item, neighbours): the facet of the item's definitions read from the run that generated it   *)
(* alone and from the run with the neighbours. Layer P: Compose!Independent.                                                            *)
EXTENDS Compose, TLC, Json, IOUtils, Sequences, Naturals
Rec == ndJsonDeserialize(IOEnv.TRACE)
VARIABLES i, bad
Init == i = 1 /\ bad = <<>>
Next == /\ i <= Len(Rec)
        /\ bad' = IF Independent(Rec[i].alone, Rec[i].together) THEN bad ELSE Append(bad, i)
        /\ i' = i + 1
Report == (i = Len(Rec) + 1) => PrintT(<<"INFO", "bad", ToJson(bad)>>)
Accepted == PrintT(<<"INFO", "matched", TLCGet("stats").diameter - 1>>)
=============================================================================
