CONSTANTS
  Wrappers = {"vec", "option", "mapv", "mapk", "box", "array", "slice", "garg"}
  MaxChain = 3
  TypeCs = {"u64", "i64", "usize", "isize", "tuple2", "tuple1", "tuple3_nested"}
  ItemCs = {"multi_tuple_struct", "multi_tuple_variant", "multi_tuple_struct_one_kept", "multi_tuple_struct_one_kept_ts", "multi_tuple_variant_one_kept", "flatten_field", "flatten_vfield", "flatten_field_sas", "flatten_vfield_sas", "flatten_field_merged", "flatten_field_second", "untagged_data_enum", "untagged_enum_struct_variant", "untagged_enum_struct_variant_fields_skipped", "untagged_enum_empty_struct_variant", "tag_without_content", "content_without_tag", "tag_on_unit_enum", "content_on_unit_enum", "tagged_enum_only_data_variant", "const_string", "const_float", "const_neg", "const_paren", "const_expr", "const_bool", "const_path", "const_cast", "const_not", "const_method", "const_block", "const_if"}
INIT Init
NEXT Next
INVARIANT Emit
CHECK_DEADLOCK FALSE
