------------------------------- MODULE Chars -------------------------------
(* Characters are 1-token strings. ASCII letters/digits stand for themselves; the four          *)
(* non-ASCII letters e-acute / a-diaeresis are written as the ASCII tokens "<e>" "<E>" "<a>"    *)
(* "<A>" (TLC's output encoding is not Unicode-safe); the harness maps them to the real chars.  *)
(* Two case maps exist in Rust and both matter: the ASCII-only maps (to_ascii_uppercase ...)    *)
(* and the Unicode maps (to_uppercase, char::is_uppercase).                                      *)
EXTENDS Naturals, Sequences

LowerSeq == <<"a","b","c","d","e","f","g","h","i","j","k","l","m","n","o","p","q","r","s","t","u","v","w","x","y","z">>
UpperSeq == <<"A","B","C","D","E","F","G","H","I","J","K","L","M","N","O","P","Q","R","S","T","U","V","W","X","Y","Z">>
DigitSeq == <<"0","1","2","3","4","5","6","7","8","9">>
NaLowerSeq == <<"<e>", "<a>">>
NaUpperSeq == <<"<E>", "<A>">>

Range(s) == {s[i] : i \in 1..Len(s)}
AsciiLowerSet == Range(LowerSeq)
AsciiUpperSet == Range(UpperSeq)
DigitSet == Range(DigitSeq)
NaLowerSet == Range(NaLowerSeq)
NaUpperSet == Range(NaUpperSeq)
NonAscii == NaLowerSet \cup NaUpperSet

IndexIn(s, c) == CHOOSE i \in 1..Len(s) : s[i] = c

AsciiUpper(c) == IF c \in AsciiLowerSet THEN UpperSeq[IndexIn(LowerSeq, c)] ELSE c
AsciiLower(c) == IF c \in AsciiUpperSet THEN LowerSeq[IndexIn(UpperSeq, c)] ELSE c
UniUpper(c) == IF c \in NaLowerSet THEN NaUpperSeq[IndexIn(NaLowerSeq, c)] ELSE AsciiUpper(c)
UniLower(c) == IF c \in NaUpperSet THEN NaLowerSeq[IndexIn(NaUpperSeq, c)] ELSE AsciiLower(c)

\* char::is_uppercase / is_lowercase (Unicode)
IsUpper(c) == c \in AsciiUpperSet \cup NaUpperSet
IsLower(c) == c \in AsciiLowerSet \cup NaLowerSet
IsLetter(c) == IsUpper(c) \/ IsLower(c)
\* UTF-8 width: byte slicing `s[..1]` panics unless the first char is one byte wide
ByteLen(c) == IF c \in NonAscii THEN 2 ELSE 1

MapSeq(F(_), s) == [i \in 1..Len(s) |-> F(s[i])]
AsciiUpperStr(s) == MapSeq(AsciiUpper, s)
AsciiLowerStr(s) == MapSeq(AsciiLower, s)
UniUpperStr(s) == MapSeq(UniUpper, s)
UniLowerStr(s) == MapSeq(UniLower, s)
ReplaceChar(s, a, b) == [i \in 1..Len(s) |-> IF s[i] = a THEN b ELSE s[i]]

\* A Rust identifier (XID_Start | '_') XID_Continue*, and not the lone underscore
ValidIdent(s) ==
    /\ Len(s) >= 1
    /\ s[1] \notin DigitSet
    /\ s # <<"_">>
    /\ \A i \in 1..Len(s) : s[i] = "_" \/ s[i] \in DigitSet \/ IsLetter(s[i])
=============================================================================
