------------------------------ MODULE Trace_C10 ------------------------------
(* Impl -> spec: each event is one generated file as a sequence of token classes (comments         *)
(* dropped, strings and delimiters already checked to be closed by the lexer). The executable          *)
(* grammar of the target language must accept it as a compilation unit.                               *)
EXTENDS TLC, Json, IOUtils, Naturals, Sequences
Rec == ndJsonDeserialize(IOEnv.TRACE)
VARIABLES i, bad
TS == INSTANCE Grammar_ts
KT == INSTANCE Grammar_kt
SW == INSTANCE Grammar_swift
SC == INSTANCE Grammar_scala
GO == INSTANCE Grammar_go
SL == INSTANCE StringLit
\* Python: the grammar is CPython's own (the property names it as the judge); the event carries its verdicts
Grammar(e) == CASE e.lang = "typescript" -> TS!Accepts(e.tokens)
                [] e.lang = "kotlin" -> KT!Accepts(e.tokens)
                [] e.lang = "swift" -> SW!Accepts(e.tokens)
                [] e.lang = "scala" -> SC!Accepts(e.tokens)
                [] e.lang = "go" -> GO!Accepts(e.tokens)
                [] e.lang = "python" -> e.cpython_parses /\ e.cpython_loads
\* closed strings / comments (lexer verdict), escape sequences of string literals (e.strs: the bodies that contain a backslash),
\* closed delimiters, declaration grammar
Accepts(e) == e.lex_ok /\ SL!AllOk(e.lang, e.strs) /\ TS!Balanced(e.tokens) /\ (e.lang \in {"typescript", "kotlin", "swift", "scala"} => (TS!AdjOk(e.tokens) /\ TS!OperandOk(e.tokens))) /\ Grammar(e)
Init == i = 1 /\ bad = <<>>
Next == /\ i <= Len(Rec)
        /\ bad' = IF Accepts(Rec[i]) THEN bad ELSE Append(bad, i)
        /\ i' = i + 1
Report == (i = Len(Rec) + 1) => PrintT(<<"INFO", "bad", ToJson(bad)>>)
Accepted == PrintT(<<"INFO", "matched", TLCGet("stats").diameter - 1>>)
=============================================================================
