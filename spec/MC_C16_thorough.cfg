CONSTANTS
  MaxLen = 7
  Alphabet = {"a", "Z", "7", "_", "<e>", "<A>"}
INIT Init
NEXT Next
INVARIANTS Emit Sane
CHECK_DEADLOCK FALSE
