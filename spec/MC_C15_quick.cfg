CONSTANTS
  Alphabet = {"TXT", "NL", "CRLF", "CR", "SL", "NLSL", "NLBC", "BCCR", "BC", "BO", "LC", "TDQ", "DDQ", "QDQ", "PDQ", "BS", "HASH", "BT", "DQ"}
  MaxLen = 2
INIT Init
NEXT Next
INVARIANT Emit
CHECK_DEADLOCK FALSE
