------------------------------- MODULE MC_C03 -------------------------------
(* Builder for C03: the item under test (kind x annotation spelling x where it is nested x which  *)
(* of its three members carry a skip marker x spelling of the marker) next to an annotated         *)
(* neighbour and an un-annotated decoy. Prints the program and the definitions P requires.          *)
EXTENDS Program, TLC, Json
CONSTANTS Kinds, Annotations, Nestings, SkipSets, SkipSpellings, Modes, Twins, Lookalikes
VARIABLE c

\* mode: single-file output or folder output (one module per crate); the required definitions are the same
\* twin = "sibling": a second annotated item of the same kind with the SAME Rust identifier lives in a sibling module (v1::Event /
\* v2::Event), told apart on the foreign side by serde(rename): two annotated items, two definitions
Init == c \in [kind : Kinds, annotation : Annotations, nesting : Nestings, skips : SkipSets, spelling : SkipSpellings, mode : Modes, twin : Twins, lookalike : Lookalikes]
Next == UNCHANGED c

HasMembers(k) == k \in {"struct", "unit_enum", "tagged_enum"}
InScope == (~HasMembers(c.kind) => (c.skips = "none" /\ c.spelling = "serde_skip"))
           /\ (c.twin # "none" => (HasMembers(c.kind) /\ c.annotation = "plain" /\ c.nesting \in {"top", "mod1"} /\ c.skips = "none"))
           /\ (c.skips = "none" => c.spelling = "serde_skip")
           \* lookalike: every member that is NOT skipped carries a serde argument that resembles a skip marker and is none:
           \* skip_serializing / skip_deserializing (one direction only: the member is still part of the wire format) and
           \* skip_serializing_if = ".." (a condition). Such members are "not marked serde(skip) or typeshare(skip)": they are listed
           /\ (c.lookalike # "none" => (HasMembers(c.kind) /\ c.annotation = "plain" /\ c.nesting = "top" /\ c.twin = "none" /\ c.mode = "single"))
Skipped(i) == CASE c.skips = "none" -> FALSE
                [] c.skips = "first" -> i = 1
                [] c.skips = "middle" -> i = 2
                [] c.skips = "last" -> i = 3
                [] c.skips = "first_last" -> i \in {1, 3}
                [] c.skips = "all_but_middle" -> i # 2
                [] c.skips = "all" -> TRUE
MemberNames == IF c.kind = "struct" THEN <<"alpha", "beta", "gamma">> ELSE <<"Alpha", "Beta", "Gamma">>
Payload(i) == IF c.kind = "tagged_enum" THEN (IF i = 1 THEN "newtype" ELSE IF i = 2 THEN "struct" ELSE "unit") ELSE "unit"
\* in a tagged enum the struct variant (Beta) has its own three fields; the skip set applies to them as well
Members == IF HasMembers(c.kind)
           THEN [i \in 1..3 |-> [name |-> MemberNames[i], skipped |-> Skipped(i), payload |-> Payload(i),
                                 fields |-> IF Payload(i) = "struct"
                                            THEN [j \in 1..3 |-> [name |-> <<"inner_a", "inner_b", "inner_c">>[j], skipped |-> Skipped(j) /\ c.skips # "all"]]
                                            ELSE <<>>]]
           ELSE <<>>
Subject == [name |-> "Subject", kind |-> c.kind, annotated |-> c.annotation # "none", members |-> Members]
Neighbour == [name |-> "Neighbour", kind |-> "struct", annotated |-> TRUE,
              members |-> << [name |-> "n", skipped |-> FALSE, payload |-> "unit", fields |-> <<>>] >>]
Decoy == [name |-> "Decoy", kind |-> "struct", annotated |-> FALSE,
          members |-> << [name |-> "d", skipped |-> FALSE, payload |-> "unit", fields |-> <<>>] >>]
\* Go defines a serde-renamed ENUM under its original name (listed under C09, snapshot-pinned): there the twin would be a second
\* definition of the same name; that combination is judged by C09 only
GoTwinDeferred == c.twin # "none" /\ c.kind # "struct"
Twin == [name |-> "SubjectV2", rust_name |-> "Subject", rename |-> "SubjectV2", kind |-> c.kind, annotated |-> TRUE,
         members |-> << [name |-> IF c.kind = "struct" THEN "delta" ELSE "Delta", skipped |-> FALSE,
                         payload |-> IF c.kind = "tagged_enum" THEN "newtype" ELSE "unit", fields |-> <<>>] >>]
Items == IF c.twin = "none" THEN <<Neighbour, Subject, Decoy>> ELSE <<Neighbour, Subject, Decoy, Twin>>

Emit == InScope => PrintT(<<"REPLAY", ToJson([case |-> c, items |-> Items, expected |-> ExpectedDefs(Items)])>>)
=============================================================================
