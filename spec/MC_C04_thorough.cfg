CONSTANTS
  Shapes = {"T", "Option", "OptionOption", "BoxOption", "OptionBox", "ArcOptionOption", "RefOption", "VecOption"}
  Ts = {"u32", "String", "VecU8", "MapStringU32", "User", "T", "unit", "DateTime", "GenU32", "Ovr", "Sas"}
  Defaults = {"absent", "bare", "merged_rename", "separate", "after_other", "path"}
INIT Init
NEXT Next
INVARIANT Emit
CHECK_DEADLOCK FALSE
