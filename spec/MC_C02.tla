------------------------------- MODULE MC_C02 -------------------------------
(* Builder for C02: a unit enum or an adjacently tagged enum with the variant under test           *)
(* (identifier x per-variant rename x payload kind) next to two fixed variants, under every          *)
(* rename_all rule, several tag/content key pairs, optionally generic or self-recursive.             *)
EXTENDS SerdeAttrs, TLC, Json
CONSTANTS Idents, Renames, Kinds, RuleSet, TagPairs, Flavours, Spellings, Collisions, Marks
VARIABLES c

Chars(n) == CASE n = "A" -> <<"A">>
              [] n = "Foo" -> <<"F","o","o">>
              [] n = "FooBar" -> <<"F","o","o","B","a","r">>
              [] n = "Foo2Bar" -> <<"F","o","o","2","B","a","r">>
              [] n = "HTTPServer" -> <<"H","T","T","P","S","e","r","v","e","r">>
              [] n = "IOError" -> <<"I","O","E","r","r","o","r">>
              [] n = "ID" -> <<"I","D">>
              [] n = "URL" -> <<"U","R","L">>
              [] n = "HTTP2" -> <<"H","T","T","P","2">>
              \* a non-ASCII capital first (token <A> = A with diaeresis): serde's camelCase lowers an ASCII first letter only
              [] n = "<A>nderung" -> <<"<A>","n","d","e","r","u","n","g">>
              [] n = "UserId" -> <<"U","s","e","r","I","d">>
              \* identifiers whose case-converted form is a reserved or special word of a target language (Swift init / self /
              \* default / none, Python None / class / in, Kotlin in / class): escaping the DECLARED name must not change the wire string
              [] n = "Init" -> <<"I","n","i","t">>
              [] n = "Default" -> <<"D","e","f","a","u","l","t">>
              [] n = "None" -> <<"N","o","n","e">>
              [] n = "Class" -> <<"C","l","a","s","s">>
              [] n = "In" -> <<"I","n">>
              [] n = "Self_" -> <<"S","e","l","f","_">>
              [] n = "Other" -> <<"O","t","h","e","r">>
              [] n = "Last" -> <<"L","a","s","t">>
              [] n = "Rec" -> <<"R","e","c">>
              [] n = "GenV" -> <<"G","e","n","V">>
RenameOf(n) == CASE n = "none" -> None
                 [] n = "x" -> <<"x">>
                 [] n = "foo-bar" -> <<"f","o","o","-","b","a","r">>
                 [] n = "Other_Name" -> <<"O","t","h","e","r","_","N","a","m","e">>
                 [] n = "9lives" -> <<"9","l","i","v","e","s">>
                 [] n = "init" -> <<"i","n","i","t">>
                 [] n = "default" -> <<"d","e","f","a","u","l","t">>
                 \* JSON-schema style wire names: a `$` followed by a letter starts a template in a Kotlin string literal and must
                 \* be written escaped there; with and without a character that needs escaping anyway
                 [] n = "$ref" -> <<"$","r","e","f">>
                 [] n = "empty" -> <<>>                 \* serde(rename = ""): the variant is identified by the empty string
                 [] n = "$a_quote_b" -> <<"$","a","\"","b">>

PairOf(n) == CASE n = "type_content" -> <<"type", "content">>
               [] n = "t_c" -> <<"t", "c">>
               [] n = "kind_data" -> <<"kind", "data">>
               [] n = "myTag_my_content" -> <<"myTag", "my_content">>

Init == c \in [enum : {"unit", "tagged"}, ident : Idents, rename : Renames, kind : Kinds, rule : RuleSet,
               tags : TagPairs, flavour : Flavours, spelling : Spellings, collide : Collisions, mark : Marks]
Next == UNCHANGED c

RECURSIVE Str(_)
Str(s) == IF s = <<>> THEN "" ELSE s[1] \o Str(Tail(s))

\* spelling: how the CONTAINER arguments (tag, content, rename_all) are spread over #[serde(..)] attributes; serde merges every
\* #[serde(..)] attribute of the item, so the wire strings do not depend on it: merged / split (tag + content, then rename_all) /
\* split_rev (rename_all first) / apart (an unrelated serde argument and a doc comment first, then one attribute per argument)
\* after_list / between_lists: arguments that are nested lists (bound(..), rename(deserialize = ..)) stand before / between them
\* collide: three more variants whose wire names are distinct for serde but collapse (pairwise, or two of them onto the third's
\* de-duplicated spelling) when a backend derives identifiers from them: every variant still has exactly one case with its own wire
CollSet(n) == CASE n = "not3" -> << <<"n","o","t">>, <<"N","O","T">>, <<"n","o","t","!">> >>
                [] n = "xy3" -> << <<"x","-","y">>, <<"x","_","y">>, <<"x","Y">> >>
                [] n = "ab4" -> << <<"a","b">>, <<"A","B">>, <<"a","b","_">>, <<"a","b","!">> >>
                [] OTHER -> <<>>
CollIdents == <<"Ca", "Cb", "Cc", "Cd">>
InScope == /\ (c.collide # "none" => (c.enum = "tagged" /\ c.flavour = "plain" /\ c.spelling = "merged" /\ c.rename = "none" /\ c.rule = "none"
                                        /\ c.tags = "type_content" /\ c.ident = "Foo"))
           /\ (c.enum = "unit" => (c.kind = "unit" /\ c.tags = "type_content" /\ c.flavour = "plain"))
           /\ (c.spelling # "merged" => (c.flavour = "plain" /\ c.tags = "type_content" /\ c.rename = "none"))
           \* mark: the variant under test carries ONE of serde's one-directional flags (skip_serializing: never written, still read;
           \* skip_deserializing: never read, still written). Unlike serde(skip) the variant stays part of the wire format, under the
           \* same string: it still has exactly one case
           /\ (c.mark # "none" => (c.spelling = "merged" /\ c.flavour = "plain" /\ c.collide = "none" /\ c.tags = "type_content" /\ c.rename \in {"none", "x"}))
Extra == IF c.enum = "unit" THEN << <<"Other", "unit">> >>
         ELSE << <<"Other", "unit">>, <<"Last", "newtype">> >>
               \o (IF c.flavour = "recursive" THEN << <<"Rec", "newtype">> >> ELSE <<>>)
               \o (IF c.flavour = "generic" THEN << <<"GenV", "newtype">> >> ELSE <<>>)
Wires == << Str(VariantWire(Chars(c.ident), RenameOf(c.rename), c.rule)) >>
            \o [i \in 1..Len(Extra) |-> Str(VariantWire(Chars(Extra[i][1]), None, c.rule))]
            \o [i \in 1..Len(CollSet(c.collide)) |-> Str(CollSet(c.collide)[i])]
Colliding == [i \in 1..Len(CollSet(c.collide)) |-> [ident |-> CollIdents[i], rename |-> Str(CollSet(c.collide)[i])]]
Emit == InScope => PrintT(<<"REPLAY", ToJson([case |-> c, wires |-> Wires, colliding |-> Colliding, tag |-> PairOf(c.tags)[1], content |-> PairOf(c.tags)[2]])>>)
=============================================================================
