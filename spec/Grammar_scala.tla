----------------------------- MODULE Grammar_scala -----------------------------
(* The declaration subset of Scala that typeshare emits.                                             *)
EXTENDS GrammarBase
IsId(ts, p) == At(ts, p, "id")
Id(ts, p) == IF IsId(ts, p) THEN p + 1 ELSE 0
RECURSIVE QName(_, _), Type(_, _), TypeArgs(_, _), Params(_, _), ObjMembers(_, _), Aliases(_, _), Decls(_, _, _), Vals(_, _)
QName(ts, p) == LET q == Id(ts, p) IN IF q = 0 THEN 0 ELSE IF At(ts, q, ".") THEN QName(ts, q + 1) ELSE q
TypeArgs(ts, p) == LET q == Type(ts, p) IN IF q = 0 THEN 0 ELSE IF At(ts, q, ",") THEN TypeArgs(ts, q + 1) ELSE Eat(ts, q, "]")
Type(ts, p) == LET q == QName(ts, p) IN IF q = 0 THEN 0 ELSE IF At(ts, q, "[") THEN TypeArgs(ts, q + 1) ELSE q
TParams(ts, p) == IF At(ts, p, "[") THEN
        LET RECURSIVE G(_) G(q) == LET r == Id(ts, q) IN IF r = 0 THEN 0 ELSE IF At(ts, r, ",") THEN G(r + 1) ELSE Eat(ts, r, "]") IN G(p + 1)
    ELSE p
\* ( name: Type [= default] , ... )  - p after "("
Params(ts, p) ==
    IF At(ts, p, ")") THEN p + 1
    ELSE LET t == Type(ts, Eat(ts, Id(ts, p), ":"))
             d == IF At(ts, t, "=") THEN (IF AtAny(ts, t + 1, {"id", "str", "num", "kw:null", "kw:true", "kw:false"}) THEN t + 2 ELSE 0) ELSE t
         IN IF d = 0 THEN 0 ELSE IF At(ts, d, ",") THEN Params(ts, d + 1) ELSE Eat(ts, d, ")")
Extends(ts, p) == IF At(ts, p, "kw:extends") THEN Type(ts, p + 1) ELSE p
\* { ( val name: Type = "literal" )* }
Vals(ts, p) == IF At(ts, p, "}") THEN p + 1
               ELSE LET q == Eat(ts, Eat(ts, Type(ts, Eat(ts, Id(ts, Eat(ts, p, "kw:val")), ":")), "="), "str") IN IF q = 0 THEN 0 ELSE Vals(ts, q)
ValBlock(ts, p) == IF At(ts, p, "{") THEN Vals(ts, p + 1) ELSE p
CaseClass(ts, p) ==           \* case class Name[T](params) [extends T] [{..}]  |  case object Name extends T {..}
    IF At(ts, p, "kw:case") /\ At(ts, p + 1, "kw:class") THEN ValBlock(ts, Extends(ts, Params(ts, Eat(ts, TParams(ts, Id(ts, p + 2)), "("))))
    ELSE IF At(ts, p, "kw:case") /\ At(ts, p + 1, "kw:object") THEN ValBlock(ts, Extends(ts, Id(ts, p + 2)))
    ELSE 0
ObjMembers(ts, p) == IF At(ts, p, "}") THEN p + 1 ELSE LET q == CaseClass(ts, p) IN IF q = 0 THEN 0 ELSE ObjMembers(ts, q)
Decl(ts, p) ==
    IF At(ts, p, "kw:case") THEN CaseClass(ts, p)
    ELSE IF At(ts, p, "kw:class") THEN Extends(ts, TParams(ts, Id(ts, p + 1)))
    ELSE IF At(ts, p, "kw:sealed") /\ At(ts, p + 1, "kw:trait") THEN
        Eat(ts, Type(ts, Eat(ts, Id(ts, Eat(ts, Eat(ts, TParams(ts, Id(ts, p + 2)), "{"), "kw:def")), ":")), "}")
    ELSE IF At(ts, p, "kw:object") THEN ObjMembers(ts, Eat(ts, Id(ts, p + 1), "{"))
    ELSE 0
Aliases(ts, p) ==             \* (type Name[T] = Type)* }
    IF At(ts, p, "}") THEN p + 1
    ELSE IF At(ts, p, "kw:type") THEN LET q == Type(ts, Eat(ts, TParams(ts, Id(ts, p + 1)), "=")) IN IF q = 0 THEN 0 ELSE Aliases(ts, q)
    ELSE 0
Decls(ts, p, closing) ==      \* declarations until "}" (when inside `package x {`) or end of file
    IF closing /\ At(ts, p, "}") THEN p + 1
    ELSE IF ~closing /\ End(ts, p) THEN p
    ELSE LET q == Decl(ts, p) IN IF q = 0 THEN 0 ELSE Decls(ts, q, closing)
Accepts(ts) ==
    \* a file starts with an optional package CLAUSE (`package a.b`), then an optional `package object x { aliases }`, then an optional
    \* package BLOCK `package x { declarations }`. A one-segment package name has no clause: the file starts with the object / the block.
    LET q == IF At(ts, 1, "kw:package") /\ ~At(ts, 2, "kw:object") THEN QName(ts, 2) ELSE 0
        clause == q > 0 /\ ~At(ts, q, "{")
        a == IF clause THEN q ELSE 1
    IN IF At(ts, 1, "kw:package")
       THEN LET b == IF At(ts, a, "kw:package") /\ At(ts, a + 1, "kw:object") THEN Aliases(ts, Eat(ts, Id(ts, a + 2), "{")) ELSE a
                c == IF b > 0 /\ At(ts, b, "kw:package") THEN Decls(ts, Eat(ts, Id(ts, b + 1), "{"), TRUE) ELSE b
            IN c > 0 /\ End(ts, c)
       ELSE LET c == Decls(ts, 1, FALSE) IN c > 0 /\ End(ts, c)
=============================================================================
