------------------------------ MODULE Annotation ------------------------------
(* Layer P for C19: #[typeshare] expands to the item with exactly the `typeshare` attributes       *)
(* removed - on the item and on its fields, variants, variant fields and union fields - and nothing  *)
(* else changed. An abstract item is [kind, attrs, members]; attrs is a sequence of [path, text];     *)
(* members are [name, attrs, fields] (fields = members of a variant, same shape without nesting).     *)
EXTENDS Naturals, Sequences

StripAttrs(as) == SelectSeq(as, LAMBDA a : a.path # "typeshare")
StripMember(m) == [m EXCEPT !.attrs = StripAttrs(m.attrs),
                            !.fields = [i \in 1..Len(m.fields) |-> [m.fields[i] EXCEPT !.attrs = StripAttrs(m.fields[i].attrs)]]]
Strip(item) == [item EXCEPT !.attrs = StripAttrs(item.attrs),
                            !.members = [i \in 1..Len(item.members) |-> StripMember(item.members[i])]]

\* what an observation of the two compiled twins must satisfy
Transparent(obs) ==
    /\ obs.twin_compiles = obs.annotated_compiles            \* compiles exactly when the un-annotated program does
    /\ obs.twin_compiles => (obs.same_json /\ obs.same_size)  \* same serialised form, same layout
    \* same other attributes: what a derive macro placed after #[typeshare] is handed (every attribute of the item, its fields and
    \* variants, in source order) is what it is handed for the twin Strip(item)
    /\ obs.twin_compiles => obs.same_attrs
=============================================================================
