CONSTANTS
  Marks = {"none", "skip_serializing", "skip_deserializing"}
  Collisions = {"none", "not3", "xy3"}
  Spellings = {"after_list", "between_lists", "merged", "split", "apart"}
  Idents = {"<A>nderung", "UserId", "A", "Foo", "FooBar", "HTTPServer", "URL", "Init", "Default", "None"}
  Renames = {"empty", "none", "x", "foo-bar", "init", "$ref"}
  Kinds = {"newtype_opt", "unit", "newtype", "struct"}
  RuleSet = {"none", "lowercase", "UPPERCASE", "PascalCase", "camelCase", "snake_case", "SCREAMING_SNAKE_CASE", "kebab-case", "SCREAMING-KEBAB-CASE"}
  TagPairs = {"type_content", "kind_data"}
  Flavours = {"plain", "recursive"}
INIT Init
NEXT Next
INVARIANT Emit
CHECK_DEADLOCK FALSE
