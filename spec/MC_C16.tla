------------------------------- MODULE MC_C16 -------------------------------
(* Builder state machine: every identifier over the class representatives up to MaxLen is one   *)
(* state; each valid one emits a REPLAY line with serde's result (layer P, the judge) and        *)
(* typeshare's predicted result (layer M) for 8 rules x 2 positions + one unknown rule.          *)
EXTENDS SerdeCase, TLC, Json
CONSTANTS MaxLen, Alphabet
VARIABLE id

M == INSTANCE M_Rename

AllRules == Rules \cup {"bogusCase"}
Init == id = <<>>
Next == /\ Len(id) < MaxLen
        /\ \E c \in Alphabet : id' = Append(id, c)

RECURSIVE Str(_)
Str(s) == IF s = <<>> THEN "" ELSE s[1] \o Str(Tail(s))     \* TLC concatenates strings

\* "!U" = serde itself panics (outside the property); "!P" = the model predicts a typeshare panic
Expect(pos, s) == [r \in AllRules |-> IF Defined(r, pos, s) THEN Str(Apply(r, pos, s)) ELSE "!U"]
Predict(pos, s) == [r \in AllRules |-> IF M!TPanics(r, pos, s) THEN "!P" ELSE Str(M!TRename(r, pos, s))]

\* every identifier is also written as a raw identifier (r#ident): serde_derive reads it with the prefix removed (unraw) before
\* any rule is applied, so the required name is the same for both spellings
Spellings == {"plain", "raw"}
\* a field is also judged inside a struct variant: with the rule on the variant, with the rule as the enum's rename_all_fields,
\* and with the rule on the variant while the enum's rename_all / rename_all_fields name another rule (the variant's own rule wins;
\* the enum's rename_all never reaches fields): the required name is the same in all of them (SerdeAttrs!RuleForField)
\* enum-fields-rule-after-ruled-variant: the rule is the enum's rename_all_fields and the variant is declared after a sibling variant
\* that carries another rule of its own - serde resolves each variant on its own
FieldContexts == {"struct", "variant-rule", "enum-fields-rule", "variant-rule-over-enum-rules", "enum-fields-rule-after-ruled-variant"}
\* the container's rule may stand in its first #[serde(..)] attribute or in a later one (serde merges every #[serde(..)] attribute of an item)
AttrSpellings == {"first-attribute", "rule-in-second-attribute"}
\* model-level comparison M = P (counted, not judged)
Diverges(pos, r, s) == Defined(r, pos, s) /\ (M!TPanics(r, pos, s) \/ M!TRename(r, pos, s) # Apply(r, pos, s))

Emit == ValidIdent(id) =>
    PrintT(<<"REPLAY", ToJson([id |-> Str(id), field |-> Expect("field", id), variant |-> Expect("variant", id),
                               predict |-> [field |-> Predict("field", id), variant |-> Predict("variant", id)],
                               ndiv |-> Cardinality({<<p, r>> \in {"field", "variant"} \X AllRules : Diverges(p, r, id)})])>>)

\* theorems about the specification itself, checked on every enumerated identifier
Sane == ValidIdent(id) =>
    /\ \A r \in Rules : Defined(r, "variant", id) => Len(ApplyToVariant(r, id)) >= Len(id)
    /\ ApplyToField("PascalCase", id) = SelectSeq(ApplyToField("PascalCase", id), LAMBDA c : c # "_")
    /\ ApplyToVariant("bogusCase", id) = id /\ ApplyToField("bogusCase", id) = id
    /\ \A r \in {"kebab-case", "SCREAMING-KEBAB-CASE"} : \A p \in {"field", "variant"} :
          "_" \notin Range(Apply(r, p, id))
=============================================================================
