----------------------------- MODULE SerdeCase -----------------------------
(* Layer P for C16 (and the rename_all part of C01/C02): what serde_derive 1.0.214 computes.   *)
(* Transcribed from serde_derive/src/internals/case.rs (RenameRule::apply_to_field /            *)
(* apply_to_variant); the harness cross-checks this module against the vendored original.       *)
EXTENDS Chars, SequencesExt

Rules == {"lowercase", "UPPERCASE", "PascalCase", "camelCase", "snake_case",
          "SCREAMING_SNAKE_CASE", "kebab-case", "SCREAMING-KEBAB-CASE"}

\* ---- variant position
VSnake(s) == FlattenSeq([i \in 1..Len(s) |->
                 IF i > 1 /\ IsUpper(s[i]) THEN <<"_", AsciiLower(s[i])>> ELSE <<AsciiLower(s[i])>>])

ApplyToVariant(rule, s) ==
    CASE rule = "PascalCase" -> s
      [] rule = "lowercase" -> AsciiLowerStr(s)
      [] rule = "UPPERCASE" -> AsciiUpperStr(s)
      [] rule = "camelCase" -> <<AsciiLower(s[1])>> \o SubSeq(s, 2, Len(s))
      [] rule = "snake_case" -> VSnake(s)
      [] rule = "SCREAMING_SNAKE_CASE" -> AsciiUpperStr(VSnake(s))
      [] rule = "kebab-case" -> ReplaceChar(VSnake(s), "_", "-")
      [] rule = "SCREAMING-KEBAB-CASE" -> ReplaceChar(AsciiUpperStr(VSnake(s)), "_", "-")
      [] OTHER -> s                      \* unknown rule: names unchanged

\* ---- field position
FPascal(s) == FlattenSeq([i \in 1..Len(s) |->
                 IF s[i] = "_" THEN <<>>
                 ELSE IF i = 1 \/ s[i-1] = "_" THEN <<AsciiUpper(s[i])>> ELSE <<s[i]>>])

ApplyToField(rule, s) ==
    CASE rule \in {"lowercase", "snake_case"} -> s
      [] rule = "UPPERCASE" -> AsciiUpperStr(s)
      [] rule = "PascalCase" -> FPascal(s)
      [] rule = "camelCase" -> LET p == FPascal(s) IN <<AsciiLower(p[1])>> \o SubSeq(p, 2, Len(p))
      [] rule = "SCREAMING_SNAKE_CASE" -> AsciiUpperStr(s)
      [] rule = "kebab-case" -> ReplaceChar(s, "_", "-")
      [] rule = "SCREAMING-KEBAB-CASE" -> ReplaceChar(AsciiUpperStr(s), "_", "-")
      [] OTHER -> s

\* serde_derive itself panics on these (`[..1]` on an empty string or inside a multi-byte char):
\* outside the property (only C07 applies there)
Defined(rule, pos, s) ==
    /\ Len(s) >= 1
    /\ rule = "camelCase" =>
          IF pos = "variant" THEN ByteLen(s[1]) = 1
          ELSE LET p == FPascal(s) IN Len(p) >= 1 /\ ByteLen(p[1]) = 1

Apply(rule, pos, s) == IF pos = "variant" THEN ApplyToVariant(rule, s) ELSE ApplyToField(rule, s)
=============================================================================
