CONSTANTS Discoveries = {"flag", "cwd", "parent", "grandparent"}
INIT Init
NEXT Next
INVARIANTS Emit ModelAgrees
CHECK_DEADLOCK FALSE
