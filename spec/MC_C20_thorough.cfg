CONSTANTS Discoveries = {"flag", "cwd", "parent", "grandparent", "flag_over_cwd", "flag_over_parent", "cwd_over_parent", "parent_over_grandparent", "cwd_over_all"}
INIT Init
NEXT Next
INVARIANTS Emit ModelAgrees DiscoveryOk
CHECK_DEADLOCK FALSE
