CONSTANTS Discoveries = {"flag", "cwd", "parent", "grandparent", "flag_over_cwd", "flag_over_parent"}
INIT Init
NEXT Next
INVARIANTS Emit ModelAgrees
CHECK_DEADLOCK FALSE
