------------------------------- MODULE MC_C04 -------------------------------
(* Builder for C04: shape of the optional wrapping x payload type T x presence/spelling of          *)
(* serde(default). Prints the Rust type tree, whether the attribute is the BARE default, and what      *)
(* layer P requires for the optional marker.                                                           *)
EXTENDS TypeExpr, SerdeAttrs, TLC, Json
CONSTANTS Shapes, Ts, Defaults
VARIABLE c

P(n) == [k |-> "prim", n |-> n]
TOf(n) == CASE n = "u32" -> P("u32") [] n = "String" -> P("String") [] n = "unit" -> P("unit") [] n = "DateTime" -> P("DateTime")
            [] n = "Ovr" -> P("Ovr")        \* a String member carrying a per-language type override (typeshare(swift(type = "Int"), ...)):
                                            \* the override names the TYPE; whether the member is optional is still decided by Option / default
            [] n = "Sas" -> P("Sas")        \* a member of an opaque Rust type generated through typeshare(serialized_as = ".."), the attribute naming the
                                            \* SAME shape over String (Option<Opaque> as "Option<String>"): Option is stated once, on either side
            [] n = "VecU8" -> [k |-> "vec", e |-> P("u8")]
            [] n = "MapStringU32" -> [k |-> "map", key |-> P("String"), val |-> P("u32")]
            [] n = "User" -> [k |-> "user", n |-> "User", args |-> <<>>]
            [] n = "T" -> [k |-> "param", n |-> "T"]
            [] n = "GenU32" -> [k |-> "user", n |-> "Gen", args |-> <<P("u32")>>]
O(x) == [k |-> "option", e |-> x]
W(w, x) == [k |-> "wrap", w |-> w, e |-> x]
ShapeOf(s, x) == CASE s = "T" -> x
                   [] s = "Option" -> O(x)
                   [] s = "OptionOption" -> O(O(x))
                   [] s = "BoxOption" -> W("Box", O(x))
                   [] s = "OptionBox" -> O(W("Box", x))
                   [] s = "ArcOptionOption" -> W("Arc", O(O(x)))
                   [] s = "RefOption" -> [k |-> "ref", e |-> O(x)]
                   [] s = "VecOption" -> [k |-> "vec", e |-> O(x)]

\* spellings of the default attribute; only the bare word makes the member optional (property text)
IsBare(d) == d \in {"bare", "merged_rename", "separate", "after_other"}

Init == c \in [shape : Shapes, t : Ts, default : Defaults]
Next == UNCHANGED c
Tree == ShapeOf(c.shape, TOf(c.t))
\* every case is generated under each configuration; whether a member is optional never depends on it.
\* lang_options = the file-only backend options that re-shape members: Go no_pointer_slice = true and uppercase_acronyms,
\* Swift default_decorators / default_generic_constraints / codablevoid_constraints
Configs == {"base", "lang_options"}
Emit == PrintT(<<"REPLAY", ToJson([case |-> c, rust |-> Tree, bare |-> IsBare(c.default), configs |-> Configs,
                                   optional |-> Optional(IsOpt(Tree), IsBare(c.default))])>>)
=============================================================================
