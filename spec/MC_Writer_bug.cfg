CONSTANTS
  Versions <- MCVersions
  Gen <- MCGen
  HelperPath = "codable"
  HelperBug = TRUE
  MaxRuns = 4
SPECIFICATION Spec
INVARIANT Fresh 
PROPERTY Idempotent
CHECK_DEADLOCK FALSE
