CONSTANTS
  Versions <- MCVersions
  Gen <- MCGen
  HelperPath = "codable"
  Fails <- MCFails
  EagerWrite = FALSE
  HelperBug = TRUE
  MaxRuns = 4
SPECIFICATION Spec
INVARIANT Fresh 
PROPERTIES Idempotent FailedRunTouchesNothing
CHECK_DEADLOCK FALSE
