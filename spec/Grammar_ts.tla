------------------------------ MODULE Grammar_ts ------------------------------
(* The declaration subset of TypeScript that typeshare emits.                                       *)
EXTENDS GrammarBase
Soft == {"sw:type", "sw:readonly", "sw:from", "sw:undefined", "sw:unknown", "sw:any", "sw:string", "sw:number", "sw:boolean", "sw:key", "sw:value"}
IsId(ts, p) == AtAny(ts, p, {"id"} \cup Soft)
Id(ts, p) == IF IsId(ts, p) THEN p + 1 ELSE 0

RECURSIVE Type(_, _), TypeList(_, _, _), Primary(_, _), Postfix(_, _), Members(_, _), UnionRest(_, _)
TypeList(ts, p, close) ==                       \* type ("," type)* close
    LET q == Type(ts, p) IN
    IF q = 0 THEN 0 ELSE IF At(ts, q, ",") THEN TypeList(ts, q + 1, close) ELSE Eat(ts, q, close)
Primary(ts, p) ==
    IF At(ts, p, "str") \/ At(ts, p, "kw:null") THEN p + 1
    ELSE IF At(ts, p, "{") THEN Members(ts, p + 1)
    ELSE IF At(ts, p, "[") THEN TypeList(ts, p + 1, "]")
    ELSE IF At(ts, p, "(") THEN Eat(ts, Type(ts, p + 1), ")")
    ELSE IF IsId(ts, p) THEN
        LET q == IF At(ts, p + 1, ".") THEN Id(ts, p + 2) ELSE p + 1 IN
        IF At(ts, q, "<") THEN TypeList(ts, q + 1, ">") ELSE q
    ELSE 0
Postfix(ts, p) == IF At(ts, p, "[") /\ At(ts, p + 1, "]") THEN Postfix(ts, p + 2) ELSE p
UnionRest(ts, p) == IF At(ts, p, "|") THEN Type(ts, p + 1) ELSE p
Type(ts, p) == LET q == Primary(ts, p) IN IF q = 0 THEN 0 ELSE UnionRest(ts, Postfix(ts, q))

\* members until "}" (consumed):  [readonly] (id | str) [?] : type ;
Members(ts, p) ==
    IF At(ts, p, "}") THEN p + 1
    ELSE LET a == IF At(ts, p, "sw:readonly") /\ (IsId(ts, p + 1) \/ At(ts, p + 1, "str")) THEN p + 1 ELSE p
             b == IF IsId(ts, a) \/ At(ts, a, "str") THEN a + 1 ELSE 0
             c == IF At(ts, b, "?") THEN b + 1 ELSE b
             d == Type(ts, Eat(ts, c, ":"))
             e == IF At(ts, d, ";") \/ At(ts, d, ",") THEN d + 1 ELSE IF At(ts, d, "}") THEN d ELSE 0    \* separators ; or , (optional before })
         IN IF e = 0 THEN 0 ELSE Members(ts, e)

Generics(ts, p) ==                              \* optional <id, id, ...>
    IF At(ts, p, "<") THEN
        LET RECURSIVE G(_) G(q) == LET r == Id(ts, q) IN IF r = 0 THEN 0 ELSE IF At(ts, r, ",") THEN G(r + 1) ELSE Eat(ts, r, ">") IN G(p + 1)
    ELSE p

RECURSIVE EnumEntries(_, _), Variants(_, _), ImportNames(_, _)
EnumEntries(ts, p) ==                           \* (id = str ,)* }
    IF At(ts, p, "}") THEN p + 1
    ELSE LET q == Eat(ts, Eat(ts, Eat(ts, Id(ts, p), "="), "str"), ",") IN IF q = 0 THEN 0 ELSE EnumEntries(ts, q)
Variants(ts, p) ==                              \* (| { members })+
    IF At(ts, p, "|") /\ At(ts, p + 1, "{") THEN LET q == Members(ts, p + 2) IN IF q = 0 THEN 0 ELSE Variants(ts, q) ELSE p
ImportNames(ts, p) == LET q == Id(ts, p) IN IF q = 0 THEN 0 ELSE IF At(ts, q, ",") THEN (IF At(ts, q + 1, "}") THEN q + 2 ELSE ImportNames(ts, q + 1)) ELSE Eat(ts, q, "}")

Decl(ts, p) ==
    IF At(ts, p, "kw:import") THEN
        LET a == IF At(ts, p + 1, "sw:type") /\ At(ts, p + 2, "{") THEN p + 2 ELSE p + 1
            b == Eat(ts, Eat(ts, ImportNames(ts, Eat(ts, a, "{")), "sw:from"), "str")
        IN IF b = 0 THEN 0 ELSE Opt(b, Eat(ts, b, ";"))
    ELSE IF ~At(ts, p, "kw:export") THEN 0
    ELSE IF At(ts, p + 1, "kw:interface") THEN Members(ts, Eat(ts, Generics(ts, Id(ts, p + 2)), "{"))
    ELSE IF At(ts, p + 1, "kw:enum") THEN EnumEntries(ts, Eat(ts, Generics(ts, Id(ts, p + 2)), "{"))
    ELSE IF At(ts, p + 1, "sw:type") THEN
        LET q == Eat(ts, Generics(ts, Id(ts, p + 2)), "=") IN
        IF q = 0 THEN 0
        ELSE IF At(ts, q, "|") THEN Eat(ts, Variants(ts, q), ";")
        ELSE Eat(ts, Type(ts, q), ";")
    ELSE IF At(ts, p + 1, "kw:const") THEN
        LET q == Id(ts, p + 2) IN
        IF At(ts, q, ":") THEN
            LET r == Eat(ts, Type(ts, q + 1), "=")
                s == IF At(ts, r, "-") THEN r + 1 ELSE r
            IN Eat(ts, Eat(ts, s, "num"), ";")
        ELSE IF At(ts, q, "=") THEN             \* helper arrow functions: ( params ) : type => { body } ;
            LET r == Block(ts, q + 1, "(", ")")
                s == Eat(ts, Type(ts, Eat(ts, r, ":")), "=>")
            IN Eat(ts, Block(ts, s, "{", "}"), ";")
        ELSE 0
    ELSE 0

RECURSIVE File(_, _)
File(ts, p) == IF End(ts, p) THEN TRUE ELSE LET q == Decl(ts, p) IN IF q = 0 THEN FALSE ELSE File(ts, q)
Accepts(ts) == File(ts, 1)
\* position of the first declaration that is not recognised (for diagnostics)
RECURSIVE FirstBad(_, _)
FirstBad(ts, p) == IF End(ts, p) THEN 0 ELSE LET q == Decl(ts, p) IN IF q = 0 THEN p ELSE FirstBad(ts, q)
=============================================================================
