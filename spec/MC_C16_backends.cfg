CONSTANTS
  Layouts = {"alone", "then_word", "after_word", "between_words", "two_subjects_then_word"}
INIT Init
NEXT Next
INVARIANT Emit
CHECK_DEADLOCK FALSE
