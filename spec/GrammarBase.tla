----------------------------- MODULE GrammarBase -----------------------------
(* Combinators for executable grammars (layer P for C10): recursive-descent recognisers over a     *)
(* sequence of token classes. A recogniser takes the token sequence and a position and returns the    *)
(* position after what it recognised, or 0 for "no match" (PEG style, ordered choice).               *)
(* Token classes (assigned by the harness lexers): "id" (identifier, incl. back-ticked), "num",       *)
(* "str", a punctuation character, "kw:<word>" for words reserved in the language, "sw:<word>" for     *)
(* contextual words that are also legal identifiers.                                                   *)
EXTENDS Naturals, Sequences

At(ts, p, c) == p > 0 /\ p <= Len(ts) /\ ts[p] = c
AtAny(ts, p, S) == p > 0 /\ p <= Len(ts) /\ ts[p] \in S
Eat(ts, p, c) == IF At(ts, p, c) THEN p + 1 ELSE 0
Or(a, b) == IF a > 0 THEN a ELSE b
Opt(p, q) == IF q > 0 THEN q ELSE p              \* optional element: stay at p when q did not match
End(ts, p) == p = Len(ts) + 1

\* skip a balanced group; p is just after the opening token
RECURSIVE SkipBalanced(_, _, _, _, _)
SkipBalanced(ts, p, open, close, depth) ==
    IF p = 0 \/ p > Len(ts) THEN 0
    ELSE IF ts[p] = close THEN (IF depth = 1 THEN p + 1 ELSE SkipBalanced(ts, p + 1, open, close, depth - 1))
    ELSE IF ts[p] = open THEN SkipBalanced(ts, p + 1, open, close, depth + 1)
    ELSE SkipBalanced(ts, p + 1, open, close, depth)
\* `open` ... `close` at p (all three bracket kinds must also balance inside: checked lexically by the harness)
Block(ts, p, open, close) == IF At(ts, p, open) THEN SkipBalanced(ts, p + 1, open, close, 1) ELSE 0
\* every ( [ { is closed by its partner, in order (strings and comments are already single tokens / dropped)
Partner(c) == CASE c = ")" -> "(" [] c = "]" -> "[" [] c = "}" -> "{"
RECURSIVE Bal(_, _, _)
Bal(ts, p, stack) ==
    IF p > Len(ts) THEN stack = <<>>
    ELSE IF ts[p] \in {"(", "[", "{"} THEN Bal(ts, p + 1, <<ts[p]>> \o stack)
    ELSE IF ts[p] \in {")", "]", "}"} THEN stack # <<>> /\ Head(stack) = Partner(ts[p]) /\ Bal(ts, p + 1, Tail(stack))
    ELSE Bal(ts, p + 1, stack)
Balanced(ts) == Bal(ts, 1, <<>>)
\* juxtaposition: in none of TypeScript, Kotlin, Swift and Scala can a string literal stand directly next to another literal or an
\* identifier (`""created-at""`, `"a" b`, `x "y"`); it is how a string that was quoted twice, or closed too early, shows in the
\* token classes of a body that is otherwise only checked for balance. (Go is exempt: a struct tag follows a type name.)
\* an operand of a logical operator is never empty: `&& ()`, `|| )`, `( &&` do not occur (a helper body assembled from an empty list of
\* alternatives shows like that in a body that is otherwise only checked for balance)
OperandOk(ts) == \A i \in 1..(Len(ts) - 1) :
    /\ (ts[i] \in {"&&", "||"} => (ts[i + 1] \notin {")", "&&", "||"} /\ ~(i + 2 <= Len(ts) /\ ts[i + 1] = "(" /\ ts[i + 2] = ")")))
    /\ (ts[i] = "(" => ts[i + 1] \notin {"&&", "||"})
AdjOk(ts) == \A i \in 1..(Len(ts) - 1) :
    /\ ~(ts[i] = "str" /\ ts[i + 1] \in {"str", "id", "num"})
    /\ ~(ts[i] \in {"id", "num"} /\ ts[i + 1] = "str")
=============================================================================
