------------------------------- MODULE Writer -------------------------------
(* The persistent store between runs (cli/src/writer.rs check_write_file; Swift's shared          *)
(* Codable.swift in core/src/language/swift.rs write_codable_file).                                *)
(*   fs      path -> [content, mtime]      clock   logical time, one tick per run                   *)
(*   Gen[v]  path -> content that the generator produces from source version v                      *)
(* Layer M: Run(v) = compare-then-write per path, skip-when-empty, and the helper file whose         *)
(* comparison uses Helper's body but whose write appends a newline when HelperBug is TRUE            *)
(* (the behaviour before fix; kept as a switch so that TLC can show what the bug violates).          *)
(* Layer P: Idempotent (action property) and Fresh (invariant).                                      *)
EXTENDS Naturals, Sequences, FiniteSets, TLC

CONSTANTS Versions, Gen, HelperPath, HelperBug, MaxRuns,
          Fails,        \* Fails[v]: the sources of version v contain something typeshare rejects - the run of v ends with an error
          EagerWrite,   \* layer-M switch: TRUE = files of the crates BEFORE the offending one are written before the error is noticed
                        \* (what a generator that checks crate by crate would do; kept so that TLC can show what that violates)
          Extends,      \* pairs <<c, d>> of generated contents with c a proper prefix of d (a version that only ADDS a definition
                        \* sorting last makes the old output a prefix of the new one)
          Compare       \* layer-M switch: "equal" = the old file is compared with the whole new content (the code); "prefix" = a
                        \* comparison that stops at the shorter of the two (kept so that TLC can show what that violates)
VARIABLES fs, clock, last, hist

vars == <<fs, clock, last, hist>>
NL == "\n"
Written(p, c) == IF p = HelperPath /\ HelperBug THEN <<c, NL>> ELSE <<c>>     \* bytes that end up on disk
Compared(p, c) == <<c>>                                                       \* bytes the old file is compared with

\* on-disk contents are sequences of chunks: <<>> (an empty placeholder file), <<c>>, <<c, NL>>
IsPrefixOf(x, y) == \/ x = <<>> \/ x = y
                    \/ Len(x) = 1 /\ Len(y) >= 1 /\ (x[1] = y[1] \/ <<x[1], y[1]>> \in Extends)
LooksUnchanged(old, new) == IF Compare = "equal" THEN old = new ELSE IsPrefixOf(old, new) \/ IsPrefixOf(new, old)
WriteIfChanged(store, p, c, t) ==
    IF p \in DOMAIN store /\ LooksUnchanged(store[p].content, Compared(p, c)) THEN store     \* unchanged: keep the mtime
    ELSE IF c = "" THEN store                                                  \* nothing to write
    ELSE [q \in (DOMAIN store) \cup {p} |-> IF q = p THEN [content |-> Written(p, c), mtime |-> t] ELSE store[q]]

RECURSIVE WriteAll(_, _, _, _)
WriteAll(store, paths, v, t) ==
    IF paths = {} THEN store
    ELSE LET p == CHOOSE q \in paths : TRUE IN WriteAll(WriteIfChanged(store, p, Gen[v][p], t), paths \ {p}, v, t)

\* main.rs: all parse errors are collected and checked BEFORE the first write, so a failing run writes nothing.
\* With EagerWrite the files that sort before FailAt are written first (the order of write_multiple_files).
FailAt == "b"
Before(p) == p = "a"                                                          \* the paths that sort before FailAt
RunOn(store, v, t) == IF ~Fails[v] THEN WriteAll(store, DOMAIN Gen[v], v, t)
                      ELSE IF EagerWrite THEN WriteAll(store, {p \in DOMAIN Gen[v] : Before(p)}, v, t)
                      ELSE store
Empty == [p \in {} |-> 0]

Init == fs = Empty /\ clock = 0 /\ last = "none" /\ hist = <<>>
\* the location is not always empty when the first run starts: a placeholder (an empty file created by a build system, by
\* `touch`) may sit at an output path. Only as the first step of a history.
Touch == /\ hist = <<>> /\ fs = Empty
         /\ fs' = [p \in {"a"} |-> [content |-> <<>>, mtime |-> 0]]
         /\ hist' = <<"touch">>
         /\ UNCHANGED <<clock, last>>
\* between two runs somebody removes an output file (here: the helper file) - the next run has to bring it back
Remove == /\ hist # <<>> /\ hist[Len(hist)] \notin {"touch", "remove"}
          /\ HelperPath \in DOMAIN fs
          /\ fs' = [p \in (DOMAIN fs) \ {HelperPath} |-> fs[p]]
          /\ hist' = Append(hist, "remove")
          /\ UNCHANGED <<clock, last>>
Run(v) == /\ Len(SelectSeq(hist, LAMBDA x : x \notin {"touch", "remove"})) < MaxRuns
          /\ clock' = clock + 1
          /\ fs' = RunOn(fs, v, clock')
          /\ last' = v
          /\ hist' = Append(hist, v)
Next == Touch \/ Remove \/ \E v \in Versions : Run(v)
Spec == Init /\ [][Next]_vars

\* ---------------------------------------------------------------- layer P (C17)
\* what a run into an empty location produces
\* (a failing run is responsible for no file)
FreshContent(v) == LET s == (IF Fails[v] THEN Empty ELSE RunOn(Empty, v, 1)) IN [p \in DOMAIN s |-> s[p].content]
\* re-running with unchanged sources leaves every file byte-identical and untouched
\* (a re-run straight after a run; after somebody removed a file the next run is a repair, judged by Fresh)
Idempotent == [][(last' = last /\ last # "none" /\ hist[Len(hist)] # "remove" /\ hist'[Len(hist')] # "remove") => fs' = fs]_vars
\* C08 / C17: a run that fails creates and modifies nothing (bytes and modification times)
FailedRunTouchesNothing == [][(Len(hist') > Len(hist) /\ hist'[Len(hist')] \notin {"touch", "remove"} /\ Fails[last']) => fs' = fs]_vars
\* after any history, every file the last run is responsible for has the fresh content
\* (not while a removed file is waiting for the next run)
Fresh == (last # "none" /\ hist[Len(hist)] # "remove") => \A p \in DOMAIN FreshContent(last) : p \in DOMAIN fs /\ fs[p].content = FreshContent(last)[p]
=============================================================================
