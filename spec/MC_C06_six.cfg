CONSTANTS
  NFiles = 6
  Templates = {"SEA", "SC"}
  SortConsts = TRUE
INIT Init
NEXT Next
INVARIANT Emit
CHECK_DEADLOCK FALSE
