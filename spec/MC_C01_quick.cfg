CONSTANTS
  Siblings = {"none", "ruled_before", "plain_after"}
  Decors = {"none", "ts_readonly", "type_override", "ts_date"}
  Layouts = {"two", "then_word", "word_first", "subject_last", "word_last_only", "between_words"}
  EnumFieldRules = {"none", "camelCase"}
  Idents = {"caf<e>_max", "a", "foo_bar", "r#type", "class", "x_", "http_url_v2", "user_id", "id", "ID", "API_KEY", "userName"}
  Renames = {"$ref", "none", "other", "parentId", "foo-bar", "class"}
  RuleSet = {"none", "lowercase", "UPPERCASE", "PascalCase", "camelCase", "snake_case", "SCREAMING_SNAKE_CASE", "kebab-case", "SCREAMING-KEBAB-CASE"}
  Spellings = {"after_list", "merged", "split"}
  EnumRules = {"none", "SCREAMING_SNAKE_CASE"}
INIT Init
NEXT Next
INVARIANT Emit
CHECK_DEADLOCK FALSE
