SPECIFICATION TSpec
CONSTRAINT MaxConstraint
INVARIANTS PTypeOk PExitOk PNoPanicExit PCleanSucceeds
POSTCONDITION Accepted
CHECK_DEADLOCK FALSE
