SPECIFICATION TSpec
CONSTRAINT MaxConstraint
INVARIANTS PTypeOk PExitOk PNoPanicExit PCleanSucceeds PNoWriteWithErrors PWroteOk
POSTCONDITION Accepted
CHECK_DEADLOCK FALSE
