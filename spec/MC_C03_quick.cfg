CONSTANTS
  Lookalikes = {"none", "skip_serializing", "skip_deserializing", "skip_serializing_if"}
  Twins = {"none", "sibling"}
  Modes = {"single", "multi"}
  Kinds = {"struct", "newtype_struct", "unit_struct", "unit_enum", "tagged_enum", "alias", "const"}
  Annotations = {"none", "plain", "path", "args", "abs_path", "spaced"}
  Nestings = {"top", "mod1", "mod2", "fn_body", "const_block", "static_block", "trait_default_fn"}
  SkipSets = {"none", "first", "last", "first_last"}
  SkipSpellings = {"serde_skip", "typeshare_skip", "serde_after_kv"}

INIT Init
NEXT Next
INVARIANT Emit
CHECK_DEADLOCK FALSE
