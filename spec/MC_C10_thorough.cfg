CONSTANT Mode = "thorough"
INIT Init
NEXT Next
INVARIANT Emit
CHECK_DEADLOCK FALSE
