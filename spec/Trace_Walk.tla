------------------------------ MODULE Trace_Walk ------------------------------
(* Impl -> spec: one event per place of a real run: where the file lay, the options of the run, whether the run read it (its marker   *)
(* type appears in the output). Layer P: Walk!MustRead / MustNotRead.                                                                 *)
EXTENDS Walk, TLC, Json, IOUtils
Rec == ndJsonDeserialize(IOEnv.TRACE)
VARIABLES i, bad
Ok(e) == LET p == [seg |-> e.seg, fname |-> e.fname] o == [follow |-> e.follow, git |-> e.git]
         IN (MustRead(p, o) => e.read) /\ (MustNotRead(p, o) => ~e.read)
Init == i = 1 /\ bad = <<>>
Next == /\ i <= Len(Rec)
        /\ bad' = IF Ok(Rec[i]) THEN bad ELSE Append(bad, i)
        /\ i' = i + 1
Report == (i = Len(Rec) + 1) => PrintT(<<"INFO", "bad", ToJson(bad)>>)
Accepted == PrintT(<<"INFO", "matched", TLCGet("stats").diameter - 1>>)
=============================================================================
