CONSTANTS
  Langs = {"typescript", "kotlin", "swift", "scala", "go", "python"}
  Modes = {"single", "multi"}
  Earliers = {"longer", "shorter", "other_kinds"}
INIT Init
NEXT Next
INVARIANT Emit
CHECK_DEADLOCK FALSE
