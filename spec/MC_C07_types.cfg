CONSTANTS
  OddTypes = {"HashMap<Vec<u8>, String>", "HashMap<HashMap<String, u32>, u32>", "HashMap<Option<String>, u32>", "HashMap<(), u32>",
              "HashMap<bool, u32>", "HashMap<char, Vec<u32>>", "HashMap<User, User>", "HashMap<OffsetDateTime, u32>", "HashMap<T, T>",
              "HashMap<Gen<u32>, u32>", "HashMap<[u8; 2], u32>", "HashMap<Box<String>, u32>",
              "Vec<()>", "Option<()>", "HashMap<String, ()>", "[(); 2]", "Box<Box<Box<u32>>>", "Option<Option<Option<u32>>>",
              "Vec<Vec<Vec<Vec<Vec<u32>>>>>", "HashMap<String, HashMap<String, HashMap<String, u32>>>", "Cow<'static, str>",
              "Arc<Mutex<Vec<u32>>>", "OffsetDateTime", "Vec<OffsetDateTime>", "Option<OffsetDateTime>", "Gen<Gen<Gen<u32>>>", "Gen<()>",
              "Gen<Option<T>>", "I54", "U53", "f32", "char", "Vec<char>", "Option<char>", "T", "Vec<T>", "Option<Box<T>>", "User", "Option<User>",
              "Missing", "Vec<Missing<u32>>", "std::vec::Vec<std::string::String>", "crate::User", "[u8; 32]", "&'static [u8]"}
  Positions = {"field", "vfield", "payload", "alias", "garg"}
  Langs = {"typescript", "kotlin", "swift", "scala", "go", "python"}
INIT Init
NEXT Next
INVARIANT Emit
CHECK_DEADLOCK FALSE
