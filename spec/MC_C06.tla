------------------------------- MODULE MC_C06 -------------------------------
(* Builder for C06: a source tree is a sequence of file templates; TLC enumerates every tree over  *)
(* the template menu together with EVERY arrival permutation of its files. Layer P says all runs    *)
(* of one tree produce the same bytes whatever the permutation; layer M (DataPath) predicts which   *)
(* permutations change the output of today's code.                                                  *)
EXTENDS DataPath, TLC, Json, FiniteSets
CONSTANTS NFiles, Templates, SortConsts
VARIABLES tree, perm

\* items of file number i under a template; names are integers, 77 is the shared ("tie") name
It(n, k, i) == [name |-> n, kind |-> k, src |-> i]
ItemsOfTemplate(t, i) ==
    CASE t = "S"    -> << It(10 + i, "struct", i) >>
      [] t = "SEA"  -> << It(10 + i, "struct", i), It(20 + i, "enum", i), It(30 + i, "alias", i) >>
      [] t = "C"    -> << It(40 + i, "const", i) >>
      [] t = "SC"   -> << It(10 + i, "struct", i), It(40 + i, "const", i) >>
      [] t = "Conly" -> << It(40 + i, "const", i) >>       \* a file with nothing but a constant (the harness adds no marker struct)
      [] t = "TieS" -> << It(77, "struct", i) >>
      [] t = "TieE" -> << It(77, "enum", i) >>
      [] t = "Ref"  -> << It(50 + i, "struct", i) >>        \* refers to the struct/marker of file 1
      [] t = "Ren"  -> << It(60 + i, "struct", i) >>        \* a struct Zz<i> with a type-level serde(rename = "Aa<i>"): it is placed by ONE of its two
                                                            \* names throughout (today: the Rust name), the other name lies on the far side of every neighbour
      [] t = "Bad"  -> <<>>                                 \* a .rs file that cannot be read as text (not UTF-8): the run is refused, and
                                                            \* that outcome - no output - must not depend on when the file is reached
      [] OTHER -> <<>>

Perms(n) == {p \in [1..n -> 1..n] : \A i, j \in 1..n : i # j => p[i] # p[j]}
Init == tree \in [1..NFiles -> Templates] /\ perm \in Perms(NFiles)
Next == UNCHANGED <<tree, perm>>

Items == [i \in 1..NFiles |-> ItemsOfTemplate(tree[i], i)]
Identity == [i \in 1..NFiles |-> i]
HasBad == \E i \in 1..NFiles : tree[i] = "Bad"
PredictSame == HasBad \/ OutputWith(Items, perm, SortConsts) = OutputWith(Items, Identity, SortConsts)

Emit == PrintT(<<"REPLAY", ToJson([tree |-> tree, perm |-> perm, predict_same |-> PredictSame])>>)
=============================================================================
