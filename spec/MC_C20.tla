------------------------------- MODULE MC_C20 -------------------------------
(* The full {absent, present}^2 matrix for the five dual settings x config discovery. TLC prints  *)
(* every cell with the effective settings P requires, and checks the model of                      *)
(* override_configuration (layer M) against P on each.                                             *)
EXTENDS Config, TLC, Json
CONSTANTS Discoveries
VARIABLES cliP, fileP, disc, cliE, tab

TableProfiles == {"basic", "overlap", "same", "generic_mapped"}
\* cliE: at most one setting whose option is given with an EMPTY value (prefixes only: an empty package is a refusal, C07)
Init == /\ cliP \in SUBSET Settings /\ fileP \in SUBSET Settings /\ disc \in Discoveries
        /\ cliE \in {{}} \cup {{s} : s \in {"swift_prefix", "kotlin_prefix"} \ cliP}
        /\ (cliE # {} => disc = "flag")
        \* tab: which file-only tables (type mappings, decorators, generic constraints, CodableVoid constraints, acronyms,
        \* no_pointer_slice) the configuration file carries: basic / overlap (several entries, the same entry in more than one list,
        \* two mappings) / same (one-entry lists sharing their entry; a mapping onto the Rust name of another field's type).
        \* generic_mapped: a mapping for a type that the source uses with generic arguments (arguments no backend could translate).
        \* P (Trace_C20): whatever the profile, every table shows in the output exactly as written.
        /\ tab \in TableProfiles
        /\ (tab # "basic" => (cliP = {} /\ cliE = {} /\ disc = "flag"))
Next == UNCHANGED <<cliP, fileP, disc, cliE, tab>>

Val(src, s) == src \o "_" \o s          \* distinguishable values, e.g. "cli_swift_prefix"
Cli == [s \in Settings |-> IF s \in cliE THEN GivenEmpty ELSE IF s \in cliP THEN Val("cli", s) ELSE Absent]
File == [s \in Settings |-> IF s \in fileP THEN Val("file", s) ELSE Absent]

\* layer M: cli/src/main.rs override_configuration - starts from the loaded file, overwrites when the option is Some
MOverride == [s \in Settings |-> IF Cli[s] = GivenEmpty THEN Absent ELSE IF Cli[s] # Absent THEN Cli[s] ELSE File[s]]
ModelAgrees == MOverride = Effective(Cli, File)

\* discovery: the file named by -c ("flag"), or typeshare.toml found in the working directory / an ancestor. In the
\* "flag_over_*" discoveries BOTH exist: the -c file holds `File`, and a decoy typeshare.toml with other values for every
\* setting lies in the working directory / its parent. The file the user names is the configuration (P: File, never the decoy).
\* cwd_over_parent / parent_over_grandparent / cwd_over_all: several ancestors carry a typeshare.toml; the nearest one is the
\* configuration, the others are decoys.
HasDecoy == disc \in {"flag_over_cwd", "flag_over_parent", "cwd_over_parent", "parent_over_grandparent", "cwd_over_all"}
\* the shape of each discovery in Config's vocabulary: [flag given?, levels with a file, level of the file that carries `File`]
Shape == CASE disc = "flag" -> [flag |-> TRUE, present |-> {}, real |-> "flag"]
           [] disc = "cwd" -> [flag |-> FALSE, present |-> {0}, real |-> 0]
           [] disc = "parent" -> [flag |-> FALSE, present |-> {1}, real |-> 1]
           [] disc = "grandparent" -> [flag |-> FALSE, present |-> {2}, real |-> 2]
           [] disc = "flag_over_cwd" -> [flag |-> TRUE, present |-> {0}, real |-> "flag"]
           [] disc = "flag_over_parent" -> [flag |-> TRUE, present |-> {1}, real |-> "flag"]
           [] disc = "cwd_over_parent" -> [flag |-> FALSE, present |-> {0, 1}, real |-> 0]
           [] disc = "parent_over_grandparent" -> [flag |-> FALSE, present |-> {1, 2}, real |-> 1]
           [] disc = "cwd_over_all" -> [flag |-> FALSE, present |-> {0, 1, 2}, real |-> 0]
DiscoveryOk == ChosenFile(Shape.flag, Shape.present) = Shape.real
Emit == PrintT(<<"REPLAY", ToJson([cli |-> Cli, file |-> File, disc |-> disc, tables |-> tab, decoy |-> HasDecoy, effective |-> Effective(Cli, File),
                                   gen |-> Effective(Cli, NoFile)])>>)
=============================================================================
