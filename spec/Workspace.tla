------------------------------ MODULE Workspace ------------------------------
(* Layer P for C14: in folder-output mode every typeshared type goes to exactly one file, named    *)
(* after the crate that contains its source; the definitions are those of single-file mode; and in   *)
(* languages that emit imports (TypeScript, Kotlin) every type used in a file but defined in          *)
(* another generated file is imported from precisely that file.                                       *)
(* Crate names are character sequences (module Chars vocabulary).                                     *)
EXTENDS Chars, SequencesExt, FiniteSets

RECURSIVE Str(_)
Str(s) == IF s = <<>> THEN "" ELSE s[1] \o Str(Tail(s))

\* directory above `src`, dashes as underscores
CrateName(dir) == ReplaceChar(dir, "-", "_")
\* the crate that contains a source file: the directory above the `src` directory NEAREST to the file (the crate's own src/);
\* a directory that happens to be called src further up the path (~/src/project/...) is not a crate root.
\* path: sequence of path components (strings), the file name last. "" when no component is called src.
SrcPositions(path) == {i \in 2..(Len(path) - 1) : path[i] = "src"}
CrateDirOf(path) == IF SrcPositions(path) = {} THEN "" ELSE path[(CHOOSE i \in SrcPositions(path) : \A j \in SrcPositions(path) : j <= i) - 1]
\* Swift: PascalCase of the crate name (capitalise after '_' and drop it)
Pascal(s) == FlattenSeq([i \in 1..Len(s) |->
                 IF s[i] = "_" THEN <<>> ELSE IF i = 1 \/ s[i-1] = "_" THEN <<AsciiUpper(s[i])>> ELSE <<s[i]>>])
Ext(lang) == CASE lang = "typescript" -> "ts" [] lang = "kotlin" -> "kt" [] lang = "swift" -> "swift"
               [] lang = "scala" -> "scala" [] lang = "go" -> "go" [] lang = "python" -> "py"
FileName(lang, dir) == (IF lang = "swift" THEN Str(Pascal(CrateName(dir))) ELSE Str(CrateName(dir))) \o "." \o Ext(lang)

\* files: sequence of [file, defs (seq of names), used (seq), imports (seq of [file, name])]
Definers(files, n) == {i \in 1..Len(files) : n \in ToSet(files[i].defs)}
Count(files, n) == LET RECURSIVE C(_) C(i) == IF i = 0 THEN 0 ELSE C(i-1) + Cardinality({j \in 1..Len(files[i].defs) : files[i].defs[j] = n}) IN C(Len(files))

\* placement: expected is a sequence of [name, file]: defined exactly once, in that file
PartitionOk(files, expected) ==
    \A k \in 1..Len(expected) :
        /\ Count(files, expected[k].name) = 1
        /\ \E i \in 1..Len(files) : files[i].file = expected[k].file /\ expected[k].name \in ToSet(files[i].defs)

\* imports: designated[name] = file the source code designates (use statement / qualified path) when several define it
ImportsOk(files, designated) ==
    \A i \in 1..Len(files) :
        LET F == files[i] IN
        /\ \A n \in ToSet(F.used) \ ToSet(F.defs) :
              LET ds == Definers(files, n) \ {i} IN
              ds # {} => \E k \in 1..Len(F.imports) :
                            /\ F.imports[k].name = n
                            /\ \E g \in ds : files[g].file = F.imports[k].file
                            /\ (n \in DOMAIN designated => F.imports[k].file = designated[n])
        /\ \A k \in 1..Len(F.imports) :        \* no import names a type its module does not define
              \E g \in 1..Len(files) : files[g].file = F.imports[k].file /\ F.imports[k].name \in ToSet(files[g].defs)
        /\ \A k \in 1..Len(F.imports) :        \* a name the source designates as this crate's own type (crate:: / super:: / self:: path) is
              LET n == F.imports[k].name IN     \* not imported from a same-named type of another crate
              ~(n \in DOMAIN designated /\ designated[n] = F.file /\ n \in ToSet(F.defs))
=============================================================================
