CONSTANTS
  Priors = {"absent", "empty", "cut_at_line", "cut_mid_line", "one_byte", "longer", "same", "other"}
  Modes = {"single", "multi"}
  Langs = {"typescript", "kotlin", "swift", "scala", "go", "python"}
INIT Init
NEXT Next
INVARIANT Emit
CHECK_DEADLOCK FALSE
