------------------------------- MODULE MC_C09 -------------------------------
(* Builder for C09: a target type (kind x carries serde(rename)?) referenced from every position   *)
(* of fixed host items, under a prefix setting; prints the definition name P requires.               *)
EXTENDS Names, TLC, Json
CONSTANTS Kinds, Prefixes, Modes, Elsewheres, SvNames
VARIABLE c
\* mode: single-file or folder output. elsewhere: in folder mode, ANOTHER crate defines a type with the same Rust identifier
\* as the target (plain, or carrying its own serde(rename)); the references under test are to the crate's own type, so the
\* required name does not change.
\* svname: the identifier of the host's struct variant, whose derived helper struct is named after it: plain (Sv), all capitals
\* (OK), with an underscore (Rate_Limited), starting in lower case (lowerCase) - spellings a case conversion would change
Init == c \in { r \in [kind : Kinds, renamed : BOOLEAN, prefix : Prefixes, second_renamed : BOOLEAN, mode : Modes, elsewhere : Elsewheres,
                        svname : SvNames] :
                  /\ r.elsewhere # "none" => r.mode = "folder"
                  /\ r.svname # "Sv" => (r.kind = "struct" /\ r.elsewhere = "none" /\ ~r.second_renamed) }
Next == UNCHANGED c
Target == [ident |-> "Target", rename |-> IF c.renamed THEN "TargetRenamed" ELSE ""]
Second == [ident |-> "Second", rename |-> IF c.second_renamed THEN "SecondRenamed" ELSE ""]
Emit == PrintT(<<"REPLAY", ToJson([case |-> c, target |-> Target, second |-> Second,
                                   defname |-> DefName(Target, c.prefix), second_defname |-> DefName(Second, c.prefix)])>>)
=============================================================================
