------------------------------- MODULE MC_C09 -------------------------------
(* Builder for C09: a target type (kind x carries serde(rename)?) referenced from every position   *)
(* of fixed host items, under a prefix setting; prints the definition name P requires.               *)
EXTENDS Names, TLC, Json
CONSTANTS Kinds, Prefixes, Modes, Elsewheres, SvNames, Idents
VARIABLE c
\* kinds sas_struct / sas_enum: the target is shared through typeshare(serialized_as = "..") (generated as an alias) and carries a
\* container rename_all, which is about its fields / variants and never about its own name
\* mode: single-file or folder output. elsewhere: in folder mode, ANOTHER crate defines a type with the same Rust identifier
\* as the target (plain, or carrying its own serde(rename)); the references under test are to the crate's own type, so the
\* required name does not change.
\* same_ident_renamed_later_crate: as same_ident_renamed, with the other crates' names sorting AFTER the crate under test (and a
\* third crate renaming the same identifier once more)
\* svname: the identifier of the host's struct variant, whose derived helper struct is named after it: plain (Sv), all capitals
\* (OK), with an underscore (Rate_Limited), starting in lower case (lowerCase) - spellings a case conversion would change
Init == c \in { r \in [kind : Kinds, renamed : BOOLEAN, prefix : Prefixes, second_renamed : BOOLEAN, mode : Modes, elsewhere : Elsewheres,
                        svname : SvNames, ident : Idents] :
                  /\ r.ident # "Target" => (r.elsewhere = "none" /\ r.svname = "Sv" /\ r.mode = "single")
                  /\ (r.elsewhere \notin {"none", "module_twin"} => r.mode = "folder")
                  \* module_twin: the SAME file has, in a nested module, another typeshared type with the target's Rust identifier
                  \* carrying its own serde(rename). The references under test are written in the outer module and designate the
                  \* outer type (Rust name resolution), so the required name does not change.
                  /\ (r.elsewhere = "module_twin" => (r.mode = "single" /\ r.kind = "struct" /\ r.ident = "Target" /\ ~r.second_renamed))
                  /\ r.svname # "Sv" => (r.kind = "struct" /\ r.elsewhere = "none" /\ ~r.second_renamed) }
Next == UNCHANGED c
\* ident: the Rust identifier of the target. Protocol / Type are reserved words of Swift (the backend escapes them with back-ticks,
\* which are not part of the name): escaping and prefixing must commute, so that definition and references still agree
\* PreTarget: the identifier itself begins with the characters of the configured prefix (Pre): the prefix is still applied - definition and
\* references agree on PrePreTarget. kind jvm_inline: a newtype annotated typeshare(kotlin = "JvmInline") (Kotlin: an inline value class)
Target == [ident |-> c.ident, rename |-> IF c.renamed THEN c.ident \o "Renamed" ELSE ""]
Second == [ident |-> "Second", rename |-> IF c.second_renamed THEN "SecondRenamed" ELSE ""]
Emit == PrintT(<<"REPLAY", ToJson([case |-> c, target |-> Target, second |-> Second,
                                   defname |-> DefName(Target, c.prefix), second_defname |-> DefName(Second, c.prefix)])>>)
=============================================================================
