------------------------------ MODULE TypeExpr ------------------------------
(* Layer P for C05 (and the type half of C04): how a Rust type expression must be translated.   *)
(*                                                                                                *)
(* Rust type trees:  [k |-> "prim", n |-> "u32" | "String" | "str" | "char" | "bool" | "f64" | "unit" | ...] *)
(*                   [k |-> "user", n |-> Name, args |-> <<...>>]   [k |-> "param", n |-> "T"]     *)
(*                   [k |-> "vec"|"array"|"slice"|"option"|"ref"|"path", e |-> t]                 *)
(*                   [k |-> "wrap", w |-> "Box"|..., e |-> t]      [k |-> "map", key |-> t, val |-> t] *)
(* Abstract target trees (what extractors report): prim / seq / map / opt / user (see            *)
(* vlib/extract/OBSERVATION.md).                                                                  *)
EXTENDS Naturals, Sequences, FiniteSets

SmartPointers == {"Box", "Weak", "Arc", "Rc", "Cow", "ArcWeak", "RcWeak", "Cell", "Mutex", "RefCell", "RwLock"}

\* ---- the language independent part: structure
RECURSIVE Abs(_)
Abs(t) ==
    CASE t.k \in {"ref", "path", "wrap"} -> Abs(t.e)                       \* references and serde-transparent pointers disappear
      [] t.k \in {"vec", "array", "slice"} -> [k |-> "seq", e |-> Abs(t.e)]
      [] t.k = "option" -> [k |-> "opt", e |-> Abs(t.e)]
      [] t.k \in {"map", "map3"} -> [k |-> "map", key |-> Abs(t.key), val |-> Abs(t.val)]      \* map3: HashMap<K, V, S> with an explicit
                                                                                               \* hasher S, which is no part of the data
      [] t.k = "user" -> [k |-> "user", n |-> t.n, args |-> [i \in 1..Len(t.args) |-> Abs(t.args[i])]]
      [] t.k = "param" -> [k |-> "param", n |-> t.n]
      [] OTHER -> t                                                          \* prim

\* A mapping of a CONTAINER INSTANCE (TypeScript, Go, Python): `"Vec<u8>" = Name` replaces every Vec<u8> - at any depth, also
\* behind references and smart pointers, but not [u8; N] or &[u8], which are other instances - by Name.
RECURSIVE Strip(_)
Strip(t) == IF t.k \in {"ref", "path", "wrap"} THEN Strip(t.e) ELSE t
IsVecU8(t) == LET s == Strip(t) IN s.k = "vec" /\ Strip(s.e).k = "prim" /\ Strip(s.e).n = "u8"
RECURSIVE AbsC(_, _)
AbsC(t, vecu8) ==
    IF vecu8 # "" /\ IsVecU8(t) THEN [k |-> "mapped", n |-> vecu8]
    ELSE CASE t.k \in {"ref", "path", "wrap"} -> AbsC(t.e, vecu8)
           [] t.k \in {"vec", "array", "slice"} -> [k |-> "seq", e |-> AbsC(t.e, vecu8)]
           [] t.k = "option" -> [k |-> "opt", e |-> AbsC(t.e, vecu8)]
           [] t.k \in {"map", "map3"} -> [k |-> "map", key |-> AbsC(t.key, vecu8), val |-> AbsC(t.val, vecu8)]
           [] t.k = "user" -> [k |-> "user", n |-> t.n, args |-> [i \in 1..Len(t.args) |-> AbsC(t.args[i], vecu8)]]
           [] t.k = "param" -> [k |-> "param", n |-> t.n]
           [] OTHER -> t

\* Only TypeScript can keep Option<Option<T>> apart from Option<T> (`?` plus `| null`); for the other
\* languages consecutive options are one option (both in what P requires and in what is observed)
RECURSIVE Collapse(_)
Collapse(a) ==
    CASE a.k = "opt" -> (IF a.e.k \in {"opt", "undef"} THEN Collapse(a.e) ELSE [k |-> "opt", e |-> Collapse(a.e)])
      [] a.k = "undef" -> (IF a.e.k \in {"opt", "undef"} THEN Collapse(a.e) ELSE [k |-> "opt", e |-> Collapse(a.e)])
      [] a.k = "seq" -> [k |-> "seq", e |-> Collapse(a.e)]
      [] a.k = "map" -> [k |-> "map", key |-> Collapse(a.key), val |-> Collapse(a.val)]
      [] a.k = "user" -> [a EXCEPT !.args = [i \in 1..Len(a.args) |-> Collapse(a.args[i])]]
      [] OTHER -> a
ForLang(lang, a) == IF lang = "typescript" THEN a ELSE Collapse(a)
\* Go with the file-only option no_pointer_slice = true: a slice is nil-able as it stands, so an Option directly around a
\* sequence is that sequence (documented purpose of the option); every other Option keeps its pointer. A Vec<u8> that a container-
\* instance mapping replaces ("Vec<u8>" = "[]byte") still counts as the slice it stands for.
RECURSIVE SliceOpt(_)
SliceOpt(a) ==
    CASE a.k \in {"opt", "undef"} -> (LET x == SliceOpt(a.e) IN IF x.k \in {"seq", "mapped"} THEN x ELSE [k |-> "opt", e |-> x])
      [] a.k = "seq" -> [k |-> "seq", e |-> SliceOpt(a.e)]
      [] a.k = "map" -> [k |-> "map", key |-> SliceOpt(a.key), val |-> SliceOpt(a.val)]
      [] a.k = "user" -> [a EXCEPT !.args = [i \in 1..Len(a.args) |-> SliceOpt(a.args[i])]]
      [] OTHER -> a
ForLangO(lang, noptrslice, a) == IF lang = "go" /\ noptrslice THEN SliceOpt(Collapse(a)) ELSE ForLang(lang, a)
\* the OBSERVED side: the same normalisation, where the name a container-instance mapping configures for Vec<u8> (nm, "" when there is none)
\* stands for the slice it replaces - `*[]T` and `*Blob` for a double Option are read alike
RECURSIVE SliceOptN(_, _)
SliceOptN(a, nm) ==
    CASE a.k \in {"opt", "undef"} -> (LET x == SliceOptN(a.e, nm) IN
                                       IF x.k \in {"seq", "mapped"} \/ (nm # "" /\ x.k = "user" /\ x.n = nm) THEN x ELSE [k |-> "opt", e |-> x])
      [] a.k = "seq" -> [k |-> "seq", e |-> SliceOptN(a.e, nm)]
      [] a.k = "map" -> [k |-> "map", key |-> SliceOptN(a.key, nm), val |-> SliceOptN(a.val, nm)]
      [] a.k = "user" -> [a EXCEPT !.args = [i \in 1..Len(a.args) |-> SliceOptN(a.args[i], nm)]]
      [] OTHER -> a
ForLangObs(lang, noptrslice, nm, a) == IF lang = "go" /\ noptrslice THEN SliceOptN(Collapse(a), nm) ELSE ForLang(lang, a)

IsOpt(t) == Abs(t).k = "opt"
Unopt(a) == IF a.k = "opt" THEN a.e ELSE a

\* ---- primitives: JSON category and capacity
\* Rust side: [cat, signed, bits]; I54 = +-(2^53-1) counts as signed 54, U53 as unsigned 53
RustPrim(n) ==
    CASE n = "bool" -> [cat |-> "bool", signed |-> FALSE, bits |-> 0]
      [] n \in {"String", "str", "char"} -> [cat |-> "string", signed |-> FALSE, bits |-> 0]
      [] n = "unit" -> [cat |-> "unit", signed |-> FALSE, bits |-> 0]
      [] n = "DateTime" -> [cat |-> "datetime", signed |-> FALSE, bits |-> 0]      \* time::OffsetDateTime (refused by Kotlin / Swift / Scala)
      [] n = "i8" -> [cat |-> "int", signed |-> TRUE, bits |-> 8]
      [] n = "i16" -> [cat |-> "int", signed |-> TRUE, bits |-> 16]
      [] n = "i32" -> [cat |-> "int", signed |-> TRUE, bits |-> 32]
      [] n = "I54" -> [cat |-> "int", signed |-> TRUE, bits |-> 54]
      [] n = "u8" -> [cat |-> "int", signed |-> FALSE, bits |-> 8]
      [] n = "u16" -> [cat |-> "int", signed |-> FALSE, bits |-> 16]
      [] n = "u32" -> [cat |-> "int", signed |-> FALSE, bits |-> 32]
      [] n = "U53" -> [cat |-> "int", signed |-> FALSE, bits |-> 53]
      [] n = "f32" -> [cat |-> "float", signed |-> TRUE, bits |-> 32]
      [] n = "f64" -> [cat |-> "float", signed |-> TRUE, bits |-> 64]

\* Target side, by language and written name. cat "number" = IEEE double used for integers and floats (JS).
\* Unknown names map to cat "unknown" (never holds anything).
TP(cat, signed, bits) == [cat |-> cat, signed |-> signed, bits |-> bits]
Unknown == TP("unknown", FALSE, 0)
TargetPrim(lang, n) ==
    CASE lang = "typescript" ->
            (CASE n = "string" -> TP("string", FALSE, 0) [] n = "number" -> TP("number", TRUE, 54) [] n = "boolean" -> TP("bool", FALSE, 0)
               [] n = "undefined" -> TP("unit", FALSE, 0) [] n = "Date" -> TP("datetime", FALSE, 0) [] OTHER -> Unknown)
      [] lang \in {"kotlin", "scala"} ->
            (CASE n = "String" -> TP("string", FALSE, 0) [] n = "Boolean" -> TP("bool", FALSE, 0) [] n = "Unit" -> TP("unit", FALSE, 0)
               [] n = "Byte" -> TP("int", TRUE, 8) [] n = "Short" -> TP("int", TRUE, 16) [] n = "Int" -> TP("int", TRUE, 32) [] n = "Long" -> TP("int", TRUE, 64)
               [] n = "UByte" -> TP("int", FALSE, 8) [] n = "UShort" -> TP("int", FALSE, 16) [] n = "UInt" -> TP("int", FALSE, 32) [] n = "ULong" -> TP("int", FALSE, 64)
               [] n = "Float" -> TP("float", TRUE, 32) [] n = "Double" -> TP("float", TRUE, 64) [] n = "Char" -> TP("string", FALSE, 0)
               [] OTHER -> Unknown)
      [] lang = "swift" ->
            (CASE n = "String" -> TP("string", FALSE, 0) [] n = "Bool" -> TP("bool", FALSE, 0) [] n = "CodableVoid" -> TP("unit", FALSE, 0)
               [] n \in {"Unicode.Scalar", "Character"} -> TP("string", FALSE, 0)
               [] n = "Int8" -> TP("int", TRUE, 8) [] n = "Int16" -> TP("int", TRUE, 16) [] n = "Int32" -> TP("int", TRUE, 32) [] n \in {"Int64", "Int"} -> TP("int", TRUE, 64)
               [] n = "UInt8" -> TP("int", FALSE, 8) [] n = "UInt16" -> TP("int", FALSE, 16) [] n = "UInt32" -> TP("int", FALSE, 32) [] n \in {"UInt64", "UInt"} -> TP("int", FALSE, 64)
               [] n = "Float" -> TP("float", TRUE, 32) [] n = "Double" -> TP("float", TRUE, 64)
               [] OTHER -> Unknown)
      [] lang = "go" ->
            (CASE n = "string" -> TP("string", FALSE, 0) [] n = "bool" -> TP("bool", FALSE, 0) [] n = "struct{}" -> TP("unit", FALSE, 0)
               [] n = "int8" -> TP("int", TRUE, 8) [] n = "int16" -> TP("int", TRUE, 16) [] n \in {"int32", "rune", "int"} -> TP("int", TRUE, 32) [] n = "int64" -> TP("int", TRUE, 64)
               [] n \in {"uint8", "byte"} -> TP("int", FALSE, 8) [] n = "uint16" -> TP("int", FALSE, 16) [] n \in {"uint32", "uint"} -> TP("int", FALSE, 32) [] n = "uint64" -> TP("int", FALSE, 64)
               [] n = "float32" -> TP("float", TRUE, 32) [] n = "float64" -> TP("float", TRUE, 64) [] n = "time.Time" -> TP("datetime", FALSE, 0)
               [] OTHER -> Unknown)
      [] lang = "python" ->
            (CASE n = "str" -> TP("string", FALSE, 0) [] n = "bool" -> TP("bool", FALSE, 0) [] n = "None" -> TP("unit", FALSE, 0)
               [] n = "int" -> TP("int", TRUE, 128) [] n = "float" -> TP("float", TRUE, 64) [] n = "datetime" -> TP("datetime", FALSE, 0)
               [] OTHER -> Unknown)
      [] OTHER -> Unknown

\* the target type has the same JSON category and can hold every value of the Rust type
Holds(tp, rp) ==
    CASE rp.cat \in {"bool", "string", "unit", "datetime"} -> tp.cat = rp.cat
      [] rp.cat = "float" -> tp.cat \in {"float", "number"} /\ (tp.cat = "number" \/ tp.bits >= rp.bits)
      [] rp.cat = "int" ->
            \/ tp.cat = "number" /\ rp.bits <= (IF rp.signed THEN 54 ELSE 53)
            \/ tp.cat = "int" /\ (IF rp.signed THEN tp.signed /\ tp.bits >= rp.bits
                                   ELSE (IF tp.signed THEN tp.bits >= rp.bits + 1 ELSE tp.bits >= rp.bits))

\* ---- conformance of an observed target tree with the abstract tree, for one language
\* cfg: [prefix |-> str, mapping |-> [rustName -> targetName], aliases |-> [name -> name] (helper aliases defined in the file),
\*       renames |-> [rustName -> serde(rename) of that type],
\*       prims |-> BOOLEAN (judge category/capacity of primitives: C05 yes, C04 structure only)]
Resolve(cfg, n) == IF n \in DOMAIN cfg.aliases THEN cfg.aliases[n] ELSE n
NodeName(o) == IF "n" \in DOMAIN o THEN o.n ELSE ""
\* the name a user type is DEFINED under: its serde(rename) if it has one (cfg.renames: Rust name -> renamed), else its Rust name
Defined(cfg, n) == IF n \in DOMAIN cfg.renames THEN cfg.renames[n] ELSE n

RECURSIVE Conf(_, _, _, _)
Conf(lang, cfg, a, o) ==
    IF a.k \in {"user", "prim"} /\ (IF a.k = "user" THEN a.n ELSE a.n) \in DOMAIN cfg.mapping
    THEN \* a configured type mapping replaces the mapped Rust type by the configured name, without arguments
         o.k \in {"user", "prim"} /\ NodeName(o) = cfg.mapping[a.n] /\ (o.k = "user" => Len(o.args) = 0)
    ELSE CASE a.k = "mapped" -> o.k \in {"user", "prim"} /\ NodeName(o) = a.n /\ (o.k = "user" => Len(o.args) = 0)
           [] a.k = "seq" -> o.k = "seq" /\ Conf(lang, cfg, a.e, o.e)
           [] a.k = "opt" -> o.k \in {"opt", "undef"} /\ Conf(lang, cfg, a.e, o.e)
           [] a.k = "map" -> o.k = "map" /\ Conf(lang, cfg, a.key, o.key) /\ Conf(lang, cfg, a.val, o.val)
           [] a.k = "param" -> o.k = "user" /\ o.n = a.n /\ Len(o.args) = 0                 \* never prefixed or renamed
           [] a.k = "user" -> /\ o.k = "user" /\ o.n = cfg.prefix \o Defined(cfg, a.n)
                              /\ Len(o.args) = Len(a.args)
                              /\ \A i \in 1..Len(a.args) : Conf(lang, cfg, a.args[i], o.args[i])
           [] a.k = "prim" -> /\ o.k \in {"prim", "user"}
                              /\ (o.k = "user" => Len(o.args) = 0)
                              /\ (cfg.prims => Holds(TargetPrim(lang, Resolve(cfg, NodeName(o))), RustPrim(a.n)))
           [] OTHER -> FALSE
=============================================================================
