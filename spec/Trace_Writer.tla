------------------------------ MODULE Trace_Writer ------------------------------
(* Impl -> spec: histories of real typeshare runs into one output location. Events:               *)
(*   ref   (v, files: path -> sha)              what a run of version v into an EMPTY location wrote *)
(*   reset                                      a new history starts on an empty location             *)
(*   run   (v, files: path -> [sha, mtime])     snapshot of the location after running version v      *)
(*         failed: TRUE when the run ended with an error (a version whose sources typeshare rejects)  *)
(*   touch (files)                              Writer!Touch: placeholder files put into the empty location before the first run *)
(*   remove (files)                             Writer!Remove: somebody removed the helper file; the next run is a repair (Fresh),   *)
(*                                              not a re-run (Idempotent)                                                              *)
(* Layer P (Writer!Idempotent, Writer!Fresh, Writer!FailedRunTouchesNothing) judges every run event.  *)
EXTENDS TLC, Json, IOUtils, Sequences, Naturals
Rec == ndJsonDeserialize(IOEnv.TRACE)
VARIABLES i, bad, prev, prevv, refs

NoFiles == [p \in {} |-> 0]
Idem(e) == prevv = e.v => e.files = prev
FreshOk(e) == e.v \in DOMAIN refs =>
    \A p \in DOMAIN refs[e.v] : p \in DOMAIN e.files /\ e.files[p].sha = refs[e.v][p]
\* a failing run creates and modifies nothing; the next successful run is judged against the last SUCCESSFUL version for
\* idempotence (the location still holds that version's output) and must be fresh as always
Untouched(e) == e.failed => e.files = prev
Ok(e) == e.ev # "run" \/ (IF e.failed THEN Untouched(e) ELSE (Idem(e) /\ FreshOk(e)))

Init == i = 1 /\ bad = <<>> /\ prev = NoFiles /\ prevv = "none" /\ refs = [v \in {} |-> 0]
Next == /\ i <= Len(Rec)
        /\ LET e == Rec[i] IN
             /\ bad' = IF Ok(e) THEN bad ELSE Append(bad, i)
             /\ refs' = IF e.ev = "ref" THEN [v \in (DOMAIN refs) \cup {e.v} |-> IF v = e.v THEN e.files ELSE refs[v]] ELSE refs
             /\ prev' = IF e.ev \in {"run", "touch", "remove"} THEN e.files ELSE IF e.ev = "reset" THEN NoFiles ELSE prev
             /\ prevv' = IF e.ev = "run" THEN (IF e.failed THEN prevv ELSE e.v) ELSE IF e.ev \in {"reset", "remove"} THEN "none" ELSE prevv
        /\ i' = i + 1
Report == (i = Len(Rec) + 1) => PrintT(<<"INFO", "bad", ToJson(bad)>>)
Accepted == PrintT(<<"INFO", "matched", TLCGet("stats").diameter - 1>>)
=============================================================================
