---------------------------- MODULE MC_C06_prior ----------------------------
(* Builder for C06, the state of the output location: the bytes of a run are a function of sources, configuration and options -   *)
(* not of what already lies at the output path(s). PRIOR states of every file the run writes:                                     *)
(*   absent          nothing there (the reference of the class)                                                                    *)
(*   empty           an empty file (a placeholder, `touch`)                                                                         *)
(*   cut_at_line     the first lines of what the run will write (an interrupted earlier write; an earlier version of the sources  *)
(*                   that lacked the last definitions)                                                                              *)
(*   cut_mid_line    the same, cut in the middle of a line                                                                          *)
(*   one_byte        only the first byte                                                                                            *)
(*   longer          what the run will write, followed by more text (an earlier version that had more definitions)                 *)
(*   same            exactly what the run will write                                                                                *)
(*   other           unrelated text                                                                                                 *)
(* Layer P: Trace_C06 - all runs of one class (tree, mode, language) end with the same bytes.                                       *)
EXTENDS TLC, Json
CONSTANTS Priors, Modes, Langs
VARIABLE c
Init == c \in [prior : Priors, mode : Modes, lang : Langs]
Next == UNCHANGED c
Emit == PrintT(<<"REPLAY", ToJson(c)>>)
=============================================================================
