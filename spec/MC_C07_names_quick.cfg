CONSTANTS
  Spellings = {"user-id", "userId", "user_id", "UserId", "USER_ID", "user_id_", "User_Id"}
  IdentSpellings = {"userId", "user_id", "UserId", "USER_ID", "user_id_", "User_Id"}
  MaxSize = 3
  Langs = {"typescript", "kotlin", "swift", "scala", "go", "python"}
INIT Init
NEXT Next
INVARIANT Emit
CHECK_DEADLOCK FALSE
