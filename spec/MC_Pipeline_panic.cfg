CONSTANTS
  Files = {"f1", "f2", "f3"}
  Workers = {"w1", "w2"}
  Cap = 1
  ResultKinds = {"ok", "panic"}
  OutOf <- OutSingle
  SingleFile = TRUE
  GenKinds = {"ok"}
  Visits <- VisitsOnce
  Dedupe = "none"
  Items <- ItemsDistinct
SPECIFICATION Spec
INVARIANTS TypeOk ExitOk
PROPERTY Terminates
CHECK_DEADLOCK FALSE
