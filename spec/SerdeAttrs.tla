----------------------------- MODULE SerdeAttrs -----------------------------
(* Layer P for C01/C02/C04: which serde attributes determine the wire name of a field / variant,  *)
(* the tag and content keys of an enum, and optionality. Identifiers and names are sequences of    *)
(* 1-character strings (module Chars); None (a token no name contains) means "attribute absent".   *)
EXTENDS SerdeCase

\* an EMPTY rename (serde(rename = "")) is a name like any other: the wire name is the empty string
None == <<"<none>">>

\* raw identifiers lose their r# prefix (the abstract syntax keeps `raw` as a flag, ident without prefix)
\* field: [ident, raw, rename]   rule: the rename_all that applies to this position, or "none"
FieldWire(ident, rename, rule) ==
    IF rename # None THEN rename
    ELSE IF rule # "none" THEN ApplyToField(rule, ident)
    ELSE ident

\* struct fields take the STRUCT's rename_all; fields of a struct variant take the VARIANT's rename_all,
\* never the enum's (serde: container attribute rename_all on an enum renames variants only)
\* - except through the enum's rename_all_fields, which is the rule for the fields of every struct variant that has no
\* rename_all of its own (serde_derive: variant.rename_all_rules().or(container.rename_all_fields_rules()))
RuleForField(container) ==
    IF container.kind = "struct" THEN container.rename_all
    ELSE IF container.variant_rename_all # "none" THEN container.variant_rename_all
    ELSE container.enum_rename_all_fields

VariantWire(ident, rename, enumRule) ==
    IF rename # None THEN rename
    ELSE IF enumRule # "none" THEN ApplyToVariant(enumRule, ident)
    ELSE ident

\* C04: optional iff Option<..> (after smart pointers) or the bare serde(default)
Optional(isOption, hasBareDefault) == isOption \/ hasBareDefault
=============================================================================
