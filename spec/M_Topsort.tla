------------------------------ MODULE M_Topsort ------------------------------
(* Layer M: core/src/topsort.rs - toposort_impl (DFS with `seen` path and `processed`, cycle =   *)
(* abandon the current sibling list), sort_by_indices (in-place cycle walk), and which           *)
(* references get_dependencies* actually collects. Predictions only.                             *)
EXTENDS Naturals, Sequences, FiniteSets

Range(s) == {s[i] : i \in 1..Len(s)}
RemoveFirst(s, x) == IF x \notin Range(s) THEN s
                     ELSE LET p == CHOOSE i \in 1..Len(s) : s[i] = x /\ \A j \in 1..(i-1) : s[j] # x
                          IN SubSeq(s, 1, p - 1) \o SubSeq(s, p + 1, Len(s))

\* graph: sequence (index = node) of sequences of dependencies, in collection order, duplicates allowed
RECURSIVE Inner(_, _, _, _)
Inner(g, nodes, idx, st) ==
    IF idx > Len(nodes) THEN st
    ELSE LET d == nodes[idx] IN
        IF d \in Range(st.processed) THEN Inner(g, nodes, idx + 1, st)
        ELSE IF d \in Range(st.seen) THEN st                       \* cycle: `return` drops the remaining siblings
        ELSE LET st1 == [st EXCEPT !.seen = Append(@, d)]
                 st2 == Inner(g, g[d], 1, st1)
                 st3 == [st2 EXCEPT !.seen = RemoveFirst(@, d), !.processed = Append(@, d), !.res = Append(@, d)]
             IN Inner(g, nodes, idx + 1, st3)

ToposortImpl(g) == Inner(g, [i \in 1..Len(g) |-> i], 1, [res |-> <<>>, processed |-> <<>>, seen |-> <<>>]).res

\* sort_by_indices(data, indices): returns the final data
RECURSIVE Cycle(_, _, _), Outer(_, _, _)
Cycle(data, ind, cur) ==
    LET target == ind[cur]
        ind1 == [ind EXCEPT ![cur] = cur]
    IN IF ind1[target] = target THEN [data |-> data, ind |-> ind1]
       ELSE Cycle([data EXCEPT ![cur] = data[target], ![target] = data[cur]], ind1, target)
Outer(data, ind, idx) ==
    IF idx > Len(data) THEN data
    ELSE IF ind[idx] # idx THEN LET r == Cycle(data, ind, idx) IN Outer(r.data, r.ind, idx + 1)
    ELSE Outer(data, ind, idx + 1)
SortByIndices(data, ind) == Outer(data, ind, 1)

\* which written references become edges of the collected graph (everything else is invisible to the sort)
\* carrier: field | newtype | vfield | alias | const      wrapper: direct | vec | option | mapk | mapv | array | slice
\*          | garg (argument of a typeshared generic type) | garg_unknown (argument of a non-typeshared generic)
\*          | garg_nested (Vec<..> inside a generic argument)
Collected(carrier, wrapper, renamedTarget) ==
    ~renamedTarget      \* reconcile rewrote the reference to the new name; the lookup map is keyed by the original name
=============================================================================
