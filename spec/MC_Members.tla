----------------------------- MODULE MC_Members -----------------------------
(* Builder for Compose at the level of MEMBERS: one member of the menu inside a host (a struct, or the struct variant of a tagged     *)
(* enum), generated as the host's only member, after a sibling member, before a sibling member, between two - the siblings taken       *)
(* from the same menu. Layer P (Compose!Independent through Trace_Compose, per facet keys / optional / types): what is generated       *)
(* for a member is a function of that member and of the container's attributes - not of the members declared before or after it.       *)
(* (A parser or backend walks the members of an item in a loop; a rule, a flag or a buffer kept across iterations must not reach       *)
(* the next member.) rule: the host's rename_all.                                                                                       *)
EXTENDS TLC, Json, Naturals
CONSTANTS Members, Hosts, Rules
VARIABLE c
\* m_skip is a sibling only: a skipped member is not generated, there is nothing to compare
Subjects == Members \ {"m_skip"}
Init == c \in { r \in [item : Subjects, before : Members \cup {"none"}, after : Members \cup {"none"}, host : Hosts, rule : Rules] : TRUE }
Next == UNCHANGED c
Emit == PrintT(<<"REPLAY", ToJson(c)>>)
=============================================================================
