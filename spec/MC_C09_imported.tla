--------------------------- MODULE MC_C09_imported ---------------------------
(* Builder for C09 across crates (folder output): the target type is defined in a PROVIDER crate (with or without                 *)
(* serde(rename)) and named in a consumer crate through a `use` item or a qualified path; the consumer refers to it exactly ONCE, *)
(* in one SHAPE of type expression: alone, Vec element, optional, map key, map value, first / last argument of a two-parameter    *)
(* generic, first argument nested deeper. Layer P (Names!RefOk through Trace_C09): that one reference is spelled with the name     *)
(* the provider's file defines the type under, and that name is defined once in the run.                                           *)
EXTENDS Names, TLC, Json
CONSTANTS Shapes, Prefixes, Forms
VARIABLE c
Init == c \in [shape : Shapes, renamed : BOOLEAN, prefix : Prefixes, form : Forms]
Next == UNCHANGED c
Target == [ident |-> "Target", rename |-> IF c.renamed THEN "TargetRenamed" ELSE ""]
Emit == PrintT(<<"REPLAY", ToJson([case |-> c, target |-> Target, defname |-> DefName(Target, c.prefix)])>>)
=============================================================================
