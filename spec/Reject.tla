------------------------------- MODULE Reject -------------------------------
(* Layer P for C08: an unsupported construct in a non-skipped part of an annotated item makes the *)
(* run fail (and touch no output); under serde(skip)/typeshare(skip) the run succeeds.              *)
EXTENDS Naturals, Sequences

TypeConstructs == {"u64", "i64", "usize", "isize", "tuple2", "tuple3_nested"}
ItemConstructs == {"multi_tuple_struct", "multi_tuple_variant", "flatten_field", "flatten_vfield", "untagged_data_enum",
                   "tag_without_content", "content_without_tag", "tag_on_unit_enum", "content_on_unit_enum",
                   "const_string", "const_float", "const_expr", "const_bool", "const_path"}
\* a negated (or parenthesized) integer literal is still an integer literal: it must be generated with its value
Supported == {"const_neg", "const_paren"}
Unsupported == TypeConstructs \cup ItemConstructs

\* where a skip marker can shelter the construct
Skippable(c) == \/ c.construct \in TypeConstructs /\ c.carrier \in {"field", "vfield", "payload", "sas_field"}
                \/ c.construct \in {"multi_tuple_variant", "flatten_field", "flatten_vfield"}
Sheltered(c) == c.skip # "none" /\ Skippable(c)
MustReject(c) == c.construct \in Unsupported /\ ~Sheltered(c)

\* an observed run conforms; value_ok: every constant in the output carries the value written in the source
Conforms(c, outcome, touched, value_ok) ==
    IF MustReject(c) THEN outcome = "error" /\ ~touched
    ELSE outcome = "ok" /\ value_ok
=============================================================================
