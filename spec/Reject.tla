------------------------------- MODULE Reject -------------------------------
(* Layer P for C08: an unsupported construct in a non-skipped part of an annotated item makes the *)
(* run fail (and touch no output); under serde(skip)/typeshare(skip) the run succeeds.              *)
EXTENDS Naturals, Sequences

\* tuple1: (T,) - a one-element tuple (trailing comma) is a tuple (serde: 1-element array); (T) is just T in parentheses
TypeConstructs == {"u64", "i64", "usize", "isize", "tuple2", "tuple3_nested", "tuple1"}
\* flatten_*_sas / _merged / _second: serde(flatten) next to typeshare(serialized_as) on the same field, merged into one
\* #[serde(..)] list with other arguments, or in a second #[serde(..)] attribute: flatten is unsupported however it is accompanied
FlattenConstructs == {"flatten_field", "flatten_vfield", "flatten_field_sas", "flatten_vfield_sas", "flatten_field_merged", "flatten_field_second"}
\* multi_tuple_*_one_kept: a tuple struct / tuple variant with several fields of which all but ONE carry a skip marker. serde decides
\* "newtype or tuple" by the number of fields WRITTEN, not by the number serialised: the value is still a (one-element) sequence, which
\* no target type expresses - unsupported like any other multi-field tuple
ItemConstructs == FlattenConstructs \cup {"multi_tuple_struct", "multi_tuple_variant", "multi_tuple_struct_one_kept", "multi_tuple_variant_one_kept",
                   "multi_tuple_struct_one_kept_ts", "untagged_data_enum",
                   \* a struct variant carries data (serde writes {"Bad":{..}}, not "Bad") whatever is left of its fields: with
                   \* fields, with every field skipped, written with no field at all
                   "untagged_enum_struct_variant", "untagged_enum_struct_variant_fields_skipped", "untagged_enum_empty_struct_variant",
                   "tag_without_content", "content_without_tag", "tag_on_unit_enum", "content_on_unit_enum",
                   "const_string", "const_float", "const_expr", "const_bool", "const_path",
                   \* further initialisers that are not integer literals: a cast (which may change the value), bitwise not, a method
                   \* call, a block, an if expression
                   "const_cast", "const_not", "const_method", "const_block", "const_if"}
\* a negated (or parenthesized) integer literal is still an integer literal: it must be generated with its value
Supported == {"const_neg", "const_paren"}
\* an adjacently tagged enum whose only data-carrying variant may be skipped: with the skip marker what is left is a unit enum
\* that carries tag / content (unsupported); without it the enum is an ordinary algebraic enum (supported)
SkipMakesUnsupported == {"tagged_enum_only_data_variant"}
Unsupported == TypeConstructs \cup ItemConstructs

\* where a skip marker can shelter the construct
Skippable(c) == \/ c.construct \in TypeConstructs /\ c.carrier \in {"field", "vfield", "payload", "sas_field"}
                \/ c.construct \in {"multi_tuple_variant", "multi_tuple_variant_one_kept", "untagged_enum_struct_variant",
                                    "untagged_enum_struct_variant_fields_skipped", "untagged_enum_empty_struct_variant"} \cup FlattenConstructs \cup SkipMakesUnsupported
Sheltered(c) == c.skip # "none" /\ Skippable(c) /\ c.construct \notin SkipMakesUnsupported
MustReject(c) == IF c.construct \in SkipMakesUnsupported THEN c.skip # "none" ELSE c.construct \in Unsupported /\ ~Sheltered(c)

\* an observed run conforms; value_ok: every constant in the output carries the value written in the source
Conforms(c, outcome, touched, value_ok) ==
    IF MustReject(c) THEN outcome = "error" /\ ~touched
    ELSE outcome = "ok" /\ value_ok
=============================================================================
