--------------------------- MODULE MC_C16_backends ---------------------------
(* Builder for C16, last step: the name typeshare computes is what every BACKEND prints as the wire name of the field / variant.   *)
(* An item under each rename_all rule whose members stand in every LAYOUT around one-word members that most rules leave alone     *)
(* (a backend that switches to an explicit key binding - CodingKeys, quoted properties, SerialName - as soon as one member needs   *)
(* it must do so wherever that member stands). Layer P: SerdeCase!Apply for every member (events of Trace_C16, one per member and   *)
(* language).                                                                                                                       *)
EXTENDS SerdeCase, TLC, Json
CONSTANTS Layouts
VARIABLE c
FieldIdents == << <<"u","s","e","r","_","n","a","m","e">>, <<"a","p","i","_","k","e","y","2">>, <<"x">> >>
VariantIdents == << <<"U","s","e","r","N","a","m","e">>, <<"A","p","i","K","e","y","2">>, <<"X">> >>
HeadW(pos) == IF pos = "field" THEN <<"h","e","a","d">> ELSE <<"H","e","a","d">>
Tail_(pos) == IF pos = "field" THEN <<"t","a","i","l">> ELSE <<"T","a","i","l">>
Init == c \in [pos : {"field", "variant"}, idx : 1..3, rule : Rules, layout : Layouts]
Next == UNCHANGED c
Subject == IF c.pos = "field" THEN FieldIdents[c.idx] ELSE VariantIdents[c.idx]
Members == CASE c.layout = "alone" -> <<Subject>>
             [] c.layout = "then_word" -> <<Subject, Tail_(c.pos)>>
             [] c.layout = "after_word" -> <<HeadW(c.pos), Subject>>
             [] c.layout = "between_words" -> <<HeadW(c.pos), Subject, Tail_(c.pos)>>
             [] c.layout = "two_subjects_then_word" -> <<Subject, (IF c.pos = "field" THEN FieldIdents ELSE VariantIdents)[(c.idx % 3) + 1], Tail_(c.pos)>>
RECURSIVE Str(_)
Str(s) == IF s = <<>> THEN "" ELSE s[1] \o Str(Tail(s))
Emit == PrintT(<<"REPLAY", ToJson([case |-> c, members |-> [k \in 1..Len(Members) |-> [ident |-> Str(Members[k]), expect |-> Str(Apply(c.rule, c.pos, Members[k]))]]])>>)
=============================================================================
