--------------------------- MODULE MC_C05_generics ---------------------------
(* Builder for C05, generic parameters: an item with N type parameters whose members use the parameters in every ORDER  *)
(* of first mention (a permutation of the declaration order), as a struct, as the struct variant of a tagged enum (whose  *)
(* fields live in a derived helper type that is declared with its own parameter list and referenced with an argument      *)
(* list) and as a generic alias of a generic struct. Layer P (Trace_C05 / TypeExpr!Conf): after substituting the argument  *)
(* list of every reference into the declaration it refers to, each member has the parameter it has in Rust - "generic     *)
(* arguments and generic parameters are preserved in order".                                                              *)
EXTENDS TLC, Json, Naturals, Sequences, FiniteSets
CONSTANTS MaxParams
VARIABLE c
Hosts == {"struct", "vfield", "alias_of_struct"}
Perms(n) == {p \in [1..n -> 1..n] : \A i, j \in 1..n : i # j => p[i] # p[j]}
Init == \E n \in 2..MaxParams : c \in [n : {n}, order : Perms(n), host : Hosts, wrap : {"direct", "vec", "option"}]
Next == UNCHANGED c
PName(i) == <<"P", "Q", "R", "S">>[i]
\* member k mentions parameter order[k]
Members == [k \in 1..c.n |-> [name |-> <<"m1", "m2", "m3", "m4">>[k], param |-> PName(c.order[k])]]
Emit == PrintT(<<"REPLAY", ToJson([case |-> c, params |-> [i \in 1..c.n |-> PName(i)], members |-> Members])>>)
=============================================================================
