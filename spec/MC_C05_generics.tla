--------------------------- MODULE MC_C05_generics ---------------------------
(* Builder for C05, generic parameters: an item with N type parameters whose members use the parameters in every ORDER  *)
(* of first mention (a permutation of the declaration order), as a struct, as the struct variant of a tagged enum (whose  *)
(* fields live in a derived helper type that is declared with its own parameter list and referenced with an argument      *)
(* list) and as a generic alias of a generic struct. Layer P (Trace_C05 / TypeExpr!Conf): after substituting the argument  *)
(* list of every reference into the declaration it refers to, each member has the parameter it has in Rust - "generic     *)
(* arguments and generic parameters are preserved in order".                                                              *)
EXTENDS TLC, Json, Naturals, Sequences, FiniteSets
CONSTANTS MaxParams
VARIABLE c
\* mention: which of the declared parameters the body of the item mentions. Rust accepts a parameter that the ALIASED type (or the
\* serialized_as type) does not mention (type Tagged<T, Tag> = Vec<T>; the typed-id pattern Id<T> serialized as String); every
\* reference to the item still carries one argument per declared parameter, so the declaration keeps the whole list, in order
\* (Trace_C05!DeclOk). alias_vec: type HostG<..> = Vec<P>; serialized_as: a struct generated as String (its parameters live in PhantomData members);
\* struct / vfield: the parameters no generated member mentions live in skipped PhantomData members
Hosts == {"struct", "vfield", "alias_of_struct", "alias_vec", "serialized_as"}
Mentions == {"all", "first", "last", "none"}
Perms(n) == {p \in [1..n -> 1..n] : \A i, j \in 1..n : i # j => p[i] # p[j]}
Id(n) == [i \in 1..n |-> i]
InScope(r) == /\ (r.mention # "all" => (r.order = Id(r.n) /\ r.wrap = "vec"))
              /\ (r.host = "alias_vec" => r.mention \in {"first", "last", "none"})
              /\ (r.host = "serialized_as" => r.mention = "none")
              /\ (r.host = "alias_of_struct" => r.mention = "all")
              /\ (r.host \in {"struct", "vfield"} => r.mention \in {"all", "first", "last"})
\* constraint: the item carries typeshare(swiftGenericConstraints = "..") for its LAST parameter only / for none: a constraint decorates a
\* parameter, it does not move it
Init == \E n \in 1..MaxParams : c \in {r \in [n : {n}, order : Perms(n), host : Hosts, wrap : {"direct", "vec", "option"}, mention : Mentions,
                                              constraint : {"none", "last"}] :
                                         InScope(r) /\ (r.mention = "all" => r.n >= 2)
                                         /\ (r.constraint # "none" => (r.host \in {"struct", "vfield"} /\ r.mention = "all" /\ r.wrap = "direct"))}
Next == UNCHANGED c
PName(i) == <<"P", "Q", "R", "S">>[i]
\* member k mentions parameter order[k]
Mentioned == CASE c.mention = "all" -> 1..c.n [] c.mention = "first" -> {1} [] c.mention = "last" -> {c.n} [] OTHER -> {}
Members == [k \in 1..c.n |-> [name |-> <<"m1", "m2", "m3", "m4">>[k], param |-> IF c.order[k] \in Mentioned THEN PName(c.order[k]) ELSE "-"]]
Emit == PrintT(<<"REPLAY", ToJson([case |-> c, params |-> [i \in 1..c.n |-> PName(i)], members |-> Members])>>)
=============================================================================
