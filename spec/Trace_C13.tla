------------------------------ MODULE Trace_C13 ------------------------------
(* Impl -> spec: each event is one guarded element (file / type / variant / field / variant      *)
(* field) of a program run through the real parser under a target list, with whether it was      *)
(* kept. TargetOs!Accept judges each event.                                                       *)
EXTENDS TargetOs, TLC, Json, IOUtils
Rec == ndJsonDeserialize(IOEnv.TRACE)
VARIABLES i, bad

ToSet(s) == {s[j] : j \in 1..Len(s)}
Ok(e) == e.kept = Accept(e.attrs, ToSet(e.targets))

Init == i = 1 /\ bad = <<>>
Next == /\ i <= Len(Rec)
        /\ bad' = IF Ok(Rec[i]) THEN bad ELSE Append(bad, i)
        /\ i' = i + 1
Report == (i = Len(Rec) + 1) => PrintT(<<"INFO", "bad", ToJson(bad)>>)
Accepted == PrintT(<<"INFO", "matched", TLCGet("stats").diameter - 1>>)
=============================================================================
