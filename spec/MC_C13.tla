------------------------------- MODULE MC_C13 -------------------------------
(* Exhaustive enumeration of cfg expressions up to Depth over the given leaves (children of      *)
(* any/all as unordered pairs or singletons - the rule is commutative), alone (Mode "single") or  *)
(* as two separate #[cfg] attributes (Mode "pair", both of depth <= PairDepth). Every state       *)
(* prints the expression with its decision for all 16 target lists over {a,b,c,d}, and TLC        *)
(* checks M = P on it.                                                                            *)
EXTENDS TargetOs, TLC, Json, SequencesExt
CONSTANTS Depth, PairDepth, OsLeaves, WithFeat, WithWord
VARIABLES attrs

M == INSTANCE M_TargetOsWalk

Targets == {"a", "b", "c", "d"}
Leaves == {[k |-> "os", v |-> o] : o \in OsLeaves}
            \cup (IF WithFeat THEN {[k |-> "feat"]} ELSE {}) \cup (IF WithWord THEN {[k |-> "word"]} ELSE {})

RECURSIVE E(_)
E(d) == IF d = 0 THEN Leaves
        ELSE LET S == E(d - 1)
                 q == SetToSeq(S)            \* any fixed order: children are unordered pairs i < j
             IN S \cup {[k |-> "not", cs |-> <<e>>] : e \in S}
                  \cup {[k |-> op, cs |-> <<e>>] : op \in {"any", "all"}, e \in S}
                  \cup UNION {{[k |-> op, cs |-> <<q[i], q[j]>>] : op \in {"any", "all"}, j \in (i+1)..Len(q)} : i \in 1..Len(q)}

Init == \/ \E e \in E(Depth) : attrs = <<e>>
        \/ \E e1 \in E(PairDepth), e2 \in E(PairDepth) : attrs = <<e1, e2>>
Next == UNCHANGED attrs

Decisions == [T \in SUBSET Targets |-> Accept(attrs, T)]
Bit(T) == (IF "a" \in T THEN 1 ELSE 0) + (IF "b" \in T THEN 2 ELSE 0) + (IF "c" \in T THEN 4 ELSE 0) + (IF "d" \in T THEN 8 ELSE 0)
\* decision vector as a sequence indexed by Bit(T)+1
Vec == [i \in 1..16 |-> LET T == CHOOSE t \in SUBSET Targets : Bit(t) = i - 1 IN Accept(attrs, T)]
MVec == [i \in 1..16 |-> LET T == CHOOSE t \in SUBSET Targets : Bit(t) = i - 1 IN M!MAccept(attrs, T)]

\* contents: WHAT the guarded member is. Where the rule drops a member, nothing about it is looked at any more - not even a construct
\* typeshare would otherwise refuse (serde(flatten), a u64, a tuple variant with several fields): the run succeeds without the member
Contents == {"flatten_field", "u64_field", "multi_tuple_variant", "flatten_vfield", "u64_item"}
Emit == PrintT(<<"REPLAY", ToJson([attrs |-> attrs, keep |-> Vec, predict |-> MVec, contents |-> Contents])>>)

\* theorems about the rule itself
Sane ==
    /\ Accept(attrs, {})                                                   \* nothing filtered without --target-os
    /\ (Rej(attrs) = {} /\ Acc(attrs) = {}) => \A T \in SUBSET Targets : Accept(attrs, T)
    /\ \A T \in SUBSET Targets : \A t \in Targets \ (Rej(attrs) \cup Acc(attrs)) :
          (T # {} /\ T # {t}) => (Accept(attrs, T) <=> Accept(attrs, T \ {t}))   \* unnamed OSes do not matter
ModelAgrees == Vec = MVec
=============================================================================
