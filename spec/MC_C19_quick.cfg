CONSTANTS
  Kinds = {"named_struct", "tuple_struct", "unit_struct", "enum", "union", "generic_struct", "alias", "const", "struct_len_if", "struct_len_block", "struct_len_index", "alias_union_path", "const_union_path", "named_struct_via_macro"}
  OuterArgs = {"bare", "swift"}
  Helpers = {"skip", "serialized_as", "stacked", "stacked_apart", "lang"}
  Mixes = {"none", "serde", "cfg_attr", "docs_after"}
  MaxPos = 4
INIT Init
NEXT Next
INVARIANT Emit
CHECK_DEADLOCK FALSE
