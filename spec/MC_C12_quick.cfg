CONSTANTS
  Names = {"kotlin_override", "plain", "py_keyword", "renamed", "kw_all"}
  Triggers = {"unit", "u8", "u32", "U53", "datetime", "generic_param", "mapped_bytes", "mapped_date", "user_enum"}
  Wrappers = {"vec", "option", "mapv", "array", "garg", "box"}
  MaxDepth = 2
  Positions = {"field", "field_default", "vfield_default", "payload", "alias", "vfield"}
  Modes = {"single"}
INIT Init
NEXT Next
INVARIANT Emit
CHECK_DEADLOCK FALSE
