CONSTANTS
  Depth = 2
  PrimLeaves = {"bool", "char", "String", "u8", "u32", "I54", "U53", "f64", "unit"}
  Wrappers = {"Box"}
  MapKeys = {"String", "u32", "User"}
  ExtraDepth = 0
INIT Init
NEXT Next
INVARIANTS Emit Sane
CHECK_DEADLOCK FALSE
