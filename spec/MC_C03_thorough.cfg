CONSTANTS
  Lookalikes = {"none", "skip_serializing", "skip_deserializing", "skip_serializing_if"}
  Twins = {"none", "sibling"}
  Modes = {"single", "multi"}
  Kinds = {"struct", "newtype_struct", "unit_struct", "unit_enum", "tagged_enum", "alias", "const"}
  Annotations = {"none", "plain", "path", "args", "abs_path", "spaced"}
  Nestings = {"top", "mod1", "mod2", "fn_body", "impl_block", "cfg_mod", "const_block", "const_init_value", "static_block", "nested_blocks_in_fn", "trait_default_fn", "closure_in_fn", "mod_in_fn"}
  SkipSets = {"none", "first", "middle", "last", "first_last", "all_but_middle", "all"}
  SkipSpellings = {"serde_skip", "typeshare_skip", "serde_after_word", "serde_after_kv", "typeshare_after_kv", "serde_before_kv", "both", "separate_attr"}

INIT Init
NEXT Next
INVARIANT Emit
CHECK_DEADLOCK FALSE
