------------------------------- MODULE MC_C12 -------------------------------
(* Builder for C12: a trigger type at depth 0..MaxDepth under containers, at every position,       *)
(* alone or together with a second trigger, in single- or multi-file mode.                           *)
EXTENDS Helpers, TLC, Json
CONSTANTS Triggers, Wrappers, MaxDepth, Positions, Modes
VARIABLE c
Chains == UNION {[1..n -> Wrappers] : n \in 0..MaxDepth}
Init == c \in [trigger : Triggers, chain : Chains, pos : Positions, second : Triggers \cup {"none"}, mode : Modes]
Next == UNCHANGED c
\* the deepest chains are explored with the trigger alone, folder mode with chains of length <= 1 (the helper logic looks at
\* the type expression, not at the mode; the mode decides where the shared helper file goes)
InScope == /\ c.second # c.trigger /\ (c.pos = "const" => c.chain = <<>>)
           /\ (Len(c.chain) >= 3 => c.second = "none")
           /\ (c.mode = "multi" => Len(c.chain) <= 1)
Emit == InScope => PrintT(<<"REPLAY", ToJson(c)>>)
=============================================================================
