------------------------------- MODULE MC_C12 -------------------------------
(* Builder for C12: a trigger type at depth 0..MaxDepth under containers, at every position,       *)
(* alone or together with a second trigger, in single- or multi-file mode.                           *)
EXTENDS Helpers, TLC, Json
CONSTANTS Triggers, Wrappers, MaxDepth, Positions, Modes, Names
VARIABLE c
Chains == UNION {[1..n -> Wrappers] : n \in 0..MaxDepth}
\* name: how the member that carries the trigger is called: plain (f) / py_keyword (`from`: Python writes from_ and an alias, which
\* needs Field whatever the type is) / renamed (serde(rename): an alias again) / kw_all (EVERY member of the item is a keyword, no other
\* member asks for the helper) / kotlin_override (the member carries typeshare(kotlin(type = "String")): an override for one language
\* changes nothing for the others)
Init == c \in [trigger : Triggers, chain : Chains, pos : Positions, second : Triggers \cup {"none"}, mode : Modes, name : Names]
Next == UNCHANGED c
\* the deepest chains are explored with the trigger alone, folder mode with chains of length <= 1 (the helper logic looks at
\* the type expression, not at the mode; the mode decides where the shared helper file goes)
InScope == /\ (c.name # "plain" => (c.chain = <<>> /\ c.second = "none" /\ c.pos \in {"field", "vfield", "field_default"}))
           /\ c.second # c.trigger /\ (c.pos = "const" => c.chain = <<>>)
           /\ (Len(c.chain) >= 3 => c.second = "none")
           /\ (c.mode = "multi" => Len(c.chain) <= 1)
Emit == InScope => PrintT(<<"REPLAY", ToJson(c)>>)
=============================================================================
