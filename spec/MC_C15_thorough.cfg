CONSTANTS
  Alphabet = {"TXT", "NL", "CRLF", "CR", "SL", "NLSL", "NLBC", "BCCR", "BC", "BO", "LC", "TDQ", "DDQ", "QDQ", "PDQ", "TSQ", "BS", "HASH", "BT", "DQ", "AMPNL", "AMPXA", "BSN", "PCTNL", "UNL"}
  MaxLen = 3
INIT Init
NEXT Next
INVARIANT Emit
CHECK_DEADLOCK FALSE
