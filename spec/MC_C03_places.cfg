CONSTANTS
  Places = {"second_root", "third_root", "deep6", "dir_tests", "mod_rs", "main_rs", "build_rs", "space_name", "dotted_name", "nonascii_dir", "upper_dir", "no_src", "symlink_file", "sibling_prefix_root", "prefix_crate_dirs", "ann_abs_path_alone", "ann_spaced_alone", "ann_path_alone", "bad_item_arrives_first", "bad_item_arrives_middle", "bad_item_arrives_last", "bad_vfield_item", "bad_payload_item", "bad_alias_item", "second_run"}
  Modes = {"single", "multi"}
  Langs = {"typescript", "kotlin"}
INIT Init
NEXT Next
INVARIANT Emit
CHECK_DEADLOCK FALSE
