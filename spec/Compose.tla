------------------------------- MODULE Compose -------------------------------
(* Layer P, a law over RUNS rather than over one item: what a run generates for an item is a function of that item, of the items it  *)
(* refers to and of the configuration - not of the other items that happen to be generated in the same run, before or after it.       *)
(* (A backend keeps state while it writes a file: import sets, helper flags, caches, "already seen" sets. The law says that none of    *)
(* that state reaches the definition of an unrelated item.) The law is stated per FACET of the observed definition, so that each        *)
(* property judges what it is about:                                                                                                    *)
(*     keys      the JSON key bound to every member                                   (C01)                                            *)
(*     wires     the wire string of every variant, tag and content keys                (C02)                                            *)
(*     optional  the optional marker of every member                                   (C04)                                            *)
(*     types     the target type tree of every member / payload / alias target         (C05)                                            *)
(* alone = the facet read from the run that generates the item by itself; together = read from a run with neighbours.                   *)
Independent(alone, together) == alone = together
=============================================================================
