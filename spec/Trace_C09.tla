------------------------------ MODULE Trace_C09 ------------------------------
(* Impl -> spec: each event is one reference site in a real generated file: the target item, the  *)
(* prefix in force for that language, the name written at the site and all definition names of     *)
(* the file.                                                                                         *)
EXTENDS Names, TLC, Json, IOUtils, Naturals
Rec == ndJsonDeserialize(IOEnv.TRACE)
VARIABLES i, bad
Ok(e) == CASE e.site = "param" -> ParamOk(e.param, e.ref)
           [] e.site = "helper" -> HelperOk(e.ref, e.defs)
           [] OTHER -> RefOk(e.target, e.prefix, e.ref, e.defs)
Init == i = 1 /\ bad = <<>>
Next == /\ i <= Len(Rec)
        /\ bad' = IF Ok(Rec[i]) THEN bad ELSE Append(bad, i)
        /\ i' = i + 1
Report == (i = Len(Rec) + 1) => PrintT(<<"INFO", "bad", ToJson(bad)>>)
Accepted == PrintT(<<"INFO", "matched", TLCGet("stats").diameter - 1>>)
=============================================================================
