------------------------------ MODULE Trace_C14 ------------------------------
(* Impl -> spec: each event is one folder-output run of the real binary on a workspace: for every   *)
(* generated file its definitions, the user types it uses and its imports; where P says each type     *)
(* must live; the definitions of the single-file run on the same sources.                             *)
EXTENDS Workspace, TLC, Json, IOUtils
Rec == ndJsonDeserialize(IOEnv.TRACE)
VARIABLES i, bad
AllDefs(files) == LET RECURSIVE A(_) A(k) == IF k = 0 THEN <<>> ELSE A(k-1) \o files[k].defs IN A(Len(files))
SameMultiset(a, b) == /\ Len(a) = Len(b)
                      /\ \A x \in ToSet(a) \cup ToSet(b) :
                            Cardinality({k \in 1..Len(a) : a[k] = x}) = Cardinality({k \in 1..Len(b) : b[k] = x})
\* helper definitions a backend adds (Swift's CodableVoid, written to the shared Codable.swift in folder mode): the folder run defines
\* the helpers the single-file run defines
HelpersOk(e) == ("helpers_single" \in DOMAIN e) => ToSet(e.helpers_single) = ToSet(e.helpers_folder)
Ok(e) == /\ PartitionOk(e.files, e.expected)
         /\ SameMultiset(AllDefs(e.files), e.single_defs)
         /\ HelpersOk(e)
         /\ (e.lang \in {"typescript", "kotlin"} => ImportsOk(e.files, e.designated))
Init == i = 1 /\ bad = <<>>
Next == /\ i <= Len(Rec)
        /\ bad' = IF Ok(Rec[i]) THEN bad ELSE Append(bad, i)
        /\ i' = i + 1
Report == (i = Len(Rec) + 1) => PrintT(<<"INFO", "bad", ToJson(bad)>>)
Accepted == PrintT(<<"INFO", "matched", TLCGet("stats").diameter - 1>>)
=============================================================================
