INIT Init
NEXT Next
INVARIANTS Emit Refines
CHECK_DEADLOCK FALSE
