CONSTANTS
  Existings = {"config", "empty", "blank", "non_utf8", "not_toml", "utf16", "symlink", "one_byte"}
  Targets = {"default", "flag", "flag_nested"}
INIT Init
NEXT Next
INVARIANT Emit
CHECK_DEADLOCK FALSE
