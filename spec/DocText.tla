------------------------------- MODULE DocText -------------------------------
(* Layer P for C15: doc text stays inside comments. The generated file is abstracted (by the       *)
(* harness, symbol by symbol, no interpretation) to a stream over                                     *)
(*   NL (LF or CR LF)  CR (a carriage return NOT followed by LF)  LC (`//`)  BO (`/*`)  BC (`*/`)  TDQ (three double quotes)  TSQ (three single quotes)        *)
(*   DQ (`"`)  SQ (`'`)  BS (backslash)  HASH (`#`)  BT (back-tick)  DOC (a byte that came from a     *)
(*   doc comment)  X (anything else)                                                                  *)
(* and this module runs the comment/string lexer of the target language over it. Every DOC symbol     *)
(* must be consumed in a comment (or Python docstring) state and the file must end with nothing open. *)
EXTENDS Naturals, Sequences

Nested(lang) == lang \in {"kotlin", "swift", "scala"}           \* block comments nest
CFamily(lang) == lang \in {"typescript", "kotlin", "swift", "scala", "go"}

\* a lone carriage return ends a line in every target language except Go (JavaScript LineTerminator, Kotlin / Scala / Swift
\* line-break, Python universal newlines); Go's only newline is LF
LineEnd(lang, s) == s = "NL" \/ (s = "CR" /\ lang # "go")

\* state: [m |-> mode, d |-> block comment depth, esc |-> previous symbol was an escaping backslash]
\* modes: code, line, block, dq, sq, bt, hash, tdq, tsq
Start == [m |-> "code", d |-> 0, esc |-> FALSE]
CommentModes == {"line", "block", "hash", "tdq", "tsq"}

StepC(lang, st, s) ==
    CASE st.m = "code" ->
            (CASE s = "LC" -> [st EXCEPT !.m = "line"]
               [] s = "BO" -> [st EXCEPT !.m = "block", !.d = 1]
               [] s = "DQ" -> [st EXCEPT !.m = "dq"]
               [] s = "TDQ" -> st                                  \* "" followed by " : an empty string and an open one
               [] s = "SQ" /\ lang = "typescript" -> [st EXCEPT !.m = "sq"]
               [] s = "BT" /\ lang \in {"go", "typescript", "swift"} -> [st EXCEPT !.m = "bt"]
               [] OTHER -> st)
      [] st.m = "line" -> IF LineEnd(lang, s) THEN [st EXCEPT !.m = "code"] ELSE st
      [] st.m = "block" ->
            (CASE s = "BC" -> IF st.d = 1 THEN [st EXCEPT !.m = "code", !.d = 0] ELSE [st EXCEPT !.d = st.d - 1]
               [] s = "BO" /\ Nested(lang) -> [st EXCEPT !.d = st.d + 1]
               [] OTHER -> st)
      [] st.m \in {"dq", "sq"} ->
            (IF st.esc THEN [st EXCEPT !.esc = FALSE]
             ELSE CASE s = "BS" -> [st EXCEPT !.esc = TRUE]
                    [] (s = "DQ" /\ st.m = "dq") \/ (s = "SQ" /\ st.m = "sq") -> [st EXCEPT !.m = "code"]
                    [] LineEnd(lang, s) -> [st EXCEPT !.m = "error"]       \* unterminated string literal
                    [] OTHER -> st)
      [] st.m = "bt" -> IF s = "BT" THEN [st EXCEPT !.m = "code"] ELSE st
      [] OTHER -> st

StepPy(st, s) ==
    CASE st.m = "code" ->
            (CASE s = "HASH" -> [st EXCEPT !.m = "hash"]
               [] s = "TDQ" -> [st EXCEPT !.m = "tdq"]
               [] s = "TSQ" -> [st EXCEPT !.m = "tsq"]
               [] s = "DQ" -> [st EXCEPT !.m = "dq"]
               [] s = "SQ" -> [st EXCEPT !.m = "sq"]
               [] OTHER -> st)
      [] st.m = "hash" -> IF s \in {"NL", "CR"} THEN [st EXCEPT !.m = "code"] ELSE st
      [] st.m \in {"tdq", "tsq"} ->
            (IF st.esc THEN [st EXCEPT !.esc = FALSE]
             ELSE CASE s = "BS" -> [st EXCEPT !.esc = TRUE]
                    [] (s = "TDQ" /\ st.m = "tdq") \/ (s = "TSQ" /\ st.m = "tsq") -> [st EXCEPT !.m = "code"]
                    [] OTHER -> st)
      [] st.m \in {"dq", "sq"} ->
            (IF st.esc THEN [st EXCEPT !.esc = FALSE]
             ELSE CASE s = "BS" -> [st EXCEPT !.esc = TRUE]
                    [] (s = "DQ" /\ st.m = "dq") \/ (s = "SQ" /\ st.m = "sq") -> [st EXCEPT !.m = "code"]
                    [] s \in {"NL", "CR"} -> [st EXCEPT !.m = "error"]
                    [] OTHER -> st)
      [] OTHER -> st

Step(lang, st, s) == IF CFamily(lang) THEN StepC(lang, st, s) ELSE StepPy(st, s)

\* run the lexer; result: [ok |-> every DOC was met in a comment mode, st |-> final state, first |-> index of the first escaped DOC or 0]
RECURSIVE Run(_, _, _, _, _)
Run(lang, stream, i, st, acc) ==
    IF i > Len(stream) THEN [ok |-> acc = 0, st |-> st, first |-> acc]
    ELSE LET s == stream[i]
             bad == s = "DOC" /\ st.m \notin CommentModes
         IN Run(lang, stream, i + 1, Step(lang, st, s), IF bad /\ acc = 0 THEN i ELSE acc)

Safe(lang, stream) == LET r == Run(lang, stream, 1, Start, 0) IN
    /\ r.ok
    /\ r.st.m \in {"code", "line", "hash"}          \* nothing left open at end of file
=============================================================================
