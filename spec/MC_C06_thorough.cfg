CONSTANTS
  NFiles = 4
  Templates = {"S", "SEA", "C", "SC", "Conly", "TieS", "TieE", "Ref", "Ren", "Bad"}
  SortConsts = TRUE
INIT Init
NEXT Next
INVARIANT Emit
CHECK_DEADLOCK FALSE
