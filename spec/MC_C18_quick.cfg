CONSTANTS Radius = 64
INIT Init
NEXT Next
INVARIANTS Emit Sane
CHECK_DEADLOCK FALSE
