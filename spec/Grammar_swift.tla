----------------------------- MODULE Grammar_swift -----------------------------
(* The declaration subset of Swift that typeshare emits. Function and initialiser bodies are         *)
(* balanced blocks; everything that declares a name is parsed, and a reserved word used as a name      *)
(* without back-ticks is not an identifier (token class kw:..).                                       *)
EXTENDS GrammarBase
Soft == {"sw:indirect", "sw:get", "sw:set", "sw:mutating", "sw:some", "sw:any"}
IsId(ts, p) == AtAny(ts, p, {"id"} \cup Soft)
Id(ts, p) == IF IsId(ts, p) THEN p + 1 ELSE 0
\* type names: identifiers plus the few reserved type words
IsTypeName(ts, p) == IsId(ts, p) \/ AtAny(ts, p, {"kw:Any", "kw:Self"})

RECURSIVE Type(_, _), TypeArgs(_, _), Opts(_, _), TypeList(_, _), Members(_, _), CaseItems(_, _)
Opts(ts, p) == IF At(ts, p, "?") THEN Opts(ts, p + 1) ELSE p
TypeArgs(ts, p) == LET q == Type(ts, p) IN IF q = 0 THEN 0 ELSE IF At(ts, q, ",") THEN TypeArgs(ts, q + 1) ELSE Eat(ts, q, ">")
Type(ts, p) ==
    IF At(ts, p, "[") THEN
        LET q == Type(ts, p + 1) IN
        IF q = 0 THEN 0 ELSE Opts(ts, IF At(ts, q, ":") THEN Eat(ts, Type(ts, q + 1), "]") ELSE Eat(ts, q, "]"))
    ELSE IF IsTypeName(ts, p) THEN
        LET RECURSIVE Dotted(_) Dotted(q) == IF At(ts, q, ".") /\ IsTypeName(ts, q + 1) THEN Dotted(q + 2) ELSE q
            q == Dotted(p + 1)
        IN Opts(ts, IF At(ts, q, "<") THEN TypeArgs(ts, q + 1) ELSE q)
    ELSE 0
\* Type (& Type)* (, Type (& Type)*)*
TypeList(ts, p) == LET q == Type(ts, p) IN
    IF q = 0 THEN 0 ELSE IF At(ts, q, ",") \/ At(ts, q, "&") THEN TypeList(ts, q + 1) ELSE q
GenericParams(ts, p) == IF At(ts, p, "<") THEN
        LET RECURSIVE G(_) G(q) == LET r == Id(ts, q)
                                       RECURSIVE Bounds(_) Bounds(x) == LET y == Type(ts, x) IN IF y = 0 THEN 0 ELSE IF At(ts, y, "&") THEN Bounds(y + 1) ELSE y
                                       r2 == IF At(ts, r, ":") THEN Bounds(r + 1) ELSE r
                                   IN IF r2 = 0 THEN 0 ELSE IF At(ts, r2, ",") THEN G(r2 + 1) ELSE Eat(ts, r2, ">") IN G(p + 1)
    ELSE p
Inherits(ts, p) == IF At(ts, p, ":") THEN TypeList(ts, p + 1) ELSE p
Access(ts, p) == IF AtAny(ts, p, {"kw:public", "kw:private", "kw:internal", "kw:fileprivate", "kw:open"}) THEN p + 1 ELSE p
\* ( [label] name: Type , ... )  - p after "("; labels/names may be any word (`from decoder`, `to encoder`)
RECURSIVE Params(_, _)
\* Swift allows every reserved word except inout / var / let as an argument label
LabelWords == {"kw:import", "kw:struct", "kw:enum", "kw:class", "kw:protocol", "kw:extension", "kw:func", "kw:case", "kw:init", "kw:self", "kw:Self",
               "kw:static", "kw:public", "kw:private", "kw:internal", "kw:fileprivate", "kw:open", "kw:throws", "kw:rethrows", "kw:try", "kw:catch", "kw:throw",
               "kw:if", "kw:else", "kw:switch", "kw:default", "kw:return", "kw:for", "kw:while", "kw:repeat", "kw:in", "kw:is", "kw:as", "kw:nil", "kw:true",
               "kw:false", "kw:where", "kw:guard", "kw:defer", "kw:do", "kw:break", "kw:continue", "kw:fallthrough", "kw:typealias", "kw:associatedtype",
               "kw:subscript", "kw:operator", "kw:deinit", "kw:super", "kw:Any", "_"}
IsWord(ts, p) == IsId(ts, p) \/ AtAny(ts, p, LabelWords)
Params(ts, p) ==
    IF At(ts, p, ")") THEN p + 1
    ELSE LET a == IF IsWord(ts, p) THEN p + 1 ELSE 0
             b == IF IsWord(ts, a) THEN a + 1 ELSE a
             c == Type(ts, Eat(ts, b, ":"))
         IN IF c = 0 THEN 0 ELSE IF At(ts, c, ",") THEN Params(ts, c + 1) ELSE Eat(ts, c, ")")
\* --- statements of function and initialiser bodies. Newlines are not tokens: a statement ends where no postfix / binary
\* continuation is possible, which is unambiguous for the statement forms below.
AnyWord(ts, p) == IsWord(ts, p) \/ AtAny(ts, p, {"kw:let", "kw:var", "kw:inout"})       \* after `.` every word is a member name
RECURSIVE Expr(_, _), PostfixTail(_, _), ArgList(_, _), Stmts(_, _), Stmt(_, _), Conds(_, _), Cases(_, _), CaseBody(_, _), Patterns(_, _), IfStmt(_, _), Bindings(_, _)
Primary(ts, p) ==
    IF At(ts, p, "(") THEN Eat(ts, Expr(ts, p + 1), ")")
    ELSE IF At(ts, p, ".") THEN (IF AnyWord(ts, p + 1) THEN p + 2 ELSE 0)                 \* implicit member: .content
    ELSE IF At(ts, p, "[") THEN Type(ts, p)                                                \* [T].self
    ELSE IF AtAny(ts, p, {"num", "str", "kw:nil", "kw:true", "kw:false", "kw:self", "kw:Self", "kw:super"}) THEN p + 1
    ELSE IF IsTypeName(ts, p) THEN LET t == Type(ts, p) IN IF t > p + 1 /\ At(ts, t, ".") THEN t ELSE p + 1     \* Pair<A, B>.self
    ELSE 0
Args(ts, p) == IF At(ts, p, ")") THEN p + 1 ELSE ArgList(ts, p)
ArgList(ts, p) == LET a == IF AnyWord(ts, p) /\ At(ts, p + 1, ":") THEN p + 2 ELSE p
                      e == Expr(ts, a)
                  IN IF e = 0 THEN 0 ELSE IF At(ts, e, ",") THEN ArgList(ts, e + 1) ELSE Eat(ts, e, ")")
PostfixTail(ts, p) ==
    IF At(ts, p, ".") THEN (IF AnyWord(ts, p + 1) THEN PostfixTail(ts, p + 2) ELSE 0)
    ELSE IF At(ts, p, "(") THEN PostfixTail(ts, Args(ts, p + 1))
    ELSE IF At(ts, p, "?") \/ At(ts, p, "!") THEN PostfixTail(ts, p + 1)
    ELSE IF At(ts, p, "[") THEN PostfixTail(ts, Eat(ts, Expr(ts, p + 1), "]"))
    ELSE p
Expr(ts, p) ==
    LET a == IF At(ts, p, "kw:try") THEN (IF At(ts, p + 1, "?") \/ At(ts, p + 1, "!") THEN p + 2 ELSE p + 1) ELSE p
        b == PostfixTail(ts, Primary(ts, a))
    IN IF AtAny(ts, b, {"==", "!=", "&&", "||", "??", "+"}) THEN Expr(ts, b + 1) ELSE b
Bindings(ts, p) == LET b == Id(ts, IF AtAny(ts, p, {"kw:let", "kw:var"}) THEN p + 1 ELSE p)
                   IN IF At(ts, b, ",") THEN Bindings(ts, b + 1) ELSE Eat(ts, b, ")")
Pattern(ts, p) == IF At(ts, p, ".") /\ AnyWord(ts, p + 1) THEN (IF At(ts, p + 2, "(") THEN Bindings(ts, p + 3) ELSE p + 2) ELSE Expr(ts, p)
Patterns(ts, p) == LET a == Pattern(ts, p) IN IF a = 0 THEN 0 ELSE IF At(ts, a, ",") THEN Patterns(ts, a + 1) ELSE a
Conds(ts, p) == LET c == IF AtAny(ts, p, {"kw:let", "kw:var"}) THEN Expr(ts, Eat(ts, Id(ts, p + 1), "=")) ELSE Expr(ts, p)
                IN IF c = 0 THEN 0 ELSE IF At(ts, c, ",") THEN Conds(ts, c + 1) ELSE c
IfStmt(ts, p) == LET b == Stmts(ts, Eat(ts, Conds(ts, p + 1), "{")) IN
                 IF At(ts, b, "kw:else") THEN (IF At(ts, b + 1, "kw:if") THEN IfStmt(ts, b + 1) ELSE Stmts(ts, Eat(ts, b + 1, "{"))) ELSE b
CaseBody(ts, p) == IF p = 0 THEN 0
                   ELSE IF AtAny(ts, p, {"kw:case", "kw:default", "}"}) THEN Cases(ts, p)
                   ELSE CaseBody(ts, Stmt(ts, p))
Cases(ts, p) ==               \* p after "{" of a switch, or at the next case
    IF At(ts, p, "}") THEN p + 1
    ELSE IF At(ts, p, "kw:case") THEN CaseBody(ts, Eat(ts, Patterns(ts, p + 1), ":"))
    ELSE IF At(ts, p, "kw:default") THEN CaseBody(ts, Eat(ts, p + 1, ":"))
    ELSE 0
Stmt(ts, p) ==
    IF AtAny(ts, p, {"kw:let", "kw:var"}) THEN
        LET n == Id(ts, p + 1) IN Expr(ts, Eat(ts, IF At(ts, n, ":") THEN Type(ts, n + 1) ELSE n, "="))
    ELSE IF At(ts, p, "kw:if") THEN IfStmt(ts, p)
    ELSE IF At(ts, p, "kw:switch") THEN Cases(ts, Eat(ts, Expr(ts, p + 1), "{"))
    ELSE IF At(ts, p, "kw:return") THEN (IF AtAny(ts, p + 1, {"}", "kw:case", "kw:default"}) THEN p + 1 ELSE Expr(ts, p + 1))
    ELSE IF At(ts, p, "kw:throw") THEN Expr(ts, p + 1)
    ELSE LET e == Expr(ts, p) IN IF At(ts, e, "=") THEN Expr(ts, e + 1) ELSE e
Stmts(ts, p) == IF At(ts, p, "}") THEN p + 1 ELSE IF p = 0 THEN 0 ELSE LET q == Stmt(ts, p) IN IF q = 0 THEN 0 ELSE Stmts(ts, q)    \* p after "{"
FuncTail(ts, p) ==            \* [throws] [-> Type] { statements }
    LET a == IF AtAny(ts, p, {"kw:throws", "kw:rethrows"}) THEN p + 1 ELSE p
        b == IF At(ts, a, "->") THEN Type(ts, a + 1) ELSE a
    IN Stmts(ts, Eat(ts, b, "{"))
\* case a(T) = "x", b, `default`
CaseItems(ts, p) ==
    LET a == Id(ts, p)
        b == IF At(ts, a, "(") THEN Eat(ts, Type(ts, a + 1), ")") ELSE a
        c == IF At(ts, b, "=") THEN Eat(ts, b + 1, "str") ELSE b
    IN IF c = 0 THEN 0 ELSE IF At(ts, c, ",") THEN CaseItems(ts, c + 1) ELSE c

RECURSIVE TypeDecl(_, _)
Members(ts, p) ==             \* until "}" (consumed)
    IF At(ts, p, "}") THEN p + 1
    ELSE LET a == Access(ts, p) IN
         LET q == IF AtAny(ts, a, {"kw:let", "kw:var"}) THEN
                        LET t == Type(ts, Eat(ts, Id(ts, a + 1), ":")) IN
                        IF At(ts, t, "{") THEN Block(ts, t, "{", "}") ELSE t          \* computed property
                  ELSE IF At(ts, a, "kw:case") THEN CaseItems(ts, a + 1)
                  ELSE IF At(ts, a, "kw:init") THEN FuncTail(ts, Params(ts, Eat(ts, a + 1, "(")))
                  ELSE IF At(ts, a, "kw:func") THEN FuncTail(ts, Params(ts, Eat(ts, Id(ts, a + 1), "(")))
                  ELSE TypeDecl(ts, a)
         IN IF q = 0 THEN 0 ELSE Members(ts, q)
TypeDecl(ts, p) ==            \* struct / [indirect] enum / typealias / extension, p after the access modifier
    LET a == IF At(ts, p, "sw:indirect") THEN p + 1 ELSE p IN
    IF AtAny(ts, a, {"kw:struct", "kw:enum", "kw:class"}) THEN Members(ts, Eat(ts, Inherits(ts, GenericParams(ts, Id(ts, a + 1))), "{"))
    ELSE IF At(ts, a, "kw:typealias") THEN Type(ts, Eat(ts, GenericParams(ts, Id(ts, a + 1)), "="))
    ELSE IF At(ts, a, "kw:extension") THEN Members(ts, Eat(ts, Inherits(ts, Type(ts, a + 1)), "{"))
    ELSE IF AtAny(ts, a, {"kw:let", "kw:var"}) THEN       \* top-level constant
        LET t == Type(ts, Eat(ts, Id(ts, a + 1), ":")) IN IF At(ts, t, "=") /\ AtAny(ts, t + 1, {"num", "str"}) THEN t + 2 ELSE 0
    ELSE 0
RECURSIVE Imports(_, _), Decls(_, _)
Imports(ts, p) == IF At(ts, p, "kw:import") THEN
        LET RECURSIVE Q(_) Q(q) == LET r == Id(ts, q) IN IF r = 0 THEN 0 ELSE IF At(ts, r, ".") THEN Q(r + 1) ELSE r IN
        LET q == Q(p + 1) IN IF q = 0 THEN 0 ELSE Imports(ts, q)
    ELSE p
Decls(ts, p) == IF End(ts, p) THEN TRUE ELSE LET q == TypeDecl(ts, Access(ts, p)) IN IF q = 0 THEN FALSE ELSE Decls(ts, q)
Accepts(ts) == LET b == Imports(ts, 1) IN b > 0 /\ Decls(ts, b)
=============================================================================
