CONSTANTS
  N = 3
  PermN = 5
INIT Init
NEXT Next
INVARIANTS Emit ModelOk
CHECK_DEADLOCK FALSE
