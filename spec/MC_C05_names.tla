---------------------------- MODULE MC_C05_names ----------------------------
(* Builder for C05, "user types keep their name": a user type whose NAME a naming option of the run re-spells where it is      *)
(* DECLARED (Go uppercase_acronyms, the Swift / Kotlin prefix, serde(rename) on the type), referenced from every POSITION of a    *)
(* type expression (alone, element, optional, map key, map value, only / first / last argument of a user generic, nested).         *)
(* Layer P (Trace_C05 / TypeExpr!Conf with cfg.renames = the name the declaration is OBSERVED under): every reference is written   *)
(* with the name of the declaration, whatever follows it in the target type.                                                       *)
EXTENDS TLC, Json
CONSTANTS Names, Positions, Namings
VARIABLE c
\* Names: AccountId / UrlInfo / IdUrl / HttpApi end in, start with or consist of configured acronyms; Identity only looks like one;
\*        Plain has none
\* Namings: none / go_acronyms (ID, URL, API) / prefix (Swift, Kotlin) / serde_rename (the type carries serde(rename = "<Name>Dto"))
Init == c \in [name : Names, pos : Positions, naming : Namings]
Next == UNCHANGED c
Emit == PrintT(<<"REPLAY", ToJson(c)>>)
=============================================================================
