CONSTANTS
  Files = {"f1", "f2", "f3"}
  Workers = {"w1", "w2"}
  Cap = 1
  ResultKinds = {"ok"}
  OutOf <- OutSingle
  SingleFile = TRUE
  GenKinds = {"ok"}
  Visits <- VisitsF1Twice
  Dedupe = "per_worker"
  Items <- ItemsDistinct
SPECIFICATION Spec
INVARIANTS TypeOk ExitOk NoWriteWithErrors WroteOk NoPanicExit CleanSucceeds Deterministic
PROPERTY Terminates
CHECK_DEADLOCK FALSE
