CONSTANTS
  Variants = {"v_unit", "v_newtype", "v_newtype_opt", "v_struct", "v_struct_ruled", "v_renamed", "v_skip", "v_vec", "v_struct_cont", "v_struct_renamed_field"}
  Rules = {"none", "camelCase", "kebab-case"}
  FieldRules = {"none", "SCREAMING_SNAKE_CASE"}
INIT Init
NEXT Next
INVARIANT Emit
CHECK_DEADLOCK FALSE
