---------------------------- MODULE Trace_Pipeline ----------------------------
(* Impl -> spec: the event log of ONE real run of the typeshare binary (cfg(typeshare_verif)      *)
(* points, numbered under a global lock) is checked to be a behaviour of Pipeline. The first       *)
(* record is a header {files, workers, cap}; the harness appends the process outcome as the last   *)
(* event. Logged steps are bound to Pipeline's actions; steps inside `ignore` that cannot be       *)
(* logged (get_work, idling, quit flag, the channel enqueue) are silent steps of the trace spec.    *)
(* Every layer-P invariant of Pipeline is evaluated in every state of the real execution.          *)
EXTENDS Naturals, Sequences, FiniteSets, TLC, Json, IOUtils

Rec == ndJsonDeserialize(IOEnv.TRACE)
Header == Rec[1]
ToSet(s) == {s[j] : j \in 1..Len(s)}
TFiles == ToSet(Header.files)
TWorkers == ToSet(Header.workers)
Ev == SubSeq(Rec, 2, Len(Rec))

VARIABLES result, pool, quitMsgs, seenG, seenW, wpc, wfile, active, quitNow, chan, rxOpen, col, acc, txMain, main, genres, todo, wrote, l

\* Header.out_of: source file -> the output file its items go to; Header.single: -o (TRUE) or -d (FALSE)
P == INSTANCE Pipeline WITH Files <- TFiles, Workers <- TWorkers, Cap <- Header.cap,
                            ResultKinds <- {"none", "ok", "bad", "err", "panic"},
                            Items <- [f \in TFiles |-> <<>>],
                            OutOf <- [f \in TFiles |-> Header.out_of[f]], SingleFile <- Header.single,
                            GenKinds <- {"ok", "generr"},
                            Visits <- [f \in TFiles |-> IF "visits" \in DOMAIN Header THEN Header.visits[f] ELSE 1], Dedupe <- "none"

pvars == <<result, pool, quitMsgs, seenG, seenW, wpc, wfile, active, quitNow, chan, rxOpen, col, acc, txMain, main, genres, todo, wrote>>

\* what the log says about a file's parse result constrains the (otherwise unknown) result function
LoggedKinds(f) == {Ev[j].detail : j \in {k \in 1..Len(Ev) : Ev[k].ev = "Parsed" /\ Ev[k].file = f}}
Compatible(f, r) == LET ks == LoggedKinds(f) IN
    IF ks = {} THEN TRUE
    ELSE \A k \in ks : CASE k = "ok" -> r \in {"ok", "bad"} [] k = "none" -> r = "none" [] k = "err" -> r = "err" [] OTHER -> FALSE

TInit == /\ P!Init
         /\ \A f \in TFiles : Compatible(f, result[f])
         /\ l = 1
         /\ TLCSet(7, 1)

Is(e) == l <= Len(Ev) /\ Ev[l].ev = e
Consume == l' = l + 1
Stutter == UNCHANGED pvars

\* ---- logged steps
TParsed == /\ Is("Parsed") /\ Consume
           /\ LET w == Ev[l].w IN wpc[w] = "parse" /\ wfile[w] = Ev[l].file /\ P!Parse(w)
TSendStart == /\ Is("SendStart") /\ Consume /\ Stutter
              /\ LET w == Ev[l].w IN wpc[w] = "send" /\ wfile[w] = Ev[l].file
TSendEnd == /\ Is("SendEnd") /\ Consume
            /\ LET w == Ev[l].w IN
                 \/ wpc[w] = "sent" /\ wfile[w] = Ev[l].file /\ P!SendRet(w)
                 \/ \* the Err result could not be delivered (receiver gone): the hook still logs the return
                    Ev[l].detail = "err" /\ wpc[w] = "quit" /\ ~rxOpen /\ Stutter
TRecv == /\ Is("Recv") /\ Consume
         /\ chan # <<>> /\ (Ev[l].file = "" \/ Head(chan) = Ev[l].file)
         /\ (Ev[l].detail = "err") = (result[Head(chan)] = "err")
         /\ P!Recv
TFold == /\ Is("Fold") /\ Consume /\ Stutter /\ col = "run" /\ acc # <<>>
TCollectorExit == /\ Is("CollectorExit") /\ Consume
                  /\ IF col = "run" THEN P!ColEnd ELSE (col = "retErr" /\ Stutter)
TWalkDone == /\ Is("WalkDone") /\ Consume /\ main = "walking" /\ P!ScopeEnd /\ main' = "joincol"
TJoined == /\ Is("Joined") /\ Consume /\ Stutter /\ main = "joincol" /\ col = "retOk"
TReconciled == /\ Is("Reconciled") /\ Consume /\ Stutter
               /\ main = "joincol" /\ col = "retOk"
               /\ (Ev[l].detail # "0") = P!HasErrors
\* an output handed to the writer (written, or found unchanged): only in the generation stage - i.e. after ALL parse errors
\* have been checked -, every output at most once, and only an output some accepted file contributes to. The ORDER in which
\* outputs are written is not part of any property: any output still to do may come next.
InTodo(o) == \E k \in 1..Len(todo) : todo[k] = o
TWrite == /\ (Is("Write") \/ Is("WriteSkip")) /\ Consume
          /\ main = "generate" /\ InTodo(Ev[l].file) /\ genres[Ev[l].file] = "ok"
          /\ wrote' = wrote \cup {Ev[l].file}
          /\ todo' = SelectSeq(todo, LAMBDA x : x # Ev[l].file)
          /\ UNCHANGED <<result, pool, quitMsgs, seenG, seenW, wpc, wfile, active, quitNow, chan, rxOpen, col, acc, txMain, main, genres>>
TWritten == /\ Is("Written") /\ Consume /\ Stutter /\ main = "generate" /\ todo = <<>>
\* the generation stage may end the run early: a backend refuses an output still to do (exit 1), or the main thread panics
\* (exit 101) after a successful join. P judges those states too.
GenFails(code) == /\ main = "generate"
                  /\ (code = "exit1" => \E k \in 1..Len(todo) : genres[todo[k]] = "generr")
                  /\ main' = code
                  /\ UNCHANGED <<result, pool, quitMsgs, seenG, seenW, wpc, wfile, active, quitNow, chan, rxOpen, col, acc, txMain, genres, todo, wrote>>
TExit == /\ Is("Exit") /\ Consume
         /\ CASE Ev[l].detail = "0" -> main = "generate" /\ P!GenDone /\ main' = "exit0"
              [] Ev[l].detail = "1" -> (main = "joincol" /\ P!JoinCol /\ main' = "exit1") \/ (main = "generate" /\ P!GenDone /\ main' = "exit1")
                                          \/ GenFails("exit1")
              [] Ev[l].detail = "101" -> (main = "walking" /\ P!ScopeEnd /\ main' = "exit101") \/ GenFails("exit101")
              [] OTHER -> FALSE

\* ---- silent steps (bounded: they only move program counters forward or idle/wake; finite state)
Silent == /\ UNCHANGED l
          /\ \/ \E w \in TWorkers :
                   \/ P!GetWork(w) \/ P!IdleWake(w) \/ P!Quit(w) \/ P!Send(w)
                   \/ (wpc[w] = "parse" /\ result[wfile[w]] = "panic" /\ P!Parse(w))
             \/ (main = "joincol" /\ col = "retOk" /\ ~P!HasErrors /\ P!JoinCol)        \* check_parse_errors passed: on to generation

TNext == TParsed \/ TSendStart \/ TSendEnd \/ TRecv \/ TFold \/ TCollectorExit \/ TWalkDone \/ TJoined
            \/ TReconciled \/ TWrite \/ TWritten \/ TExit \/ Silent
TSpec == TInit /\ [][TNext]_<<pvars, l>>

\* highest position reached by any explored behaviour (register 7); acceptance = the whole log was consumed
Track == TLCSet(7, IF l > TLCGet(7) THEN l ELSE TLCGet(7))
MaxConstraint == IF l > TLCGet(7) THEN TLCSet(7, l) ELSE TRUE
Accepted == PrintT(<<"INFO", "matched", TLCGet(7) - 1>>) /\ PrintT(<<"INFO", "bad", "[]">>)

\* layer P, evaluated on the real execution
PTypeOk == P!TypeOk
PExitOk == P!ExitOk
PNoPanicExit == P!NoPanicExit
PCleanSucceeds == P!CleanSucceeds
PNoWriteWithErrors == P!NoWriteWithErrors
PWroteOk == P!WroteOk
=============================================================================
