#!/bin/bash
# Run once after a fresh restore, offline: builds the harness driver and the hooked typeshare binary,
# and parses every TLA+ module. Checks rebuild incrementally from /repo's working tree on every run.
set -e
cd "$(dirname "$(readlink -f "$0")")"
export CARGO_NET_OFFLINE=true
python3 - <<'PY'
from vlib import common
common.build_driver()
common.build_cli()
PY
cd spec
for f in *.tla; do
  case "$f" in Trace_*|MC_*|[A-Z]*) tla-sany "$f" > /tmp/sany.$$ 2>&1 || { cat /tmp/sany.$$; rm -f /tmp/sany.$$; echo "SANY failed on $f"; exit 1; } ;; esac
done
rm -f /tmp/sany.$$
echo "setup ok"
