#!/usr/bin/env python3
"""Writes /verif/MANIFEST.json from the table below (single source of truth for the interface)."""
import json, os
ROOT = os.path.dirname(os.path.dirname(os.path.abspath(__file__)))
ALL = [f"C{i:02d}" for i in range(1, 21)]

CHECKS = {
 "C16": dict(
    technique="TLA+ spec of serde's rename rules (SerdeCase.tla); TLC enumerates all identifiers over class representatives and each is replayed through the real parser; recorded renames of dictionary/random identifiers are validated by TLC (Trace_C16.tla)",
    text="Exhaustive small-scope model-based testing: TLC enumerates every identifier up to length 4 (quick) / 7 (thorough) over one representative per character class, computes serde's expected name for 8 rules + an unknown rule in field and variant position from the TLA+ transcription of serde_derive's case.rs, and every case is executed on the real parser. The transcription itself is cross-checked on the same identifiers against the vendored original case.rs. In the other direction real renames of ~1500 dictionary identifiers and random long identifiers are recorded and judged by TLC. The rename code is a finite-state transducer with lookback 1, so class-representative enumeration to length 7 covers every transition sequence it can take.",
    note="Trusted: TLC; the TLA+ transcription of case.rs (cross-checked against the vendored serde_derive 1.0.214 source on every case); Id.renamed in ParsedData is the name every backend prints. Known finding (snapshot-pinned): field-position snake/kebab family splits words at uppercase letters.",
    design_ref="6/C16"),
 "C18": dict(
    technique="TLA+ spec of the safe-integer ranges over limb arithmetic (SafeInt.tla) with the limb<->integer bridge lemma discharged by Apalache; TLC enumerates all boundary neighbourhoods and each value is replayed through every real U53/I54 constructor; random draws validated by TLC (Trace_C18.tla)",
    text="TLC enumerates every value within 64 (quick) / 4096 (thorough) of each power of two 2^0..2^64 in both signs - which covers the four limits, zero, and every narrow-type boundary - and computes from SafeInt.tla what each constructor/conversion must do (accept, reject, not applicable, value preserved, order with successor). Each value is executed on the real typeshare::{U53,I54} (TryFrom, From narrow, TryFrom to narrow, serde_json integer and float-shaped literals, Display, f64 and JSON round trips, usize_from_u53_saturated, cmp/eq). Random values stratified by bit length (6k quick / 200k thorough) plus comparison pairs are judged by TLC as trace events. Apalache proves over unbounded integers that the limb predicates equal the integer predicates of the property.",
    note="Trusted: TLC, Apalache/Z3 for the bridge lemma, decimal-string transport of 64-bit values, Rust's own `as f64` for the IEEE-754 round trip. The 10^7 random draws of the quantifier are sampled at 200k in the thorough tier (trace validation speed).",
    design_ref="6/C18"),
 "C13": dict(
    technique="TLA+ spec of the documented --target-os rule (TargetOs.tla) and a TLA+ model of the stack walk (M_TargetOsWalk.tla) checked equal by TLC on every enumerated cfg expression; every (expression, target list, level) replayed through the real parser and CLI; random deeper expressions validated by TLC (Trace_C13.tla)",
    text="TLC enumerates every cfg expression over any/all/not up to depth 2 over {a,b,c,feature,unix} (quick) / depth 3 over {a,b,feature} (thorough), plus every split into two #[cfg] attributes, computes the accept decision for all 16 target lists over {a,b,c,d} from the documented rule, and checks that the model of TargetOsIterator agrees. Each (expression, target list) is attached as file inner attribute, on struct/enum/alias/const, on a variant, a field and a struct-variant field, and run through the real parser; unguarded siblings must survive. Random expressions to depth 5 with up to three attributes are judged by TLC as trace events; a stratified subset goes through the real binary with --target-os.",
    note="Trusted: TLC; presence is read from ParsedData for the library runs and from generated TypeScript (extractor) for the CLI runs. The --target-os separator (space vs comma) is not part of the property.",
    design_ref="6/C13"),
 "C11": dict(
    technique="TLA+ spec of 'permutation + linear extension' (Topsort.tla) and a TLA+ model of toposort_impl/sort_by_indices (M_Topsort.tla) model-checked over all small digraphs and permutations; the same graphs/permutations replayed into the real private functions through the cfg hook, programs with every reference placement generated in 5 languages, all recorded orders validated by TLC (Trace_C11.tla)",
    text="TLC checks on every digraph with 3 (quick) / 4 (thorough) nodes incl. self loops, in ascending and descending neighbour order, that the model of toposort_impl yields a permutation and a linear extension of acyclic graphs, and that the model of sort_by_indices realises every index permutation up to 5 / 7. The same inputs are executed on the real toposort_impl and sort_by_indices (hook) and the results judged by TLC. Every two-item program A->B with the reference written in every carrier (field, newtype variant, struct-variant field, alias, const) x container (direct, Vec, Option, map key/value, array, slice, generic argument, unknown generic, nested generic) x B renamed? x kind of B is generated for TypeScript, Kotlin, Swift, Go and Python; the line of each definition is read back and TLC checks 'each item exactly once, and complete before anything that uses it starts'. Random programs of 3..12 items (DAG and cyclic) extend this beyond the enumerated space.",
    note="Trusted: TLC; extractors for definition positions; an item's group = main definition + helper structs of its struct variants. Known finding: references to serde-renamed types are invisible to the ordering (snapshot-pinned). Fixed: 1dc1d80.",
    design_ref="6/C11"),
 "C07": dict(
    technique="TLA+ model of the walker/channel/collector/main protocol (Pipeline.tla) model-checked with fairness over all schedules; TLC counter-example schedules replayed on the real binary through gate hooks; edge-of-grammar inputs enumerated by TLC (MC_C07) and run under a watchdog; every run's event log trace-validated against the model with the layer-P invariants evaluated at each step (Trace_Pipeline.tla)",
    text="Constructs include supported programs whose dependency walk re-enters a generic type several times (generic tree, generic enum with two self references, mutually recursive generics), non-ASCII type names, and runs without any package option (MC_C07 `packages`; for Go / Scala MC_C07!Expect = configuration error naming the option). TLC explores every interleaving of 3 files x 2 walker threads x channel capacity 1 for every assignment of parse results (none/ok/item-errors/Err/panic) and checks termination (under weak fairness), no-panic exit, exit-code/diagnostic consistency and 'a clean tree succeeds'. A reachability query yields the schedule 'a result is sent after the collector has gone'; it is projected to gate points and forced on the real binary (this is how the SendError panic, fixed in e0dfe05, was reproduced), and the run's own event log is validated against the model. 38 edge constructs x 6 languages x single/multi-file (x 4 companion-file sets in thorough) run on the real binary under a 10 s watchdog; outcome must be exit 0 with output or exit != 0 with a diagnostic naming the file. A corpus of random supported programs (all item kinds, recursion, generics, renames, overrides; 300 quick / 3000 thorough x 6 languages) runs through the library under catch_unwind with abort isolation.",
    note="Trusted: TLC; the hooks' event placement (binding demonstrated by rejecting corrupted/dropped events); a run alive after 10 s is a hang. Model-level finding kept in evidence: a panic inside a walker thread would hang the process (needs an input that panics; none is known after fixes 47370c3, cdfed7c, 284909f, 436a798). Known findings: const in Kotlin/Swift (todo!()), empty tree in single-file mode, generation-time errors do not name the file.",
    design_ref="6/C07"),
 "C06": dict(
    technique="TLA+ model of the fold-in-arrival-order / stable-sort data path (DataPath.tla inside Pipeline.tla) model-checked for determinism over all schedules; every arrival permutation of TLC-enumerated source trees forced on the real binary through the arrival-order hook; free runs over thread counts, fresh processes and file re-splits; all runs judged by TLC as trace events (Trace_C06.tla)",
    text="File templates include a module of nothing but constants (no marker struct); trees with two same-named definitions are additionally judged in sub-classes that keep the tied files' relative arrival order fixed, so every other feature of such trees is still decided. TLC checks on Pipeline.tla that for every interleaving of 3 files x 2 workers the emitted item sequence equals the one of a canonical arrival order (holds for structs/enums/aliases/consts with distinct names; violated for same-name-same-kind items, which is the known finding). MC_C06 enumerates every tree of 3 (quick) / 4 (thorough, plus 6-file trees with all 720 orders) files over seven file templates together with every arrival permutation and the model's prediction; each permutation is forced on the real binary with TYPESHARE_VERIF_ORDER in single- and multi-file mode, languages rotated. Free runs vary the walker thread count 1..16, repeat fresh processes on a tree that hits the import-fallback hash-iteration site, and re-split the same items over files (one file, one file per item, by kind, reversed). Every run is one event (class, sha256 of all output bytes); Trace_C06 requires all events of a class to agree.",
    note="Trusted: TLC; sha256 of output files; the arrival-order hook buffers all results before folding (keyed by a marker struct at the top of each file). Hash seeds are sampled (12 / 40 processes), not enumerated. Known finding: same-name-same-kind duplicates follow arrival order. Fixed: 1d75015 (consts unsorted), 6f56816 (HashMap iteration in import fallback).",
    design_ref="6/C06"),
 "C17": dict(
    technique="TLA+ model of the compare-then-write store (Writer.tla) model-checked over all run histories; TLC-enumerated histories executed with the real binary into one output location; the snapshot after every run validated against the spec's Idempotent/Fresh by TLC (Trace_Writer.tla)",
    text="TLC checks on Writer.tla, for every history of up to 4 runs over 4 abstract source versions (type changed, file disappears, helper file appears/disappears, an output becomes empty), that a re-run with unchanged sources changes neither content nor mtime and that every path the last run is responsible for holds the content a run into an empty location produces; with the pre-fix helper-file behaviour switched on TLC shows the Idempotent violation that was then reproduced on the real binary (fixed in 21da1da). MC_Writer enumerates every history up to 3 (quick) / 5 (thorough) runs; each maximal history is executed with the real binary, swapping the source tree between runs (type renamed/removed, moved between crates, unit type introduced/removed), in single- and multi-file mode for TypeScript and Swift (quick) / all six languages (thorough). After every run the output location is snapshotted (sha256, mtime_ns) and the whole history is judged by TLC.",
    note="Trusted: TLC; sha256 + st_mtime_ns snapshots with >= 3 ms between runs; the fresh reference is produced by the same binary into an empty directory. Files that no run of the latest version writes (stale leftovers) are outside the property as stated.",
    design_ref="6/C17"),
 "C20": dict(
    technique="TLA+ spec of configuration precedence and of -g (Config.tla); TLC enumerates the full option x file matrix with the required effective settings and checks the model of override_configuration against it; every cell run on the real binary (generation per language, -g, reload, second -g) and judged by TLC (Trace_C20.tla)",
    text="Discoveries include -c <file> next to a decoy typeshare.toml in the working directory / its parent: the named file is the configuration. TLC enumerates all 1024 cells of {option absent/present} x {key absent/present} for swift-prefix, kotlin-prefix, java-package, scala-package and go-package, with the effective value per setting required by 'command line, else file, else default', and checks that the model of override_configuration agrees on every cell. Cells (a systematic slice with every single- and all-settings combination in quick; all cells x 4 discoveries in thorough) are executed with the real binary: typeshare.toml is written (found by -c or by ancestor search from cwd / parent / grandparent), generation is run for every language exposing a setting, the prefix/package is read back from the generated code; -g is run with the same options and its TOML parsed, then reloaded with no options, and a second -g must fail leaving the file intact. File-only tables (type_mappings for 6 languages, Swift default_decorators / default_generic_constraints, Go uppercase_acronyms / no_pointer_slice) are in every file and must show up unchanged in the output.",
    note="Trusted: TLC; extractors for reading prefix/package/mapped names; tomllib. -g is read as 'effective settings of its own invocation over the defaults' (no file is consulted when one is being created). Scala/Go cells without any package are skipped (typeshare refuses them; C07 covers missing packages).",
    design_ref="6/C20"),
 "C01": dict(
    technique="TLA+ spec of serde's field naming (SerdeAttrs.tla on SerdeCase.tla); TLC enumerates container x identifier x rename x rename_all x enum-level rule x attribute spelling with the required JSON keys; every case generated in 6 languages and the key bound to each member read back; dictionary/random fields validated by TLC (Trace_C01.tla)",
    text="TLC enumerates every combination of container kind (struct, struct variant of a tagged enum), field identifier (plain, raw, target keyword, underscore edges), serde(rename) (none, plain, dashed, keyword), the 8 rename_all rules + none on the struct / on the variant, an enum-level rename_all that must NOT reach variant fields, and attribute spellings (merged, stacked attributes, rename not first, mixed with doc/cfg), and prints the JSON key serde uses for the field and for a plain neighbour field. Each case is generated for all 6 languages (Swift/Kotlin also with a type prefix) through the real library; extractors report for every member the key carried by the explicit binding (quoted property, @SerialName, CodingKeys raw value, json tag, Field alias) or else the identifier. In the other direction ~400 (quick) / 4000 (thorough) dictionary field names with random renames and rules are generated and every observed member is judged by TLC.",
    note="Trusted: TLC; SerdeCase.tla (cross-checked against vendored serde_derive in C16); the extractors' notion of 'key'. Scala carries no binding: keys containing '-' are out of scope for Scala (rule stated in Trace_C01). Outputs the extractors cannot read (invalid target code) are counted and left to C10.",
    design_ref="6/C01"),
 "C02": dict(
    technique="TLA+ spec of serde's variant naming and tag/content keys (SerdeAttrs.tla); TLC enumerates enums over identifier x rename x payload kind x rename_all x tag/content pair x plain/recursive/generic with the required wire strings; every case generated in 6 languages and every occurrence of each wire string and key read back; random dictionary enums validated by TLC (Trace_C02.tla)",
    text="TLC enumerates unit enums and adjacently tagged enums whose variant under test ranges over identifier shape (single letter, word, camel, digit, acronym run, all caps), per-variant serde(rename) (none, plain, dashed), payload (unit, newtype, struct), the 8 rename_all rules + none, several tag/content key pairs, and plain / self-recursive / generic enums, next to fixed neighbours; P gives the wire string of every variant and the tag and content keys. The 6 backends' outputs are read back: the wire string of every case (all places it is written), every occurrence of the tag key (TypeScript shape, Swift ContainerCodingKeys and each forKey:, Go struct tags of carrier/Unmarshal/Marshal, Python tag fields) and of the content key; Kotlin and Scala are judged on names and content key only. Random enums of 1..6 dictionary-named variants with mixed payloads are judged by TLC as trace events (exactly one case per variant, each wire equal, every key occurrence equal).",
    note="Trusted: TLC; SerdeCase.tla; extractors (which fold each backend's enum encoding into one definition and raise on internally inconsistent encoders). Backends that refuse a case (generic enums in Go) are skipped for that case.",
    design_ref="6/C02"),
 "C04": dict(
    technique="TLA+ spec of optionality (SerdeAttrs!Optional over TypeExpr!IsOpt); TLC enumerates wrapping shape x payload type x serde(default) spelling with the required marker; every case generated at 4 positions in 6 languages; the observed marker and the type under it (compared with the same backend's rendering of the plain type) judged by TLC (Trace_C04.tla)",
    text="Payload types include OffsetDateTime (custom-translated in Python; refused by Kotlin / Swift / Scala). TLC enumerates the wrapping shape (T, Option<T>, Option<Option<T>>, Box<Option<T>>, Option<Box<T>>, Arc<Option<Option<T>>>, &Option<T>, Vec<Option<T>>) x T (primitives, containers, user type, generic parameter, unit, generic instance) x the spelling of serde(default) (absent, bare, merged with rename, separate attribute, after other attributes, and the non-bare `default = \"path\"`), and prints whether P requires the optional marker. Each case is generated as struct field, struct-variant field, newtype payload and alias in all 6 languages. The extractors report the language idiom (TS `?`, Kotlin `? = null`, Swift `?`, Scala Option[..] = None, Go omitempty / pointer payload, Python Optional with default None / nullable payload); TLC checks per event: marker present iff required, the type under the marker equals what the same backend prints for the plain core type (so the marker changed nothing), and TypeScript struct fields keep Option<Option<T>> as `?` plus `| null`. Random trees with random spellings extend the enumeration.",
    note="Trusted: TLC; extractors' reading of each language's optional idiom. Only the bare `default` counts, as the property says. Known finding: Scala prints `= _` for default on a non-Option field (snapshot-pinned).",
    design_ref="6/C04"),
 "C05": dict(
    technique="TLA+ spec of structural type translation with a primitive category/capacity table and mappings (TypeExpr.tla); TLC enumerates all type expressions to depth 2/3 and checks structural theorems of the spec; every tree generated at 4 positions in 6 languages under 3 configurations; every observed target type tree judged by TLC (Trace_C05.tla)",
    text="Configurations (MC_C05!Configs): no mapping, mapping, Swift/Kotlin prefix, and prefix together with a mapping (a mapped name is never prefixed). TLC enumerates every Rust type expression up to depth 2 (quick, 1.4k trees) / 3 (thorough) over primitives, user types and generic parameters closed under Vec, [T;N], &[T], Option, HashMap (String/u32/user keys), Box/Arc, references, path qualification and generic instances, and checks on each that references and all 11 smart pointers disappear, that the three sequence forms coincide and that Option survives pointers. Each tree is placed as struct field, struct-variant field, newtype payload and alias target and generated in 6 languages: without mapping, with a type mapping User->MappedT, and (Swift/Kotlin) with a prefix. The observed target type tree of every position is judged by TypeExpr!Conf: same constructor structure at every depth, generic arguments and parameters in order, parameters never prefixed, user types prefixed, mapped types replaced everywhere without arguments, and every primitive leaf of the same JSON category with capacity for all values (table TargetPrim; Scala's unsigned aliases are resolved through the aliases the file defines). Random trees of depth 4-5 over all 15 primitives and 8 smart pointers extend the enumeration.",
    note="Trusted: TLC; extractors' type parsers; the TargetPrim table (Go int = 32 bits; Swift Unicode.Scalar counted as string-like). Known findings: TypeScript loses Option nested in containers / double options outside struct fields; Scala unsigned aliases are signed (ULong = Int); Go char -> rune. Container-instance mappings (\"Vec<u8>\") are not exercised yet.",
    design_ref="6/C05"),
 "C03": dict(
    technique="TLA+ spec of which definitions and members a set of items must produce (Program.tla ExpectedDefs); TLC enumerates item kind x annotation spelling x nesting x skipped-member set x skip spelling; every program generated in 6 languages and the definitions/members/variant fields/leftovers found in each output judged by TLC (Trace_C03.tla)",
    text="Every case is generated in single-file AND in folder-output mode (MC_C03 `mode`). TLC enumerates the item under test - struct, newtype struct, unit struct, unit enum, tagged enum (newtype + struct + unit variants), alias, const - x annotation spelling (none, #[typeshare], #[typeshare::typeshare], with arguments) x nesting (top level, mod, mod in mod, fn body; thorough adds impl block and cfg'd mod) x which members carry a skip marker (incl. the fields of the struct variant) x 3 (quick) / 8 (thorough) spellings of the marker (serde / typeshare / both, first / after a bare word / after a key=value / in a separate attribute), next to an annotated neighbour and an un-annotated decoy. For each output the harness lists every definition with its members (by JSON key / wire string, in order), the fields of each struct variant (inline in TypeScript, helper struct elsewhere) and any definition that belongs to no annotated item; TLC checks: one definition per annotated item, exactly the non-skipped members in source order, nothing else. A supported program that is rejected is a violation; consts in Kotlin/Swift/Scala must be rejected, not dropped. Random programs of 2..7 items extend the enumeration.",
    note="Trusted: TLC; extractors; helper structs named <Enum><Variant>Inner are attributed to their enum. Fixed: 2d0dc35 (Scala silently dropped consts).",
    design_ref="6/C03"),
 "C08": dict(
    technique="TLA+ spec of what must be rejected and when a skip marker shelters it (Reject.tla); TLC enumerates construct x carrier position x container chain x skip marker; each program run through the real library and, next to a pre-existing output file, through the real binary; every run judged by TLC (Trace_C08.tla)",
    text="Constructs include `tagged_enum_only_data_variant`: a skip marker on the only data-carrying variant leaves a unit enum that carries tag / content (Reject!SkipMakesUnsupported). TLC enumerates the type-level unsupported constructs (u64, i64, usize, isize, tuples incl. nested) at every carrier position (struct field, struct-variant field, newtype payload, alias target, const type, serialized_as on a field and on a type) through every chain of Vec / Option / HashMap key / HashMap value / Box / array / slice / generic argument up to length 1 (quick) / 3 (thorough), with and without serde(skip) / typeshare(skip) on the enclosing field or variant, plus 16 item-level constructs (multi-field tuple struct / variant, serde(flatten) on struct and struct-variant fields, data-carrying enums missing tag and/or content, tag/content on unit enums, consts that are strings, floats, booleans, paths or arithmetic; negated and parenthesized integer literals must be generated with their value). P: rejected iff not sheltered; a failing run touches no output. The error side runs through the library once and through the real binary (languages rotated) beside a pre-existing output file whose sha256 and mtime must survive; the sheltered side must generate in all 6 languages. Random chains up to depth 5 extend the enumeration.",
    note="Trusted: TLC; rejection is decided in the shared parser, so the error side is not repeated for every language in the library runs. Fixed: f02e16b (flatten in struct variants), e9e1c5a (const expressions mis-read).",
    design_ref="6/C08"),
 "C09": dict(
    technique="TLA+ spec of definition names and reference conformance (Names.tla); TLC enumerates target kind x renamed? x prefix; every program generated in 6 languages; every reference site found in an output, with the file's definition names, judged by TLC (Trace_C09.tla)",
    text="Cases run in single-file and folder mode; in folder mode another crate may define a type with the same Rust identifier, plain or carrying its own serde(rename) (MC_C09 `mode`, `elsewhere`). TLC enumerates the target type - struct, generic struct, unit enum, tagged enum with a struct variant, alias, self-recursive struct, self-recursive enum - with and without serde(rename), with and without a Swift/Kotlin prefix, next to a second (possibly renamed) type, and gives the name P requires (prefix + rename-or-ident). Fixed hosts reference the target from every position: plain field, Vec / Option / HashMap value / HashMap key / array element, generic argument, a nested chain, alias target, newtype payload (plain and in a Vec), struct-variant fields, and the target's own self references. For each output the harness collects every reference site (the user-type leaf of the observed type tree), the supertype of every variant (Kotlin/Scala), the helper struct named at each struct-variant use, the generic parameter; TLC checks that each reference is spelled with the required name, that this name is defined exactly once in the file, that helper names used are defined, and that generic parameters are never prefixed or renamed.",
    note="Trusted: TLC; extractors' type trees and definition names. Known finding: Go defines serde-renamed aliases and enums under the original name (snapshot-pinned). Fixed: 830075e (generic types), 1991718 (Kotlin/Scala).",
    design_ref="6/C09"),
 "C12": dict(
    technique="TLA+ spec of the helper vocabulary and the defined-or-imported rule (Helpers.tla); TLC enumerates trigger type x container chain x position x second trigger x mode; every program generated in 6 languages (multi-file through the real binary); each generated file judged by TLC (Trace_C12.tla); Python files additionally imported by CPython under a stub pydantic with type hints forced",
    text="Positions include fields and struct-variant fields carrying serde(default). TLC enumerates the triggering Rust type ((), u8/u16/u32/U53, OffsetDateTime, a generic parameter, Vec<u8> mapped to a bytes-like type, a mapped date type, a user enum) at depth 0..2 (quick) / 0..3 (thorough) under Vec / Option / HashMap value / array / generic argument / Box, as struct field, newtype payload, alias target, struct-variant field or generic argument, alone or with a second trigger elsewhere in the file. Every program is generated in 6 languages; for each file the extractor lists every identifier used outside comments/strings/imports, every name defined or imported and the helper definitions; TLC checks that each used name from the language's helper vocabulary (Swift CodableVoid; Scala UByte/UShort/UInt/ULong; Python typing/pydantic/enum/datetime names, TypeVars of the generic parameters in use, custom (de)serialiser functions; Go package qualifiers time/json) is provided. Multi-file mode runs the real binary on two crates in both crate-name orders and adds the names defined by Swift's shared Codable.swift. Python outputs are also imported by CPython under a stub pydantic with every class's type hints forced; an unresolved helper name there is reported.",
    note="Trusted: TLC; extractors' identifier scan; the stub pydantic (names and call shapes only). TypeScript's ReviverFunc/ReplacerFunc are definitions for the user, never used by generated code, so nothing is demanded of them (an earlier over-demanding rule was removed as a false alarm). Fixed: 4bf29f2 (Scala nested unsigned), f3c53ac (Python generic alias).",
    design_ref="6/C12"),
 "C15": dict(
    technique="TLA+ spec of each target language's comment/string lexer as a state machine (DocText.tla) with a TLA+ model of the backends' comment wrappers (MC_C15!Wrapped) whose counter-examples are the injections; TLC enumerates all doc texts up to 2/3 tokens; each attached in 3 styles to 7 positions, generated in 6 languages; every generated file, abstracted to lexer symbols, judged by TLC (Trace_C15.tla)",
    text="TLC enumerates every doc text of up to 2 (quick) / 3 (thorough) tokens over {ordinary text, line break, */, /*, //, triple double quotes, (triple single quotes), backslash, #, back-tick, double quote}, and predicts per language with a model of the backend's comment wrapper whether the text escapes. Each text is written as `///` lines, as a /** */ block and as #[doc = \"..\"] (block and attribute forms carry line breaks inside one comment entry) on a type, a field, a variant, a struct-variant field, an alias, a unit-enum variant and a tagged enum, every doc token followed by a marker, and generated in 6 languages. The harness abstracts each generated file, statelessly, to a stream of lexer symbols in which marker bytes are DOC; TLC runs the language's comment/string lexer (line comments, nesting or non-nesting block comments, strings with escapes, Python # comments and triple-quoted strings) over it and requires every DOC to be consumed in a comment/docstring state and nothing left open at end of file. The harness's own lexers are run on the same files as a cross-check of the TLA+ lexers.",
    note="Trusted: TLC; the stateless symbol abstraction; markers identify doc bytes. Presence of the doc text in the output is not demanded (only containment). Fixed: db7690c (line breaks in Kotlin/Swift/Scala/Go), 1544cd8 (TypeScript */), d419ad3 (Python docstrings and # comments).",
    design_ref="6/C15"),
 "C14": dict(
    technique="TLA+ spec of crate-based file placement, file naming and import obligations (Workspace.tla); TLC enumerates workspaces over use/path form x directory name x file depth x renamed target x same-named type elsewhere; each run with the real binary in folder and single-file mode for 6 languages (+ Kotlin with a prefix); each folder run judged by TLC (Trace_C14.tla)",
    text="A third crate may define a same-named type, plain or with its own serde(rename); a name the source designates as the crate's own type (crate:: / super:: / self:: path) must not be imported from elsewhere (Workspace!ImportsOk). TLC enumerates workspaces in which a consumer crate references a provider type through `use c::m::T`, a grouped use, a nested use with `self`, a glob, `use .. as`, a qualified path in the field type, crate:: / super:: / self:: paths, a use of the crate's own module, and a qualified generic with a qualified argument; the provider directory is plain, dashed or contains digits (file names: dashes to underscores, Swift PascalCase), the consumer file sits at several depths under src, the target may carry serde(rename), and a third crate may define a type of the same name. P gives the file each type must be written to. The real binary is run in folder mode and in single-file mode for all 6 languages and for Kotlin with a prefix; per generated file the extractors give definitions, the user types used and the imports. TLC checks: every type defined exactly once, in the required file; the multiset of definitions equals the single-file run's; and for TypeScript/Kotlin every used type defined in another generated file is imported from that file (the one the source designates when several define the name), and no import names something its module does not define.",
    note="Trusted: TLC; extractors; TypeScript `./x` and Kotlin `pkg.x.T` imports both denote crate x's generated file. Fixed: 9a3634b (glob-only use), e99f637 (imports of renamed types), 16b290f (Kotlin import prefix).",
    design_ref="6/C14"),
 "C10": dict(
    technique="executable TLA+ grammars (GrammarBase.tla + Grammar_{ts,kt,swift,scala,go}.tla: recursive-descent recognisers evaluated by TLC, incl. statement grammars for Swift and Go method bodies, delimiter balance, reserved words are not identifiers); TLC enumerates the printers' choice points (MC_C10.tla: item kind x member count x naming x type feature x decoration x docs x configuration, with the languages in scope); every generated file and every snapshot expectation file is an event judged by TLC (Trace_C10.tla); Python by CPython compile + import under stub pydantic (verdict carried in the event)",
    text="Configurations include folder-output mode with a second crate whose types are imported (import lines are judged by the grammars); quick = every pair, thorough = every triple of non-base values over the six dimensions. TLC enumerates one subject item per case: 15 item kinds (structs, generic / unit / newtype / tuple structs, aliases, unit and algebraic enums with newtype / struct / mixed variants, dashed and keyword tag keys, const) x 0..3 members x naming (plain, Swift / Python / shared keywords, keyword type name, dashed keys, keyword next to dashed members, rename_all kebab / SCREAMING, leading digit, quote, single letter) x type feature of the first member (option, nested containers, map, user, generic, per-language override, serialized_as, unit, array, boxed self, I54, serde default) x decoration (swift / kotlin decorators, redacted, generic constraints, serialized_as on the item, readonly) x doc comments (none, one line, multi-line) x configuration (prefixes, packages and module names, Swift default decorators / constraints, version header); quick covers all pairs with the item kind plus the naming x type-feature square on the richest kinds, thorough the full kind x count x naming x type-feature product and the kind x decoration x docs x configuration product. Each case is rendered to Rust, generated by the real library for the languages in scope (keyword names: Swift and Python only), lexed by the harness (an unclosed string or comment is a lexer verdict) and judged by TLC: balanced delimiters and acceptance by the language's grammar. A rejected file is attributed to the dimensions whose reset makes the item well-formed (sibling cases are generated and judged as well), so that one root cause has one signature. The repository's ~300 expectation files are judged by the same grammars on every run.",
    note="Trusted: TLC; the harness lexers (token classes; cross-checked against the TLA+ lexers of DocText.tla in C15); CPython for Python. The grammars describe the subset of each language that typeshare emits and are kept honest in both directions: every snapshot expectation file must be accepted, and tools/grammar_mutants.py measures how many single-token deletions / duplications of accepted files are rejected (Scala 100%, TypeScript 94-100%, Kotlin 92-99%, Swift 78-86%, Go 76-87%; the survivors are mostly still valid code, e.g. a dropped `public`). Newlines are not tokens. Python NameErrors at import are left to C11 / C12. Known findings: tag / content keys of an algebraic enum are printed verbatim (dashed keys: all six languages; keywords: Swift, Python).",
    design_ref="6/C10"),
 "C19": dict(
    technique="TLA+ spec of the macro's effect (Annotation.tla: Strip removes exactly the typeshare attributes at every position); TLC enumerates item kind x outer arguments x helper positions x helper kind x attribute mix and computes the stripped twin; annotated item and twin compiled together by rustc against the real macro and compared through serde_json and size_of; each pair judged by TLC (Trace_C19.tla)",
    text="Helper kinds include several SEPARATE typeshare attributes on one element (adjacent, or with another attribute between them). TLC enumerates named / tuple / unit structs, an enum with unit, tuple and struct variants, a union, a generic struct with lifetime, bounds and a where clause, a type alias and a const; the outer attribute as #[typeshare], with a decorator argument, (thorough) with `redacted`; every subset of the item's positions (fields, variants, the field of the tuple variant, the field of the struct variant, union fields) carrying a typeshare(...) helper (skip, serialized_as, (thorough) language lists); with and without surrounding doc / cfg / serde attributes valid at that position. For each, Annotation!Strip gives the twin. The harness renders item and twin into one crate that depends on the real `typeshare` crate, serde and serde_json, lets rustc compile it (bisecting a failing batch so that every item gets its own verdict) and runs it: serde_json of Default::default() and size_of of both. TLC checks: the annotated item compiles exactly when the twin does, and then both agree.",
    note="Trusted: TLC; rustc and serde as executors; Default values as witnesses of 'same serialised form'. Programs that fail to compile in both forms are not generated (the twin of a valid item is always valid).",
    design_ref="6/C19"),
}

# dimensions added after the seeded-regression waves 5 and 6 (DESIGN.md section 9); appended to the level text of the check
ADDENDA = {
 "C18": "Also: a safe integer compared with ANY wide integer (the mixed PartialEq / PartialOrd impls), on both sides of the range.",
 "C01": "Also: identifiers with upper-case letters (ID, API_KEY, userName) under the non-snake rules (the snake / kebab combinations are deferred to C16's listed finding, rule MC_C01!DeferredToC16), and the enum-level serde(rename_all_fields) with SerdeAttrs!RuleForField (variant rule first, else the enum's rename_all_fields).",
 "C02": "Also: variant identifiers whose converted form is a reserved word of a target language (Init, Default, None, Class, In, Self_), and the container arguments spread over several #[serde(..)] attributes (MC_C02!Spellings); a spelling refused while the merged spelling of the same enum is accepted is a mismatch.",
 "C03": "Also: a second annotated item with the same Rust identifier in a sibling module, told apart by serde(rename) (MC_C03 twin); MC_C03_places: through the real binary, annotated items in every ordinary place of every directory argument (second / third argument, six levels deep, tests/, mod.rs, main.rs, build.rs, unusual file and directory names, no src directory, a symlinked file).",
 "C04": "Also: configuration lang_options (Go no_pointer_slice / uppercase_acronyms, Swift decorators and constraints) and a member carrying a per-language type override (leaf Ovr): the override names the type, Option / serde(default) still decide the marker.",
 "C05": "Also: configuration lang_options with the idiom TypeExpr!SliceOpt, a serde-renamed user type leaf (TypeExpr!Defined), and MC_C05_generics: N type parameters used by the members in every order of first mention, in a struct, in a struct variant (the arguments of the reference to the derived helper type are substituted into its declaration) and as arguments of an alias target.",
 "C06": "Also: MC_C06_ws - workspaces in which a name is ambiguous (several providers, 6 import forms, renames) or crates need different helpers, each run in 8 (24) fresh processes; a file template that cannot be read as text (the refusal must not depend on arrival order or thread count).",
 "C07": "Also: the generation stage of Pipeline.tla (JoinCol -> generate, GenWrite per output, GenDone; ExitOk requires every output of an exit-0 run to have been handed to the writer, NoWriteWithErrors, WroteOk), checked for single-file and folder configurations with backend refusals, and bound to the Write / WriteSkip / Written events of real runs; MC_C07_names (members whose names collide under a backend's normalisation, up to 3 (5)-way) with a watchdog that reports a job that never finishes as a hang; constants of every refused / unusual type.",
 "C08": "Also: one-element tuples, serde(flatten) accompanied by other attributes (serialized_as, merged, second attribute), and folder-output layouts in which the offending crate is written before / after a valid crate (no file of any crate may be touched).",
 "C09": "Also: the target's identifier as a reserved word of Swift (with sibling attribution), targets shared through serialized_as with a container rename_all, and a same-named type in a nested module of the same file (module_twin: listed finding, typeshare resolves references by bare identifier).",
 "C10": "Also: StringLit.tla - the escape sequences of every string literal per language; GrammarBase!AdjOk - a string literal never stands next to a literal or an identifier (TypeScript, Kotlin, Swift, Scala); namings unicode (combining mark, variation selector, zero-width joiner) and kw_py_edge (from_, in_, _return); datetime members.",
 "C11": "Also: programs with two unreferenced items that share one Rust identifier (the permutation must keep both).",
 "C14": "Also: the workspace below directories that are themselves called src (Workspace!CrateDirOf: the nearest src), a generic item whose type parameter is called like the imported type in the same file, and a type named through a crate that only re-exports it.",
 "C15": "Also: tokens CR and CRLF (DocText!LineEnd: a lone carriage return ends a line in every target language but Go) and the star-leader tokens SL / NLSL / NLBC (a line that starts with */ in a comment whose lines all start with *).",
 "C16": "Also: every identifier in raw spelling (r#ident), and the field inside a struct variant with the rule on the variant, as the enum's rename_all_fields, and on the variant while the enum's rules say something else.",
 "C17": "Also: a failing source version (Writer!FailedRunTouchesNothing; the EagerWrite model switch shows what a crate-by-crate check would violate), a version that differs in the CONFIGURATION file only, and Python folder mode in the quick tier.",
 "C19": "Also: a cfg_attr (true predicate) that carries a serde rename and merely mentions the word typeshare.",
 "C20": "Also: table profiles (several entries, the same entry in more than one list, two mappings, CodableVoid constraints read back from the helper declaration) and a folder run into a location that an earlier run under another configuration file has filled.",
}
for _p, _t in ADDENDA.items():
    CHECKS[_p]["text"] = CHECKS[_p]["text"] + " " + _t

ADDENDA8 = {
 "C01": "Layouts (MC_C01!LayoutOf): the field under test first, last, between and before one-word members that need no explicit binding.",
 "C02": "Wire names with a dollar sign ($ref, $a\"b): a Kotlin literal with an unescaped $name is a template and has no constant value.",
 "C03": "Directory arguments whose paths are string prefixes of each other (root1 / root1-types, ca / ca-types). Walk.tla (MustRead / MustNotRead, model Reads): 10 directory chains x 6 file-name kinds x 2 directory arguments x --follow-links x git work tree, one tree per option pair and output mode on the real binary (Trace_Walk); TLC checks that the model refines P.",
 "C05": "MC_C05_names: a user type whose declared name the run re-spells (Go uppercase_acronyms, prefix, serde rename) referenced from 9 positions; every reference uses the name the declaration is observed under.",
 "C06": "MC_C06_prior: the same tree generated into locations whose files hold 8 kinds of prior content (absent, empty, cut at / inside a line, one byte, longer, same, other), both modes, 6 languages.",
 "C09": "MC_C09_imported: the target in a provider crate, one reference in one of 9 shapes in the consumer crate, x rename x prefix x use form (folder output through the library).",
 "C10": "Doc texts with comment / string delimiters of the target languages (hostile, hostile_multi).",
 "C11": "MC_C11!Progs2: two references in one struct / one struct variant through composed containers (same or different targets).",
 "C14": "Shapes: the consumer's only reference to the imported type is a map key / map value / first / last / nested generic argument.",
 "C16": "MC_C16_backends: the computed name is the wire name all six backends print, in 5 member layouts (Trace_C16 events per member and language).",
 "C17": "Writer!Touch (a placeholder file at an output path), Writer!Extends / Compare (MC_Writer_prefix: a comparison that stops at the shorter content violates Fresh), versions v9 (output of v1 is a prefix) and v10 (overlapping directory arguments); histories bounded by MC_Writer!HistBound.",
 "C19": "Annotation!Transparent includes same_attrs: a derive macro placed after #[typeshare] is handed the same attributes, in order, as for the stripped twin (observer: the std-only derive attrdump built by the harness); mix docs_after.",
 "C20": "MC_C20_existing: -g onto an existing configuration / empty / blank / non-UTF-8 / non-TOML / UTF-16 / one-byte file or a symbolic link, path named by default, -c, -c nested.",
}
for _p, _t in ADDENDA8.items():
    CHECKS[_p]["text"] = CHECKS[_p]["text"] + " " + _t

ADDENDA9 = {
 "C01": "serde(rename = \"\") (the empty key; Go out of scope: a struct tag cannot name it).",
 "C02": "serde(rename = \"\") on a variant: SerdeAttrs!None is a token no name contains.",
 "C03": "Annotation spellings #[::typeshare::typeshare] and #[ typeshare ], also as the only annotation of a file (places ann_*_alone).",
 "C05": "Configuration after_sibling: every tree generated after items that use MC_C05!Sib(t) (state carried from item to item).",
 "C06": "The annotation spellings rotate over the items of the file-split classes.",
 "C07": "MC_C07!ConfigSurroundings: what lies where the configuration file is searched (a directory called typeshare.toml, empty / invalid file, link loop, dangling link).",
 "C08": "Tuple structs / variants with all fields but one skipped (Reject!ItemConstructs multi_tuple_*_one_kept).",
 "C09": "The parameter of a generic enum inside every container of its struct variants (sites param_in_variant_*).",
 "C10": "MC_C10_rerun: the file on disk after generating over an earlier longer / shorter / other output (real binary).",
 "C12": "Member names: python keyword, serde-renamed, all members keywords (MC_C12!Names).",
 "C13": "MC_C13!Contents: a member the rule drops may be a flattened field, a u64, a multi-field tuple variant, a whole u64 item - the run succeeds without it.",
 "C14": "second_file: a second source file of the consumer crate importing another crate the same way.",
 "C15": "MC_C15!Companies: the (multi-line) entry before / after another doc attribute of the same element.",
 "C16": "The container's rule in a second #[serde(..)] attribute (fields and variants).",
 "C17": "Version v11: constants only, one per file (a failing version for backends without constants).",
 "C18": "A panic of a constructor / conversion / comparison is a verdict of its own (driver catches it per job).",
 "C19": "Kinds struct_len_if / struct_len_block / struct_len_index (full expressions in field types), alias_union_path, const_union_path.",
 "C20": "Generic items whose parameters carry swiftGenericConstraints of their own: the configured defaults reach every parameter.",
}
for _p, _t in ADDENDA9.items():
    CHECKS[_p]["text"] = CHECKS[_p]["text"] + " " + _t

ADDENDA10 = {
 "C01": "Compose!Independent (facet keys): the keys generated for an item are the same whether it is generated alone or before / after / between unrelated items (MC_Compose, 16 items, 6 languages).",
 "C02": "Compose!Independent (facet wires): variant wire strings, tag and content keys of an item do not depend on its neighbours in the run.",
 "C04": "Compose!Independent (facet optional): optional markers of an item do not depend on its neighbours in the run.",
 "C05": "Compose!Independent (facet types): the type trees generated for an item do not depend on its neighbours in the run.",
}
for _p, _t in ADDENDA10.items():
    CHECKS[_p]["text"] = CHECKS[_p]["text"] + " " + _t

ADDENDA11 = {
 "C01": "Decors (TypeScript readonly, a per-language type override) and the spelling after_list (a nested-list argument before the rename).",
 "C02": "Spellings after_list / between_lists (nested-list arguments bound(..), rename(deserialize = ..) before and between the arguments that matter).",
 "C03": "An annotated item that cannot be generated is reported wherever its file arrives (places bad_item_arrives_*, Trace_C03!Reported).",
 "C05": "Configuration go_noptr_mapped_container (two file-only Go options at once).",
 "C06": "Fresh-process classes on a feature-rich program (the Compose menu plus alias chains used as enum payloads), every language, both modes.",
 "C07": "Non-ASCII letters next to upper-case letters / digits / underscores under every word-splitting rule (fields, struct-variant fields, constants).",
 "C10": "Configuration packages_single (one-segment package names).",
 "C11": "MC_C11!ChainLens: chains of 12 / 70 / 130 definitions, head first and leaf first, through toposort_impl and as alias programs.",
 "C12": "Folder layouts both / alias_first; Scala in the quick tier.",
 "C13": "Level twin: two definitions of one name under different guards, each judged by its own guard.",
 "C14": "Roots cwd_dot / cwd_dot_src: the command run from inside the consumer crate.",
 "C15": "Tokens AMPNL / AMPXA / BSN / PCTNL / UNL: text that only spells a line break.",
 "C17": "Writer!Remove (somebody removes the helper file between runs) and version v12 (a configuration that changes only the helper file).",
 "C18": "The serde JSON round trip in every position of a document (array element, tuple element, optional, map value, map KEY).",
 "C19": "Kind named_struct_via_macro: the item inside a macro_rules! wrapper that forwards attributes through $attr:meta fragments.",
 "C20": "Table profile generic_mapped; every profile has its own slice in the quick tier.",
}
for _p, _t in ADDENDA11.items():
    CHECKS[_p]["text"] = CHECKS[_p]["text"] + " " + _t

ADDENDA12 = {
 "C01": "Decor ts_date: the keys the generated TypeScript reviver tests are serde's keys.",
 "C02": "Kind newtype_opt (an optional payload: the decoders' branch for a null content).",
 "C03": "Place second_run (the same command twice into one location).",
 "C05": "MC_C09_imported shared with C09 (a user type of another crate keeps its declared name at its only reference).",
 "C06": "The feature-rich fresh-process classes run under a configuration file with every table filled in (qualified mapping keys too); Go in folder mode.",
 "C07": "Construct config_odd_values (empty / one-character values in a valid configuration).",
 "C09": "Shapes qualified_generic / qualified_generic_nested; Go in folder mode.",
 "C10": "GrammarBase!OperandOk (no empty operand of a logical operator in helper bodies); configuration ts_special_mapped.",
 "C11": "MC_C11!Progs2 also through the real binary (single-file and folder output).",
 "C12": "TypeScript: ReviverFunc / ReplacerFunc are required wherever a mapped special type (\"Vec<u8>\" = \"Uint8Array\") stands.",
 "C13": "Members of a host that carries a guard of its own (nested_field, nested_variant).",
 "C14": "Trace_C14!HelpersOk: the folder run defines the helper types the single-file run defines.",
 "C15": "MC_C15!Named: a type's documentation that begins with the type's own name, under Go's uppercase_acronyms.",
 "C16": "The keys of the generated TypeScript reviver in MC_C16_backends.",
 "C18": "Round trips through serde's buffered content (internally tagged / untagged enum, flatten, content before tag).",
 "C19": "Items that compile one by one but not together in one crate.",
 "C20": "Profile overlap: a Go mapping target that the acronym list would re-spell (listed finding).",
}
for _p, _t in ADDENDA12.items():
    CHECKS[_p]["text"] = CHECKS[_p]["text"] + " " + _t

ADDENDA13 = {
 "C01": "Dimension Siblings: a second struct variant before / after the variant under test, with / without a rename_all of its own (each variant is resolved on its own).",
 "C02": "Dimension Marks: a variant carrying skip_serializing or skip_deserializing alone stays part of the wire format.",
 "C03": "Walk: directories named target / node_modules / vendor / build are ordinary directories.",
 "C05": "Trace_C05!DeclOk: a declaration states the item's whole parameter list, also parameters the aliased / serialized_as type does not mention.",
 "C06": "Template Ren (a type-level serde(rename) whose two names lie on either side of its neighbours); generic items with several parameter names in the fresh-process classes.",
 "C07": "Leg workspaces: MC_C06_ws under MC_C07_ws.cfg (one identifier defined by several crates x import forms x renames) through the real binary, both modes, 6 languages.",
 "C08": "Untagged enums whose data variant is a struct variant (with fields, every field skipped, no field).",
 "C09": "Generic parameters named like typeshared types (ShadowS / ShadowT) and the references that follow them.",
 "C13": "Items without a predicate inside guarded inline modules (outer attribute, nested, inner attribute) are kept.",
 "C15": "Position const (containment of the doc text of constants).",
 "C16": "Context enum-fields-rule-after-ruled-variant.",
 "C17": "v4 carries generic items with several parameter names.",
 "C19": "Helper lang (per-language decorator lists with a type override) in the quick tier.",
 "C20": "The prefix is read at every place that takes it: every definition and every reference of the run.",
}
for _p, _t in ADDENDA13.items():
    CHECKS[_p]["text"] = CHECKS[_p]["text"] + " " + _t

ADDENDA14 = {
 "C01": "Compose at the level of members and variants (MC_Members, MC_Variants): a member's key does not depend on its siblings; identifiers with non-ASCII letters.",
 "C02": "MC_Variants: a variant's wire string does not depend on its sibling variants; identifiers that begin with a non-ASCII capital.",
 "C03": "Dimension Lookalikes (skip_serializing / skip_deserializing / skip_serializing_if are not skip markers); places bad_vfield_item / bad_payload_item / bad_alias_item.",
 "C04": "MC_Members / MC_Variants (optional markers); leaf Sas; a single Option is not printed like a double one (TypeScript).",
 "C05": "MC_Members / MC_Variants (types); swiftGenericConstraints on a later parameter (DeclOk).",
 "C09": "Kind jvm_inline; an identifier that begins with the configured prefix.",
 "C10": "Doc kind block (one doc attribute over several lines).",
 "C11": "Programs next to generic items whose parameter is named like a referenced item.",
 "C12": "A member with a type override for one language only; rejected programs are reported instead of skipped.",
 "C13": "An untagged enum whose data variants are dropped by the rule (it is a unit enum then).",
 "C14": "The only reference carries a type override for one language.",
 "C16": "The backends leg also under Go uppercase_acronyms.",
 "C17": "v8 under a multi-entry mapping configuration; Kotlin folder mode in the quick tier.",
 "C20": "A mapping keyed by a container instance (HashMap<String,String>).",
}
for _p, _t in ADDENDA14.items():
    CHECKS[_p]["text"] = CHECKS[_p]["text"] + " " + _t

NOT_YET = "not built yet in this round (planned: see DESIGN.md section 6); no check is registered, nothing is claimed"

def main():
    checks = []
    for pid in ALL:
        if pid not in CHECKS:
            continue
        c = CHECKS[pid]
        checks.append({
            "property_id": pid,
            "quick_cmd": f"./check {pid} --tier quick",
            "thorough_cmd": f"./check {pid} --tier thorough",
            "evidence_file": f"/verif/evidence/{pid}.json",
            "replay_cmd_template": f"./check {pid} --replay {{path}}",
            "engine": "tlc+harness",
            "level_claimed": {"category": c.get("category", "model_checking"), "text": c["text"], "design_ref": c["design_ref"]},
            "level_note": c["note"],
            "technique": c["technique"],
        })
    m = {
        "version": 1,
        "setup_cmd": "./setup.sh",
        "hooks": {
            "guard": "--cfg typeshare_verif",
            "enable": "RUSTFLAGS='--cfg typeshare_verif --check-cfg cfg(typeshare_verif)' (harness/.cargo/config.toml for the library driver; vlib/common.py build_cli for the typeshare binary); hooks are inert unless a TYPESHARE_VERIF_* environment variable is set",
            "baseline_off_cmd": "cd /repo && cargo test --workspace --no-fail-fast --offline --lib --bins --tests",
            "source_commits": ["cbd5a7d", "7c3d975"],
            "add_only": True,
        },
        "engines": [
            {"name": "tlc+harness", "path": "/verif/check", "serves_properties": sorted(CHECKS),
             "kind_free_text": "explicit TLA+ specifications (spec/*.tla) checked with TLC; TLC-enumerated cases replayed into the real typeshare code (harness/driver, hooked CLI) and recorded executions validated against the specifications by TLC"},
        ],
        "checks": checks,
        "notes": "Fix commits in /repo: d7ce7e9 (C16), 1dc1d80 (C11), 47370c3 cdfed7c 284909f 436a798 e0dfe05 (C07), 1d75015 6f56816 (C06), 21da1da (C17), 2d0dc35 (C03/C07), f02e16b e9e1c5a (C08), 830075e 1991718 (C09), 4bf29f2 f3c53ac (C12), db7690c 1544cd8 d419ad3 (C15), 9a3634b e99f637 16b290f (C14), 93bbea9 954ba84 30c9724 (C10), c88ded6 (C04/C12), ec33687 79a3dfe (C07), 76b8fba (C02), 1e8c5a2 (C07/C11), 8e0314f (C12), f476e89 (C10), 8cdcc90 (C15), 12228a2 (C01/C16), ed2a94f (C04), 08a66d1 (C07/C03), 541a053, 9638a7c, b605406, 9f72e2b, b4c3d96 (C10), d63e178 (C09). Known findings: /verif/known_findings.jsonl. DESIGN.md describes layers P (judge), M (implementation models, predictions only) and B (binding).",
        "not_applicable": [{"property_id": p, "reason": NA.get(p, NOT_YET)} for p in ALL if p not in CHECKS],
    }
    json.dump(m, open(os.path.join(ROOT, "MANIFEST.json"), "w"), indent=1)
    print("MANIFEST.json:", len(checks), "checks,", len(m["not_applicable"]), "not_applicable")

NA = {}
if __name__ == "__main__":
    main()
