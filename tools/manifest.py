#!/usr/bin/env python3
"""Writes /verif/MANIFEST.json from the table below (single source of truth for the interface)."""
import json, os
ROOT = os.path.dirname(os.path.dirname(os.path.abspath(__file__)))
ALL = [f"C{i:02d}" for i in range(1, 21)]

CHECKS = {
 "C16": dict(
    technique="TLA+ spec of serde's rename rules (SerdeCase.tla); TLC enumerates all identifiers over class representatives and each is replayed through the real parser; recorded renames of dictionary/random identifiers are validated by TLC (Trace_C16.tla)",
    text="Exhaustive small-scope model-based testing: TLC enumerates every identifier up to length 4 (quick) / 7 (thorough) over one representative per character class, computes serde's expected name for 8 rules + an unknown rule in field and variant position from the TLA+ transcription of serde_derive's case.rs, and every case is executed on the real parser. The transcription itself is cross-checked on the same identifiers against the vendored original case.rs. In the other direction real renames of ~1500 dictionary identifiers and random long identifiers are recorded and judged by TLC. The rename code is a finite-state transducer with lookback 1, so class-representative enumeration to length 7 covers every transition sequence it can take.",
    note="Trusted: TLC; the TLA+ transcription of case.rs (cross-checked against the vendored serde_derive 1.0.214 source on every case); Id.renamed in ParsedData is the name every backend prints. Known finding (snapshot-pinned): field-position snake/kebab family splits words at uppercase letters.",
    design_ref="6/C16"),
 "C18": dict(
    technique="TLA+ spec of the safe-integer ranges over limb arithmetic (SafeInt.tla) with the limb<->integer bridge lemma discharged by Apalache; TLC enumerates all boundary neighbourhoods and each value is replayed through every real U53/I54 constructor; random draws validated by TLC (Trace_C18.tla)",
    text="TLC enumerates every value within 64 (quick) / 4096 (thorough) of each power of two 2^0..2^64 in both signs - which covers the four limits, zero, and every narrow-type boundary - and computes from SafeInt.tla what each constructor/conversion must do (accept, reject, not applicable, value preserved, order with successor). Each value is executed on the real typeshare::{U53,I54} (TryFrom, From narrow, TryFrom to narrow, serde_json integer and float-shaped literals, Display, f64 and JSON round trips, usize_from_u53_saturated, cmp/eq). Random values stratified by bit length (6k quick / 200k thorough) plus comparison pairs are judged by TLC as trace events. Apalache proves over unbounded integers that the limb predicates equal the integer predicates of the property.",
    note="Trusted: TLC, Apalache/Z3 for the bridge lemma, decimal-string transport of 64-bit values, Rust's own `as f64` for the IEEE-754 round trip. The 10^7 random draws of the quantifier are sampled at 200k in the thorough tier (trace validation speed).",
    design_ref="6/C18"),
 "C13": dict(
    technique="TLA+ spec of the documented --target-os rule (TargetOs.tla) and a TLA+ model of the stack walk (M_TargetOsWalk.tla) checked equal by TLC on every enumerated cfg expression; every (expression, target list, level) replayed through the real parser and CLI; random deeper expressions validated by TLC (Trace_C13.tla)",
    text="TLC enumerates every cfg expression over any/all/not up to depth 2 over {a,b,c,feature,unix} (quick) / depth 3 over {a,b,feature} (thorough), plus every split into two #[cfg] attributes, computes the accept decision for all 16 target lists over {a,b,c,d} from the documented rule, and checks that the model of TargetOsIterator agrees. Each (expression, target list) is attached as file inner attribute, on struct/enum/alias/const, on a variant, a field and a struct-variant field, and run through the real parser; unguarded siblings must survive. Random expressions to depth 5 with up to three attributes are judged by TLC as trace events; a stratified subset goes through the real binary with --target-os.",
    note="Trusted: TLC; presence is read from ParsedData for the library runs and from generated TypeScript (extractor) for the CLI runs. The --target-os separator (space vs comma) is not part of the property.",
    design_ref="6/C13"),
 "C11": dict(
    technique="TLA+ spec of 'permutation + linear extension' (Topsort.tla) and a TLA+ model of toposort_impl/sort_by_indices (M_Topsort.tla) model-checked over all small digraphs and permutations; the same graphs/permutations replayed into the real private functions through the cfg hook, programs with every reference placement generated in 5 languages, all recorded orders validated by TLC (Trace_C11.tla)",
    text="TLC checks on every digraph with 3 (quick) / 4 (thorough) nodes incl. self loops, in ascending and descending neighbour order, that the model of toposort_impl yields a permutation and a linear extension of acyclic graphs, and that the model of sort_by_indices realises every index permutation up to 5 / 7. The same inputs are executed on the real toposort_impl and sort_by_indices (hook) and the results judged by TLC. Every two-item program A->B with the reference written in every carrier (field, newtype variant, struct-variant field, alias, const) x container (direct, Vec, Option, map key/value, array, slice, generic argument, unknown generic, nested generic) x B renamed? x kind of B is generated for TypeScript, Kotlin, Swift, Go and Python; the line of each definition is read back and TLC checks 'each item exactly once, and complete before anything that uses it starts'. Random programs of 3..12 items (DAG and cyclic) extend this beyond the enumerated space.",
    note="Trusted: TLC; extractors for definition positions; an item's group = main definition + helper structs of its struct variants. Known finding: references to serde-renamed types are invisible to the ordering (snapshot-pinned). Fixed: 1dc1d80.",
    design_ref="6/C11"),
 "C07": dict(
    technique="TLA+ model of the walker/channel/collector/main protocol (Pipeline.tla) model-checked with fairness over all schedules; TLC counter-example schedules replayed on the real binary through gate hooks; edge-of-grammar inputs enumerated by TLC (MC_C07) and run under a watchdog; every run's event log trace-validated against the model with the layer-P invariants evaluated at each step (Trace_Pipeline.tla)",
    text="TLC explores every interleaving of 3 files x 2 walker threads x channel capacity 1 for every assignment of parse results (none/ok/item-errors/Err/panic) and checks termination (under weak fairness), no-panic exit, exit-code/diagnostic consistency and 'a clean tree succeeds'. A reachability query yields the schedule 'a result is sent after the collector has gone'; it is projected to gate points and forced on the real binary (this is how the SendError panic, fixed in e0dfe05, was reproduced), and the run's own event log is validated against the model. 38 edge constructs x 6 languages x single/multi-file (x 4 companion-file sets in thorough) run on the real binary under a 10 s watchdog; outcome must be exit 0 with output or exit != 0 with a diagnostic naming the file. A corpus of random supported programs (all item kinds, recursion, generics, renames, overrides; 300 quick / 3000 thorough x 6 languages) runs through the library under catch_unwind with abort isolation.",
    note="Trusted: TLC; the hooks' event placement (binding demonstrated by rejecting corrupted/dropped events); a run alive after 10 s is a hang. Model-level finding kept in evidence: a panic inside a walker thread would hang the process (needs an input that panics; none is known after fixes 47370c3, cdfed7c, 284909f, 436a798). Known findings: const in Kotlin/Swift (todo!()), empty tree in single-file mode, generation-time errors do not name the file.",
    design_ref="6/C07"),
 "C06": dict(
    technique="TLA+ model of the fold-in-arrival-order / stable-sort data path (DataPath.tla inside Pipeline.tla) model-checked for determinism over all schedules; every arrival permutation of TLC-enumerated source trees forced on the real binary through the arrival-order hook; free runs over thread counts, fresh processes and file re-splits; all runs judged by TLC as trace events (Trace_C06.tla)",
    text="TLC checks on Pipeline.tla that for every interleaving of 3 files x 2 workers the emitted item sequence equals the one of a canonical arrival order (holds for structs/enums/aliases/consts with distinct names; violated for same-name-same-kind items, which is the known finding). MC_C06 enumerates every tree of 3 (quick) / 4 (thorough, plus 6-file trees with all 720 orders) files over seven file templates together with every arrival permutation and the model's prediction; each permutation is forced on the real binary with TYPESHARE_VERIF_ORDER in single- and multi-file mode, languages rotated. Free runs vary the walker thread count 1..16, repeat fresh processes on a tree that hits the import-fallback hash-iteration site, and re-split the same items over files (one file, one file per item, by kind, reversed). Every run is one event (class, sha256 of all output bytes); Trace_C06 requires all events of a class to agree.",
    note="Trusted: TLC; sha256 of output files; the arrival-order hook buffers all results before folding (keyed by a marker struct at the top of each file). Hash seeds are sampled (12 / 40 processes), not enumerated. Known finding: same-name-same-kind duplicates follow arrival order. Fixed: 1d75015 (consts unsorted), 6f56816 (HashMap iteration in import fallback).",
    design_ref="6/C06"),
 "C17": dict(
    technique="TLA+ model of the compare-then-write store (Writer.tla) model-checked over all run histories; TLC-enumerated histories executed with the real binary into one output location; the snapshot after every run validated against the spec's Idempotent/Fresh by TLC (Trace_Writer.tla)",
    text="TLC checks on Writer.tla, for every history of up to 4 runs over 4 abstract source versions (type changed, file disappears, helper file appears/disappears, an output becomes empty), that a re-run with unchanged sources changes neither content nor mtime and that every path the last run is responsible for holds the content a run into an empty location produces; with the pre-fix helper-file behaviour switched on TLC shows the Idempotent violation that was then reproduced on the real binary (fixed in 21da1da). MC_Writer enumerates every history up to 3 (quick) / 5 (thorough) runs; each maximal history is executed with the real binary, swapping the source tree between runs (type renamed/removed, moved between crates, unit type introduced/removed), in single- and multi-file mode for TypeScript and Swift (quick) / all six languages (thorough). After every run the output location is snapshotted (sha256, mtime_ns) and the whole history is judged by TLC.",
    note="Trusted: TLC; sha256 + st_mtime_ns snapshots with >= 3 ms between runs; the fresh reference is produced by the same binary into an empty directory. Files that no run of the latest version writes (stale leftovers) are outside the property as stated.",
    design_ref="6/C17"),
 "C20": dict(
    technique="TLA+ spec of configuration precedence and of -g (Config.tla); TLC enumerates the full option x file matrix with the required effective settings and checks the model of override_configuration against it; every cell run on the real binary (generation per language, -g, reload, second -g) and judged by TLC (Trace_C20.tla)",
    text="TLC enumerates all 1024 cells of {option absent/present} x {key absent/present} for swift-prefix, kotlin-prefix, java-package, scala-package and go-package, with the effective value per setting required by 'command line, else file, else default', and checks that the model of override_configuration agrees on every cell. Cells (a systematic slice with every single- and all-settings combination in quick; all cells x 4 discoveries in thorough) are executed with the real binary: typeshare.toml is written (found by -c or by ancestor search from cwd / parent / grandparent), generation is run for every language exposing a setting, the prefix/package is read back from the generated code; -g is run with the same options and its TOML parsed, then reloaded with no options, and a second -g must fail leaving the file intact. File-only tables (type_mappings for 6 languages, Swift default_decorators / default_generic_constraints, Go uppercase_acronyms / no_pointer_slice) are in every file and must show up unchanged in the output.",
    note="Trusted: TLC; extractors for reading prefix/package/mapped names; tomllib. -g is read as 'effective settings of its own invocation over the defaults' (no file is consulted when one is being created). Scala/Go cells without any package are skipped (typeshare refuses them; C07 covers missing packages).",
    design_ref="6/C20"),
 "C01": dict(
    technique="TLA+ spec of serde's field naming (SerdeAttrs.tla on SerdeCase.tla); TLC enumerates container x identifier x rename x rename_all x enum-level rule x attribute spelling with the required JSON keys; every case generated in 6 languages and the key bound to each member read back; dictionary/random fields validated by TLC (Trace_C01.tla)",
    text="TLC enumerates every combination of container kind (struct, struct variant of a tagged enum), field identifier (plain, raw, target keyword, underscore edges), serde(rename) (none, plain, dashed, keyword), the 8 rename_all rules + none on the struct / on the variant, an enum-level rename_all that must NOT reach variant fields, and attribute spellings (merged, stacked attributes, rename not first, mixed with doc/cfg), and prints the JSON key serde uses for the field and for a plain neighbour field. Each case is generated for all 6 languages (Swift/Kotlin also with a type prefix) through the real library; extractors report for every member the key carried by the explicit binding (quoted property, @SerialName, CodingKeys raw value, json tag, Field alias) or else the identifier. In the other direction ~400 (quick) / 4000 (thorough) dictionary field names with random renames and rules are generated and every observed member is judged by TLC.",
    note="Trusted: TLC; SerdeCase.tla (cross-checked against vendored serde_derive in C16); the extractors' notion of 'key'. Scala carries no binding: keys containing '-' are out of scope for Scala (rule stated in Trace_C01). Outputs the extractors cannot read (invalid target code) are counted and left to C10.",
    design_ref="6/C01"),
 "C02": dict(
    technique="TLA+ spec of serde's variant naming and tag/content keys (SerdeAttrs.tla); TLC enumerates enums over identifier x rename x payload kind x rename_all x tag/content pair x plain/recursive/generic with the required wire strings; every case generated in 6 languages and every occurrence of each wire string and key read back; random dictionary enums validated by TLC (Trace_C02.tla)",
    text="TLC enumerates unit enums and adjacently tagged enums whose variant under test ranges over identifier shape (single letter, word, camel, digit, acronym run, all caps), per-variant serde(rename) (none, plain, dashed), payload (unit, newtype, struct), the 8 rename_all rules + none, several tag/content key pairs, and plain / self-recursive / generic enums, next to fixed neighbours; P gives the wire string of every variant and the tag and content keys. The 6 backends' outputs are read back: the wire string of every case (all places it is written), every occurrence of the tag key (TypeScript shape, Swift ContainerCodingKeys and each forKey:, Go struct tags of carrier/Unmarshal/Marshal, Python tag fields) and of the content key; Kotlin and Scala are judged on names and content key only. Random enums of 1..6 dictionary-named variants with mixed payloads are judged by TLC as trace events (exactly one case per variant, each wire equal, every key occurrence equal).",
    note="Trusted: TLC; SerdeCase.tla; extractors (which fold each backend's enum encoding into one definition and raise on internally inconsistent encoders). Backends that refuse a case (generic enums in Go) are skipped for that case.",
    design_ref="6/C02"),
 "C04": dict(
    technique="TLA+ spec of optionality (SerdeAttrs!Optional over TypeExpr!IsOpt); TLC enumerates wrapping shape x payload type x serde(default) spelling with the required marker; every case generated at 4 positions in 6 languages; the observed marker and the type under it (compared with the same backend's rendering of the plain type) judged by TLC (Trace_C04.tla)",
    text="TLC enumerates the wrapping shape (T, Option<T>, Option<Option<T>>, Box<Option<T>>, Option<Box<T>>, Arc<Option<Option<T>>>, &Option<T>, Vec<Option<T>>) x T (primitives, containers, user type, generic parameter, unit, generic instance) x the spelling of serde(default) (absent, bare, merged with rename, separate attribute, after other attributes, and the non-bare `default = \"path\"`), and prints whether P requires the optional marker. Each case is generated as struct field, struct-variant field, newtype payload and alias in all 6 languages. The extractors report the language idiom (TS `?`, Kotlin `? = null`, Swift `?`, Scala Option[..] = None, Go omitempty / pointer payload, Python Optional with default None / nullable payload); TLC checks per event: marker present iff required, the type under the marker equals what the same backend prints for the plain core type (so the marker changed nothing), and TypeScript struct fields keep Option<Option<T>> as `?` plus `| null`. Random trees with random spellings extend the enumeration.",
    note="Trusted: TLC; extractors' reading of each language's optional idiom. Only the bare `default` counts, as the property says. Known finding: Scala prints `= _` for default on a non-Option field (snapshot-pinned).",
    design_ref="6/C04"),
 "C05": dict(
    technique="TLA+ spec of structural type translation with a primitive category/capacity table and mappings (TypeExpr.tla); TLC enumerates all type expressions to depth 2/3 and checks structural theorems of the spec; every tree generated at 4 positions in 6 languages under 3 configurations; every observed target type tree judged by TLC (Trace_C05.tla)",
    text="TLC enumerates every Rust type expression up to depth 2 (quick, 1.4k trees) / 3 (thorough) over primitives, user types and generic parameters closed under Vec, [T;N], &[T], Option, HashMap (String/u32/user keys), Box/Arc, references, path qualification and generic instances, and checks on each that references and all 11 smart pointers disappear, that the three sequence forms coincide and that Option survives pointers. Each tree is placed as struct field, struct-variant field, newtype payload and alias target and generated in 6 languages: without mapping, with a type mapping User->MappedT, and (Swift/Kotlin) with a prefix. The observed target type tree of every position is judged by TypeExpr!Conf: same constructor structure at every depth, generic arguments and parameters in order, parameters never prefixed, user types prefixed, mapped types replaced everywhere without arguments, and every primitive leaf of the same JSON category with capacity for all values (table TargetPrim; Scala's unsigned aliases are resolved through the aliases the file defines). Random trees of depth 4-5 over all 15 primitives and 8 smart pointers extend the enumeration.",
    note="Trusted: TLC; extractors' type parsers; the TargetPrim table (Go int = 32 bits; Swift Unicode.Scalar counted as string-like). Known findings: TypeScript loses Option nested in containers / double options outside struct fields; Scala unsigned aliases are signed (ULong = Int); Go char -> rune. Container-instance mappings (\"Vec<u8>\") are not exercised yet.",
    design_ref="6/C05"),
}

NOT_YET = "not built yet in this round (planned: see DESIGN.md section 6); no check is registered, nothing is claimed"

def main():
    checks = []
    for pid in ALL:
        if pid not in CHECKS:
            continue
        c = CHECKS[pid]
        checks.append({
            "property_id": pid,
            "quick_cmd": f"./check {pid} --tier quick",
            "thorough_cmd": f"./check {pid} --tier thorough",
            "evidence_file": f"/verif/evidence/{pid}.json",
            "replay_cmd_template": f"./check {pid} --replay {{path}}",
            "engine": "tlc+harness",
            "level_claimed": {"category": c.get("category", "model_checking"), "text": c["text"], "design_ref": c["design_ref"]},
            "level_note": c["note"],
            "technique": c["technique"],
        })
    m = {
        "version": 1,
        "setup_cmd": "./setup.sh",
        "hooks": {
            "guard": "--cfg typeshare_verif",
            "enable": "RUSTFLAGS='--cfg typeshare_verif --check-cfg cfg(typeshare_verif)' (harness/.cargo/config.toml for the library driver; vlib/common.py build_cli for the typeshare binary); hooks are inert unless a TYPESHARE_VERIF_* environment variable is set",
            "baseline_off_cmd": "cd /repo && cargo test --workspace --no-fail-fast --offline --lib --bins --tests",
            "source_commits": ["cbd5a7d", "7c3d975"],
            "add_only": True,
        },
        "engines": [
            {"name": "tlc+harness", "path": "/verif/check", "serves_properties": sorted(CHECKS),
             "kind_free_text": "explicit TLA+ specifications (spec/*.tla) checked with TLC; TLC-enumerated cases replayed into the real typeshare code (harness/driver, hooked CLI) and recorded executions validated against the specifications by TLC"},
        ],
        "checks": checks,
        "notes": "Fix commits in /repo: d7ce7e9 (C16), 1dc1d80 (C11), 47370c3 cdfed7c 284909f 436a798 e0dfe05 (C07), 1d75015 6f56816 (C06), 21da1da (C17). Known findings: /verif/known_findings.jsonl. DESIGN.md describes layers P (judge), M (implementation models, predictions only) and B (binding).",
        "not_applicable": [{"property_id": p, "reason": NA.get(p, NOT_YET)} for p in ALL if p not in CHECKS],
    }
    json.dump(m, open(os.path.join(ROOT, "MANIFEST.json"), "w"), indent=1)
    print("MANIFEST.json:", len(checks), "checks,", len(m["not_applicable"]), "not_applicable")

NA = {}
if __name__ == "__main__":
    main()
