#!/usr/bin/env python3
"""Binding demonstrations (DESIGN.md section 9): the trace specifications constrain the recorded executions.
 1. a real 3-file run of the hooked binary is accepted by Trace_Pipeline
 2. the same log without its Recv events (= a removed hook at the collector's linearisation point) is not
 3. the same log with one Recv moved before the SendStart of its file is not
 4. a C01 event is accepted; the same event with one corrupted character of the observed key is listed as bad
5-7. the generation stage: a Write before the error check, the same output written twice, exit 0 without a Write
Exit 0 when all behave as stated."""
import copy, os, sys
sys.path.insert(0, "/verif")
from vlib import cli, common

def main():
    common.build_cli()
    work = common.scratch("demo")
    files = {f"c{i}/src/f{i}.rs": f"#[typeshare]\npub struct T{i} {{ pub a: u32 }}\n" for i in (1, 2, 3)}
    cli.make_tree(os.path.join(work, "ws"), files)
    tr = os.path.join(work, "trace.ndjson")
    r = cli.run_cli(["-l", "typescript", "-o", os.path.join(work, "out.ts"), os.path.join(work, "ws")],
                    env={"TYPESHARE_VERIF_TRACE": tr, "TYPESHARE_VERIF_THREADS": "2"})
    assert r["exit"] == "ok", r
    header, events = cli.read_trace(tr, ["f1", "f2", "f3"], names={"T1": "f1", "T2": "f2", "T3": "f3"}, outcome=0)
    results = []
    ok, matched, res = common.trace_validate("Trace_Pipeline", [header] + events, None, 300)
    results.append(("1 real log accepted", matched == len(events) and not res.violation, f"{matched}/{len(events)}"))
    nofold = [e for e in events if e["ev"] != "Recv"]
    ok, matched, res = common.trace_validate("Trace_Pipeline", [header] + nofold, None, 300)
    results.append(("2 log without Recv events rejected", matched < len(nofold) or bool(res.violation), f"{matched}/{len(nofold)} next={nofold[matched] if matched < len(nofold) else None}"))
    moved = copy.deepcopy(events)
    ri = next(i for i, e in enumerate(moved) if e["ev"] == "Recv")
    f = moved[ri]["file"]
    si = next(i for i, e in enumerate(moved) if e["ev"] == "SendStart" and e["file"] == f)
    ev = moved.pop(ri)
    moved.insert(si, ev)
    ok, matched, res = common.trace_validate("Trace_Pipeline", [header] + moved, None, 300)
    results.append(("3 Recv before its SendStart rejected", matched < len(moved) or bool(res.violation), f"{matched}/{len(moved)}"))
    early = copy.deepcopy(events)
    wi = next(i for i, e in enumerate(early) if e["ev"] in ("Write", "WriteSkip"))
    qi = next(i for i, e in enumerate(early) if e["ev"] == "Reconciled")
    ev = early.pop(wi)
    early.insert(qi, ev)
    ok, matched, res = common.trace_validate("Trace_Pipeline", [header] + early, None, 300)
    results.append(("5 output written before the error check rejected", matched < len(early) or bool(res.violation), f"{matched}/{len(early)}"))
    twice = copy.deepcopy(events)
    twice.insert(wi + 1, copy.deepcopy(twice[wi]))
    ok, matched, res = common.trace_validate("Trace_Pipeline", [header] + twice, None, 300)
    results.append(("6 the same output written twice rejected", matched < len(twice) or bool(res.violation), f"{matched}/{len(twice)}"))
    nowrite = [e for e in events if e["ev"] not in ("Write", "WriteSkip")]
    ok, matched, res = common.trace_validate("Trace_Pipeline", [header] + nowrite, None, 300)
    results.append(("7 exit 0 without the output having been written rejected", matched < len(nowrite) or bool(res.violation), f"{matched}/{len(nowrite)} {res.violation or ''}"))
    good = {"lang": "typescript", "ident": list("user_name"), "rename": ["<none>"], "rule": "camelCase", "key": list("userName"), "kind": "struct", "fields_rule": "none"}
    badev = dict(good, key=list("username"))
    ok, matched, res = common.trace_validate("Trace_C01", [good, badev, good])
    results.append(("4 corrupted C01 key listed as bad", matched == 3 and res.bad == [2], f"bad={res.bad}"))
    # 8: Trace_Walk - one observed "not read" for an ordinary file is listed, its neighbours are accepted
    w = {"seg": "plain", "fname": "plain", "follow": False, "git": False, "read": True}
    ok, matched, res = common.trace_validate("Trace_Walk", [w, dict(w, read=False), dict(w, seg="link_dir", read=False), dict(w, seg="link_dir", read=True)])
    results.append(("8 an ordinary file not read / a linked directory followed without -L listed as bad", matched == 4 and res.bad == [2, 4], f"bad={res.bad}"))
    # 9: Trace_Writer - a placeholder that survives the run (stale content) is rejected, the conforming history is accepted
    f1 = {"out.ts": {"sha": "aaa", "mtime": "1"}}
    hist = [{"ev": "ref", "v": "v1", "files": {"out.ts": "aaa"}}, {"ev": "reset"}, {"ev": "touch", "files": {"out.ts": {"sha": "empty", "mtime": "0"}}},
            {"ev": "run", "v": "v1", "failed": False, "files": f1}, {"ev": "run", "v": "v1", "failed": False, "files": f1}]
    ok, matched, res = common.trace_validate("Trace_Writer", hist)
    stale = copy.deepcopy(hist)
    stale[3]["files"] = {"out.ts": {"sha": "empty", "mtime": "0"}}
    ok2, matched2, res2 = common.trace_validate("Trace_Writer", stale)
    results.append(("9 a run that leaves the placeholder in place is listed as bad", res.bad == [] and 4 in res2.bad, f"good bad={res.bad} stale bad={res2.bad}"))
    # 10: Trace_Compose / Trace_C05!DeclOk - a member whose key differs once a sibling follows it, and a declaration that lost a parameter, are listed
    m = {"lang": "swift", "item": "m_dashed", "alone": {"key": "the_subject-wire"}, "together": {"key": "the_subject-wire"}}
    ok, matched, res = common.trace_validate("Trace_Compose", [m, dict(m, together={"key": "the_subject_wire"}), m])
    d = {"lang": "typescript", "declared": ["P", "Q"], "params": ["P", "Q"]}
    ok2, matched2, res2 = common.trace_validate("Trace_C05", [d, dict(d, declared=["P"]), dict(d, declared=["Q", "P"]), d])
    results.append(("10 a member key that depends on a sibling / a declaration that lost or reordered a parameter listed as bad",
                    matched == 3 and res.bad == [2] and matched2 == 4 and res2.bad == [2, 3], f"compose bad={res.bad} decl bad={res2.bad}"))
    allok = True
    for name, passed, info in results:
        print(("ok   " if passed else "FAIL ") + name + "  [" + info + "]")
        allok &= passed
    common.cleanup()
    return 0 if allok else 1

if __name__ == "__main__":
    sys.exit(main())
