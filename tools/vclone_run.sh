#!/bin/bash
# tools/vclone_run.sh <slot> <patch|-> <tier> <ID>... : run checks against a patched scratch worktree of /repo, using a scratch
# copy of /verif (so that several patches can be judged in parallel without touching /repo or /verif).
# Scratch lives in /tmp/vc/<slot>; remove it with tools/vclone_run.sh <slot> --rm
SLOT=/tmp/vc/$1; PATCH=$2; TIER=$3; shift 3
if [ "$PATCH" = "--rm" ]; then git -C /repo worktree remove --force $SLOT/repo 2>/dev/null; rm -rf $SLOT; exit 0; fi
mkdir -p $SLOT
[ -d $SLOT/repo ] || git -C /repo worktree add --detach $SLOT/repo HEAD >/dev/null 2>&1 || exit 2
# the COMMITTED state of /verif (edits in progress in the working tree do not leak into a run)
mkdir -p $SLOT/verif.new && git -C /verif archive HEAD | tar -x -C $SLOT/verif.new && rsync -a --delete --exclude target --exclude work --exclude replays --exclude __pycache__ $SLOT/verif.new/ $SLOT/verif/ && rm -rf $SLOT/verif.new
sed -i "s#\"/repo/#\"$SLOT/repo/#" $SLOT/verif/harness/driver/Cargo.toml
git -C $SLOT/repo checkout -q --detach $(git -C /repo rev-parse HEAD) 2>/dev/null
git -C $SLOT/repo checkout -- . ; git -C $SLOT/repo clean -fdq
if [ "$PATCH" != "-" ]; then git -C $SLOT/repo apply $PATCH || { echo "patch does not apply: $PATCH"; exit 2; }; fi
cd $SLOT/verif
for P in "$@"; do
  s=$(date +%s)
  VERIF_REPO=$SLOT/repo ./check $P --tier $TIER > $SLOT/run.$P.log 2>&1; RC=$?
  echo "slot=$(basename $SLOT) patch=$(basename $(dirname $PATCH))/$(basename $PATCH) property=$P rc=$RC $(( $(date +%s)-s ))s violations=$(grep -c '^VIOLATION' $SLOT/run.$P.log) :: $(tail -1 $SLOT/run.$P.log | cut -c1-130)"
done
