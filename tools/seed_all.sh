#!/bin/bash
# tools/seed_all.sh [tier] : run every stored seed against its property's check on the current /repo HEAD.
# Uses patch_ported.diff when the original patch no longer applies. Prints one line per seed.
TIER=${1:-quick}
cd /verif || exit 2
git -C /repo diff --quiet || { echo "/repo is dirty"; exit 2; }
for d in seeded/*/; do
  N=$(basename $d); P=${N%%-*}
  PATCH=$d/patch.diff
  [ -f $d/patch_ported.diff ] && PATCH=$d/patch_ported.diff
  if ! git -C /repo apply --check /verif/$PATCH 2>/dev/null; then echo "seed=$N DOES-NOT-APPLY ($PATCH)"; continue; fi
  git -C /repo apply /verif/$PATCH
  ./check $P --tier $TIER > /verif/work/seedrun.$N.log 2>&1; RC=$?
  git -C /repo checkout -- .
  git -C /repo clean -fdq -- . 2>/dev/null
  NEUT=$(python3 -c "import json;print('neutralised' if json.load(open('$d/meta.json')).get('neutralised_by') else '')")
  echo "seed=$N property=$P tier=$TIER $NEUT rc=$RC violations=$(grep -c '^VIOLATION' /verif/work/seedrun.$N.log) :: $(tail -1 /verif/work/seedrun.$N.log | cut -c1-120)"
done
