#!/bin/bash
# tools/seed_take.sh <worktree> <name> <PROP> : verify a seeded change in its worktree, store it under seeded/<name>, run the check against it.
WT=$1; N=$2; P=$3
cd /verif || exit 2
tools/seed_verify.sh $WT | tail -1
mkdir -p seeded/$N && cp -r $WT/_seed/. seeded/$N/ && rm -f seeded/$N/demo_with.log seeded/$N/demo_without.log
tools/seed_run.sh $N $P quick
