#!/bin/bash
# tools/seed_take.sh <ID-n> : confirm a sub-agent's seeded change in its scratch worktree /tmp/seed/<ID-n>
# (patch applies on a clean checkout, builds, 370 tests pass, demo fails with / passes without the change),
# store it under /verif/seeded/<ID-n>/ and remove the worktree with its build output.
N=$1; WT=/tmp/seed/$N; S=$WT/_seed
[ -f $S/patch.diff ] && [ -f $S/meta.json ] || { echo "$N: no _seed/patch.diff or meta.json"; exit 2; }
cd $WT || exit 2
DEMO=$(python3 -c "import json;print(json.load(open('$S/meta.json'))['demo_cmd'])")
git checkout -q -- . ; git clean -fdq -e _seed -e target   # (not git stash: refs/stash is shared by all worktrees of /repo)
git apply --check $S/patch.diff || { echo "$N: patch does not apply on a clean checkout"; exit 1; }
( eval "$DEMO" ) > /tmp/seed/$N.demo_clean.log 2>&1; RC_CLEAN=$?
git apply $S/patch.diff
cargo build --offline -q -p typeshare-cli --features go,python 2>/tmp/seed/$N.build.log || { echo "$N: build fails"; exit 1; }
T=$(cargo test --workspace --no-fail-fast --offline --lib --bins --tests 2>&1 | grep -E "^test result" | awk '{p+=$4; f+=$6} END {print p":"f}')
( eval "$DEMO" ) > /tmp/seed/$N.demo_patched.log 2>&1; RC_PATCHED=$?
echo "$N: tests passed:failed=$T demo clean rc=$RC_CLEAN patched rc=$RC_PATCHED"
if [ "$T" = "370:0" ] && [ $RC_CLEAN = 0 ] && [ $RC_PATCHED != 0 ]; then
  mkdir -p /verif/seeded/$N && cp -r $S/. /verif/seeded/$N/
  python3 - <<PY
import json
p='/verif/seeded/$N/meta.json'; m=json.load(open(p))
m['confirmed']={'tests':'370 passed, 0 failed with the change','demo_with_change_rc':$RC_PATCHED,'demo_without_change_rc':$RC_CLEAN,
 'ran':'tools/seed_take.sh $N (git apply --check on clean checkout; cargo build; cargo test --workspace --lib --bins --tests; demo with / without)'}
json.dump(m,open(p,'w'),indent=1)
PY
  cd /; git -C /repo worktree remove --force $WT; rm -f /tmp/seed/$N.*.log
  echo "$N: CONFIRMED and stored"
else
  echo "$N: NOT confirmed (logs in /tmp/seed/$N.*.log)"; exit 1
fi
