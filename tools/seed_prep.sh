#!/bin/bash
# tools/seed_prep.sh <wave> "<steer>" : one scratch worktree of /repo (warm target copied from /tmp/seed/base) and one prompt per property
W=$1; STEER=$2
mkdir -p /tmp/seedprompts /tmp/seed
if [ ! -d /tmp/seed/base/target ]; then
  git -C /repo worktree add --detach /tmp/seed/base HEAD >/dev/null 2>&1
  ( cd /tmp/seed/base && cargo build --offline -q -p typeshare-cli --features go,python && cargo test --workspace --offline --no-run -q --lib --bins --tests ) >/dev/null 2>&1
fi
for p in 01 02 03 04 05 06 07 08 09 10 11 12 13 14 15 16 17 18 19 20; do
  WT=/tmp/seed/C$p-$W
  [ -d $WT ] || { git -C /repo worktree add --detach $WT HEAD >/dev/null 2>&1 && cp -r /tmp/seed/base/target $WT/target; }
  python3 /verif/tools/seed_prompt.py C$p $W "$STEER" > /tmp/seedprompts/prompt_C$p-$W.txt
done
ls -d /tmp/seed/C*-$W | wc -l
