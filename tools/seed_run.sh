#!/bin/bash
# tools/seed_run.sh <seed-name> <PROPERTY> [tier] : apply /verif/seeded/<name>/patch.diff (or patch_ported.diff) to /repo, run the check, undo.
N=$1; P=$2; TIER=${3:-quick}
cd /verif || exit 2
git -C /repo diff --quiet || { echo "/repo is dirty"; exit 2; }
PATCH=/verif/seeded/$N/patch.diff; [ -f /verif/seeded/$N/patch_ported.diff ] && PATCH=/verif/seeded/$N/patch_ported.diff
git -C /repo apply $PATCH || exit 2
mkdir -p /verif/work
./check $P --tier $TIER > /verif/work/seedrun.$N.log 2>&1; RC=$?
git -C /repo checkout -- .
V=$(grep -c "^VIOLATION" /verif/work/seedrun.$N.log)
echo "seed=$N property=$P tier=$TIER rc=$RC violations=$V"
grep "^VIOLATION" /verif/work/seedrun.$N.log | head -3
tail -1 /verif/work/seedrun.$N.log
