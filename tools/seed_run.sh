#!/bin/bash
# tools/seed_run.sh <seed-name> <PROPERTY> [tier] : apply /verif/seeded/<name>/patch.diff to /repo, run the check, undo.
N=$1; P=$2; TIER=${3:-quick}
cd /verif || exit 2
git -C /repo diff --quiet || { echo "/repo is dirty"; exit 2; }
git -C /repo apply /verif/seeded/$N/patch.diff || exit 2
./check $P --tier $TIER > /tmp/seedrun.$N.log 2>&1; RC=$?
git -C /repo checkout -- .
V=$(grep -c "^VIOLATION" /tmp/seedrun.$N.log)
echo "seed=$N property=$P tier=$TIER rc=$RC violations=$V"
grep "^VIOLATION" /tmp/seedrun.$N.log | head -3
tail -1 /tmp/seedrun.$N.log
