#!/usr/bin/env python3
"""How strict are the executable grammars? Delete / duplicate one token of accepted snapshot files and count rejections.
usage: grammar_mutants.py [files-per-language]"""
import sys, glob, random, collections
sys.path.insert(0, "/verif")
from vlib import common, tokclass
EXT = {"kotlin": "kt", "swift": "swift", "scala": "scala", "go": "go", "typescript": "ts"}
N = int(sys.argv[1]) if len(sys.argv) > 1 else 6
rnd = random.Random(1)
events, meta = [], []
for lang, ext in EXT.items():
    files = sorted(glob.glob(f"/repo/core/data/tests/*/output.{ext}"))
    for f in rnd.sample(files, N):
        toks = tokclass.classes(lang, open(f).read())
        for i in range(len(toks)):
            events.append({"lang": lang, "lex_ok": True, "tokens": toks[:i] + toks[i + 1:]}); meta.append((lang, "delete", toks[i]))
            events.append({"lang": lang, "lex_ok": True, "tokens": toks[:i] + [toks[i]] + toks[i:]}); meta.append((lang, "duplicate", toks[i]))
ok, matched, res = common.trace_validate("Trace_C10", events, timeout=1800, heap="6g")
bad = set(res.bad)
stat = collections.Counter(); surv = collections.Counter()
for i, (lang, kind, tok) in enumerate(meta):
    stat[(lang, kind, "all")] += 1
    if i + 1 in bad:
        stat[(lang, kind, "rejected")] += 1
    else:
        surv[(lang, kind, tok)] += 1
for lang in EXT:
    for kind in ("delete", "duplicate"):
        a, r = stat[(lang, kind, "all")], stat[(lang, kind, "rejected")]
        print(f"{lang:11s} {kind:9s} {r}/{a} rejected ({100 * r // max(a, 1)}%)  survivors: " + ", ".join(f"{t}x{n}" for (l, k, t), n in surv.most_common(400) if l == lang and k == kind)[:300])
common.cleanup()
