#!/bin/bash
# tools/seed_all_par.sh [tier] [nslots] : every stored seed against its property's check, in parallel scratch clones
# (tools/vclone_run.sh; /repo and /verif themselves are not touched). One line per seed in /tmp/seedall.<slot>.log
TIER=${1:-quick}; N=${2:-4}
cd /verif || exit 2
ls -d seeded/*/ | sed 's#seeded/##; s#/##' > /tmp/seedall.list
for k in $(seq 1 $N); do
  ( i=0; while read S; do i=$((i+1)); [ $(( i % N )) -eq $(( k % N )) ] || continue
      P=${S%%-*}; PATCH=/verif/seeded/$S/patch.diff; [ -f /verif/seeded/$S/patch_ported.diff ] && PATCH=/verif/seeded/$S/patch_ported.diff
      tools/vclone_run.sh a$k $PATCH $TIER $P | sed "s/^/seed=$S /"
    done < /tmp/seedall.list ) > /tmp/seedall.$k.log 2>&1 &
done
wait
cat /tmp/seedall.*.log | sort
