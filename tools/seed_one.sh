#!/bin/bash
# tools/seed_one.sh <ID-n> [tier] [property] : apply one stored seed to /repo, run the check, undo.
N=$1; TIER=${2:-quick}; P=${3:-${N%%-*}}; d=/verif/seeded/$N
cd /verif || exit 2
git -C /repo diff --quiet || { echo "/repo is dirty"; exit 2; }
PATCH=$d/patch.diff; [ -f $d/patch_ported.diff ] && PATCH=$d/patch_ported.diff
git -C /repo apply $PATCH || exit 2
mkdir -p work
./check $P --tier $TIER > work/seedrun.$N.$P.log 2>&1; RC=$?
git -C /repo checkout -- . ; git -C /repo clean -fdq -- . 2>/dev/null
echo "seed=$N property=$P tier=$TIER rc=$RC violations=$(grep -c '^VIOLATION' work/seedrun.$N.$P.log) :: $(tail -1 work/seedrun.$N.$P.log | cut -c1-140)"
