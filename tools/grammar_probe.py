#!/usr/bin/env python3
"""debug aid: which top-level chunk of a generated file does Grammar_<lang> reject?  usage: grammar_probe.py <lang> <file>"""
import sys, re
sys.path.insert(0, "/verif")
from vlib import common, tokclass

lang, path = sys.argv[1], sys.argv[2]
text = open(path).read()
head = {"go": "package p\n", "kotlin": "", "scala": "", "swift": "", "typescript": ""}[lang]
# split at lines that start a top-level declaration (column 0, not a closing brace / comment)
lines = text.split("\n")
chunks, cur = [], []
for l in lines:
    if l and not l[0].isspace() and l[0] not in "})]/*" and cur and not cur[-1].rstrip().endswith(","):
        chunks.append("\n".join(cur)); cur = []
    cur.append(l)
chunks.append("\n".join(cur))
events = [{"lang": lang, "tokens": tokclass.classes(lang, text)}]
for c in chunks:
    t = c if (lang == "go" and c.lstrip().startswith("package")) else head + c
    events.append({"lang": lang, "lex_ok": True, "tokens": tokclass.classes(lang, t)})
ok, matched, res = common.trace_validate("Trace_C10", events, timeout=300)
print("whole file accepted:", 1 not in res.bad)
for b in res.bad:
    if b > 1:
        print("--- rejected chunk", b - 1); print(chunks[b - 2][:600]); print(events[b - 1]["tokens"][:80])
common.cleanup()
