#!/usr/bin/env python3
"""tools/seed_prompt.py <ID> <wave> : prints the sub-agent prompt for a new seeded regression.
The prompt contains ONLY the property text, the worktree path and (from wave 5 on) one-line summaries of
the earlier seeds of that property, so that the new change explores a different idea. Nothing about the checks."""
import json, sys, os, glob
pid, wave = sys.argv[1], sys.argv[2]
root = os.path.dirname(os.path.dirname(os.path.abspath(__file__)))
prop = next(json.loads(l) for l in open(f"{root}/properties.jsonl") if json.loads(l)["id"] == pid)
text = f'{prop["id"]}: {prop.get("title","")}\n{prop.get("statement") or prop.get("text")}'
wt = f"/tmp/seed/{pid}-{wave}"
t = open(f"{root}/tools/seed_prompt.txt").read().replace("__WT__", wt).replace("__PROP__", text)
prior = []
for d in sorted(glob.glob(f"{root}/seeded/{pid}-*/meta.json")):
    try:
        m = json.load(open(d)); prior.append("- " + m.get("summary", "")[:400].replace("\n", " "))
    except Exception: pass
extra = sys.argv[3] if len(sys.argv) > 3 else ""
if prior:
    t += ("\n\nIdeas that have ALREADY been used for this property (do something different: another code site, another language backend, "
          "another mode/option, another mechanism; do not produce a variation of these):\n" + "\n".join(prior))
if extra:
    t += "\n\nAdditional steer for this round: " + extra
t += ("\n\nPractical notes: builds are offline; the worktree already has a warm `target/` directory so builds take well under a minute. "
      "RUST_BACKTRACE may be set in the environment. Do not run `cargo clean`.")
print(t)
