#!/bin/bash
# tools/seed_verify.sh <worktree> : confirm a seeded change myself in its scratch worktree:
#  with the change: builds, 370 tests pass, demo fails; without: demo passes. Prints a one-line verdict.
WT=$1; cd "$WT" || exit 2
CMD=$(python3 -c "import json;print(json.load(open('_seed/meta.json'))['demo_cmd'])")
git apply -R --check _seed/patch.diff 2>/dev/null || { echo "patch not applied in worktree"; exit 2; }
cargo build --offline -q -p typeshare-cli --features go,python 2>/dev/null || { echo "VERDICT build-fails"; exit 1; }
T=$(cargo test --workspace --no-fail-fast --offline --lib --bins --tests 2>&1 | grep -E "^test result" | awk '{p+=$4; f+=$6} END {print p":"f}')
timeout 900 bash -c "$CMD" > _seed/demo_with.log 2>&1; W=$?
git apply -R _seed/patch.diff
timeout 900 bash -c "$CMD" > _seed/demo_without.log 2>&1; WO=$?
git apply _seed/patch.diff
echo "VERDICT tests(pass:fail)=$T demo_with_change_rc=$W demo_without_rc=$WO"
