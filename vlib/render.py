"""Layer B: abstract programs -> Rust source text. No expectations are computed here."""

SERDE_DERIVE = ""  # typeshare only reads attributes; the sources are never compiled unless a check says so


def ty(t):
    """Abstract Rust type -> text. t is a string (leaf written as is) or a dict:
    {"k":"vec","e":t} {"k":"option","e":t} {"k":"map","key":t,"val":t} {"k":"array","e":t,"n":2}
    {"k":"slice","e":t} {"k":"ref","e":t} {"k":"wrap","w":"Box","e":t} {"k":"path","p":"a::b","e":t}
    {"k":"user","n":"Name","args":[t]}"""
    if isinstance(t, str):
        return t
    k = t["k"]
    if k == "vec":
        return f"Vec<{ty(t['e'])}>"
    if k == "option":
        return f"Option<{ty(t['e'])}>"
    if k == "map":
        return f"HashMap<{ty(t['key'])}, {ty(t['val'])}>"
    if k == "array":
        return f"[{ty(t['e'])}; {t.get('n', 2)}]"
    if k == "slice":
        return f"&'static [{ty(t['e'])}]"
    if k == "ref":
        return f"&'static {ty(t['e'])}"
    if k == "wrap":
        if t["w"] == "Cow":
            return f"Cow<'static, {ty(t['e'])}>"
        return f"{t['w']}<{ty(t['e'])}>"
    if k == "path":
        inner = ty(t["e"])
        return f"{t['p']}::{inner}"
    if k == "user":
        if t.get("args"):
            return f"{t['n']}<{', '.join(ty(a) for a in t['args'])}>"
        return t["n"]
    if k == "unit":
        return "()"
    if k == "tuple":
        return "(" + ", ".join(ty(e) for e in t["es"]) + ")"
    raise ValueError(f"unknown abstract type {t}")


def attrs(lst, indent=""):
    return "".join(f"{indent}{a}\n" for a in (lst or []))


def generics(g):
    return f"<{', '.join(g)}>" if g else ""


def field(f, indent="    "):
    return f"{attrs(f.get('attrs'), indent)}{indent}pub {f['name']}: {ty(f['ty'])},\n"


def vfield(f, indent="        "):
    return f"{attrs(f.get('attrs'), indent)}{indent}{f['name']}: {ty(f['ty'])},\n"


def item(it):
    k = it["kind"]
    head = attrs(it.get("doc")) + ("#[typeshare]\n" if it.get("annotated", True) else "") + attrs(it.get("attrs"))
    if k == "struct":
        if it.get("unit"):
            return f"{head}pub struct {it['name']}{generics(it.get('generics'))};\n"
        if it.get("tuple") is not None:
            return f"{head}pub struct {it['name']}{generics(it.get('generics'))}({', '.join(ty(x) for x in it['tuple'])});\n"
        return f"{head}pub struct {it['name']}{generics(it.get('generics'))} {{\n" + \
            "".join(field(f) for f in it.get("fields", [])) + "}\n"
    if k == "enum":
        out = f"{head}pub enum {it['name']}{generics(it.get('generics'))} {{\n"
        for v in it.get("variants", []):
            out += attrs(v.get("attrs"), "    ")
            vk = v.get("kind", "unit")
            if vk == "unit":
                out += f"    {v['name']},\n"
            elif vk == "newtype":
                out += f"    {v['name']}({ty(v['ty'])}),\n"
            elif vk == "tuple":
                out += f"    {v['name']}({', '.join(ty(x) for x in v['tys'])}),\n"
            else:
                out += f"    {v['name']} {{\n" + "".join(vfield(f) for f in v.get("fields", [])) + "    },\n"
        return out + "}\n"
    if k == "alias":
        return f"{head}pub type {it['name']}{generics(it.get('generics'))} = {ty(it['ty'])};\n"
    if k == "const":
        return f"{head}pub const {it['name']}: {ty(it['ty'])} = {it.get('value', '1')};\n"
    raise ValueError(k)


def in_module(it):
    text = item(it)
    if it.get("module"):
        text = f"pub mod {it['module']} {{\n" + "".join("    " + l + "\n" for l in text.splitlines()) + "}\n"
    return text


def program(items, prelude=""):
    return prelude + "\n".join(in_module(i) for i in items)


def tagged(tag="type", content="content", extra=""):
    e = f", {extra}" if extra else ""
    return f'#[serde(tag = "{tag}", content = "{content}"{e})]'
