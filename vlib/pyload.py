"""Import generated Python under the stub pydantic and force every type hint (run as a subprocess:
python3 -m vlib.pyload FILE...). Prints one JSON line per file: {"file":..., "status": ok|syntax|import|hints, "error":..., "name":...}"""
import importlib.util
import json
import os
import re
import sys
import typing

sys.path.insert(0, os.path.join(os.path.dirname(os.path.dirname(os.path.abspath(__file__))), "pystub"))


def load(path):
    src = open(path).read()
    try:
        compile(src, path, "exec")
    except SyntaxError as e:
        return {"status": "syntax", "error": f"SyntaxError: {e.msg} (line {e.lineno})"}
    spec = importlib.util.spec_from_file_location("gen_" + re.sub(r"\W", "_", os.path.basename(path)), path)
    mod = importlib.util.module_from_spec(spec)
    try:
        spec.loader.exec_module(mod)
    except Exception as e:  # noqa
        m = re.search(r"name '(\w+)' is not defined", str(e))
        return {"status": "import", "error": f"{type(e).__name__}: {e}", "name": m.group(1) if m else None}
    for name, obj in list(vars(mod).items()):
        if isinstance(obj, type) and getattr(obj, "__module__", None) == mod.__name__:
            try:
                typing.get_type_hints(obj, vars(mod), None, include_extras=True)
            except Exception as e:  # noqa
                m = re.search(r"name '(\w+)' is not defined", str(e))
                return {"status": "hints", "error": f"{name}: {type(e).__name__}: {e}", "name": m.group(1) if m else None}
    return {"status": "ok"}


if __name__ == "__main__":
    for p in sys.argv[1:]:
        r = load(p)
        r["file"] = p
        print(json.dumps(r))
