"""Token-level helpers shared by the six target-language extractors (layer B).

A token is (kind, text, line) with kind in: id, num, str, punct, comment, nl (only when keep_nl).
Comments are kept as tokens so that C10/C15 can look at them; extractors normally skip them.
The lexers are deliberately small: they know strings, comments and identifiers of each language,
which is what "every delimiter/string/comment is closed" (C10) and "doc text stays inside a
comment" (C15) need.
"""
import re


class LexError(Exception):
    pass


class ExtractError(Exception):
    pass


ID_START = re.compile(r"[A-Za-z_À-￿$]")
ID_CONT = re.compile(r"[A-Za-z0-9_À-￿$]")


def lex(text, lang):
    """lang in ts, kt, swift, scala, go, py. Returns list of (kind, text, line)."""
    toks = []
    i, n, line = 0, len(text), 1
    line_comment = "#" if lang == "py" else "//"
    block = lang != "py"
    nested_block = lang in ("kt", "swift", "scala")
    while i < n:
        c = text[i]
        if c == "\n":
            toks.append(("nl", "\n", line))
            line += 1
            i += 1
            continue
        if c in " \t\r":
            i += 1
            continue
        if text.startswith(line_comment, i):
            j = text.find("\n", i)
            j = n if j < 0 else j
            toks.append(("comment", text[i:j], line))
            i = j
            continue
        if block and text.startswith("/*", i):
            depth, j = 1, i + 2
            while j < n and depth:
                if text.startswith("*/", j):
                    depth -= 1
                    j += 2
                elif nested_block and text.startswith("/*", j):
                    depth += 1
                    j += 2
                else:
                    j += 1
            if depth:
                raise LexError(f"unterminated block comment starting at line {line}")
            toks.append(("comment", text[i:j], line))
            line += text.count("\n", i, j)
            i = j
            continue
        if lang == "py" and (text.startswith('"""', i) or text.startswith("'''", i)):
            q = text[i:i + 3]
            j = i + 3
            while True:
                k = text.find(q, j)
                if k < 0:
                    raise LexError(f"unterminated triple-quoted string starting at line {line}")
                # count preceding backslashes
                b = 0
                while text[k - 1 - b] == "\\":
                    b += 1
                if b % 2 == 0:
                    break
                j = k + 1
            toks.append(("str3", text[i:k + 3], line))
            line += text.count("\n", i, k + 3)
            i = k + 3
            continue
        if lang == "go" and c == "`":
            k = text.find("`", i + 1)
            if k < 0:
                raise LexError(f"unterminated raw string at line {line}")
            toks.append(("str", text[i:k + 1], line))
            line += text.count("\n", i, k + 1)
            i = k + 1
            continue
        if c == '"' or (c == "'" and lang in ("ts", "py")):
            j = i + 1
            while j < n and text[j] != c:
                if text[j] == "\n":
                    raise LexError(f"unterminated string literal at line {line}")
                if text[j] == "\\":
                    j += 1
                j += 1
            if j >= n:
                raise LexError(f"unterminated string literal at line {line}")
            toks.append(("str", text[i:j + 1], line))
            i = j + 1
            continue
        if lang == "swift" and c == "`":
            k = text.find("`", i + 1)
            if k < 0:
                raise LexError(f"unterminated back-ticked identifier at line {line}")
            toks.append(("id", text[i:k + 1], line))
            i = k + 1
            continue
        if ID_START.match(c):
            j = i + 1
            while j < n and ID_CONT.match(text[j]):
                j += 1
            toks.append(("id", text[i:j], line))
            i = j
            continue
        if c.isdigit():
            j = i + 1
            while j < n and (text[j].isalnum() or text[j] in "._"):
                j += 1
            toks.append(("num", text[i:j], line))
            i = j
            continue
        for p in ("=>", "->", "::", "...", "&&", "||", "==", "!=", "<=", ">=", ":="):
            if text.startswith(p, i):
                toks.append(("punct", p, line))
                i += len(p)
                break
        else:
            toks.append(("punct", c, line))
            i += 1
    return toks


def unquote(s):
    """String literal token -> value (handles the escapes typeshare's {:?} can produce)."""
    if s[0] == "`":
        return s[1:-1]
    body = s[1:-1]
    out, i = [], 0
    while i < len(body):
        c = body[i]
        if c == "\\" and i + 1 < len(body):
            d = body[i + 1]
            if d == "u" and i + 2 < len(body) and body[i + 2] == "{":
                k = body.index("}", i)
                out.append(chr(int(body[i + 3:k], 16)))
                i = k + 1
                continue
            out.append({"n": "\n", "t": "\t", "r": "\r", "0": "\0"}.get(d, d))
            i += 2
        else:
            out.append(c)
            i += 1
    return "".join(out)


def check_balanced(toks):
    """Every ( [ { closed in order. Returns None or an error string."""
    stack = []
    pairs = {")": "(", "]": "[", "}": "{"}
    for k, t, ln in toks:
        if k != "punct":
            continue
        if t in "([{":
            stack.append((t, ln))
        elif t in ")]}":
            if not stack or stack[-1][0] != pairs[t]:
                return f"unbalanced `{t}` at line {ln}"
            stack.pop()
    if stack:
        return f"unclosed `{stack[-1][0]}` from line {stack[-1][1]}"
    return None


class Cursor:
    """Cursor over significant tokens (comments and newlines skipped unless asked)."""

    def __init__(self, toks, keep_nl=False):
        self.all = toks
        self.toks = [t for t in toks if t[0] != "comment" and (keep_nl or t[0] != "nl")]
        self.i = 0

    def peek(self, k=0):
        j = self.i + k
        return self.toks[j] if j < len(self.toks) else ("eof", "", -1)

    def text(self, k=0):
        return self.peek(k)[1]

    def kind(self, k=0):
        return self.peek(k)[0]

    def at(self, *texts):
        return self.peek()[1] in texts and self.peek()[0] != "str"

    def next(self):
        t = self.peek()
        self.i += 1
        return t

    def eat(self, text):
        if self.at(text):
            self.i += 1
            return True
        return False

    def expect(self, text):
        t = self.next()
        if t[1] != text or t[0] == "str":
            raise ExtractError(f"expected `{text}` but found `{t[1]}` at line {t[2]}")
        return t

    def expect_id(self):
        t = self.next()
        if t[0] != "id":
            raise ExtractError(f"expected identifier but found `{t[1]}` at line {t[2]}")
        return t[1]

    def eof(self):
        return self.i >= len(self.toks)

    def skip_balanced(self, open_, close):
        """Cursor is just after `open_`; skip to after the matching close."""
        depth = 1
        while depth:
            t = self.next()
            if t[0] == "eof":
                raise ExtractError(f"unclosed {open_}")
            if t[0] == "punct":
                if t[1] == open_:
                    depth += 1
                elif t[1] == close:
                    depth -= 1


def prim(n):
    return {"k": "prim", "n": n}


def user(n, args=None):
    return {"k": "user", "n": n, "args": args or []}


def seq(e, n=None):
    d = {"k": "seq", "e": e}
    if n is not None:
        d["n"] = n
    return d


def mapt(key, val):
    return {"k": "map", "key": key, "val": val}


def opt(e):
    return {"k": "opt", "e": e}
