"""Go extractor: generated text -> Observation (see OBSERVATION.md).

Shapes understood (everything typeshare's Go backend writes):
  package p
  import "m"                      /  import ( "a" NL "b" )
  type Name[T any, ..] struct { Field TYPE `json:"key[,omitempty]"` ... }
  type Name TYPE                  /  type Name = TYPE
  const Name TYPE = [-]literal
  unit enum:       type X string NL const ( XVariant X = "wire" ... )
  algebraic enum:  type XTags string NL const ( .. ) NL type X struct{ Tag XTags `json:"tag"` NL content interface{} }
                   func (x *X) UnmarshalJSON.. / func (x X) MarshalJSON.. / accessors / New.. constructors
                   -> folded into ONE def of kind "union" named X
Go is newline sensitive: a declaration / field has to end at a newline (or `;`, `}`), which is enforced.
"""
from .base import Cursor, ExtractError, lex, mapt, opt, prim, seq, unquote, user

# predeclared Go types + the empty composite types + the two qualified std types the backend writes
PRIMS = {"string", "bool", "int", "int8", "int16", "int32", "int64",
         "uint", "uint8", "uint16", "uint32", "uint64", "uintptr",
         "float32", "float64", "complex64", "complex128", "rune", "byte", "any", "error",
         "interface{}", "struct{}", "time.Time", "json.RawMessage"}


# ------------------------------------------------------------------ small cursor helpers

def skipnl(c):
    while c.kind() == "nl" or c.at(";"):
        c.next()


def expect_seq(c, *texts):
    """expect the given tokens in order, newlines between them allowed."""
    for t in texts:
        skipnl(c)
        c.expect(t)


def end_of_decl(c, what):
    """a declaration / field must be followed by a newline, `;`, a closing brace/paren or the end of the file."""
    if c.kind() in ("nl", "eof") or c.at(";", "}", ")"):
        return
    t = c.peek()
    raise ExtractError(f"unexpected `{t[1]}` after {what} at line {t[2]}")


# ------------------------------------------------------------------ types

def parse_type(c):
    k, s, ln = c.next()
    if k == "punct":
        if s == "*":
            return opt(parse_type(c))
        if s == "[":
            if c.eat("]"):
                return seq(parse_type(c))
            n = c.next()
            if n[0] != "num" or not n[1].isdigit():
                raise ExtractError(f"array length `{n[1]}` is not an integer literal at line {n[2]}")
            c.expect("]")
            return seq(parse_type(c), int(n[1]))
        raise ExtractError(f"unexpected `{s}` in type at line {ln}")
    if k != "id":
        raise ExtractError(f"unexpected `{s or k}` where a type should be at line {ln}")
    if s == "map":
        c.expect("[")
        key = parse_type(c)
        c.expect("]")
        return mapt(key, parse_type(c))
    if s in ("interface", "struct"):
        # only the empty forms are ever written in type position
        c.expect("{")
        c.expect("}")
        return prim(s + "{}")
    if s in ("func", "chan", "type", "const", "var", "package", "import"):
        raise ExtractError(f"keyword `{s}` where a type should be at line {ln}")
    name = s
    while c.at(".") and c.kind(1) == "id":
        c.next()
        name += "." + c.next()[1]
    args = []
    if c.at("["):
        c.next()
        while True:
            args.append(parse_type(c))
            if not c.eat(","):
                break
        c.expect("]")
    if name in PRIMS and not args:
        return prim(name)
    return user(name, args)


# ------------------------------------------------------------------ struct tags

def tag_lookup(tag, key):
    """reflect.StructTag.Lookup: value of `key` in a conventional struct tag string, or None."""
    while tag:
        i = 0
        while i < len(tag) and tag[i] == " ":
            i += 1
        tag = tag[i:]
        if not tag:
            break
        i = 0
        while i < len(tag) and tag[i] > " " and tag[i] not in ':"' and tag[i] != "\x7f":
            i += 1
        if i == 0 or i + 1 >= len(tag) or tag[i] != ":" or tag[i + 1] != '"':
            break
        name = tag[:i]
        tag = tag[i + 1:]
        i = 1
        while i < len(tag) and tag[i] != '"':
            if tag[i] == "\\":
                i += 1
            i += 1
        if i >= len(tag):
            break
        qvalue = tag[:i + 1]
        tag = tag[i + 1:]
        if name == key:
            return go_unquote(qvalue)
    return None


def go_unquote(q):
    """strconv.Unquote for an interpreted string literal: None when it contains an escape sequence Go does not have
    (reflect.StructTag.Lookup then reports the key as absent)"""
    import re as _re
    body, out, i = q[1:-1], [], 0
    simple = {"a": "\a", "b": "\b", "f": "\f", "n": "\n", "r": "\r", "t": "\t", "v": "\v", "\\": "\\", '"': '"'}
    while i < len(body):
        c = body[i]
        if c != "\\":
            out.append(c)
            i += 1
            continue
        d = body[i + 1] if i + 1 < len(body) else ""
        if d in simple:
            out.append(simple[d])
            i += 2
            continue
        m = _re.match(r"x([0-9a-fA-F]{2})|u([0-9a-fA-F]{4})|U([0-9a-fA-F]{8})|([0-7]{3})", body[i + 1:])
        if not m:
            return None
        h = m.group(1) or m.group(2) or m.group(3)
        out.append(chr(int(h, 16)) if h else chr(int(m.group(4), 8)))
        i += 1 + len(m.group(0))
    return "".join(out)


def parse_fields(c):
    """after `{`: fields until the matching `}` (consumed). Returns MEMBER list."""
    members = []
    while True:
        skipnl(c)
        if c.at("}"):
            break
        t = c.next()
        if t[0] != "id":
            raise ExtractError(f"unexpected `{t[1] or t[0]}` where a field name should be at line {t[2]}")
        ident, line = t[1], t[2]
        if c.kind() in ("nl", "str", "eof") or c.at("}", ";"):
            raise ExtractError(f"field `{ident}` has no type (embedded fields are not a typeshare shape) at line {line}")
        ty = parse_type(c)
        raw = None
        if c.kind() == "str":
            tok = c.next()
            if not tok[1].startswith("`"):
                raise ExtractError(f"struct tag of `{ident}` is not a raw string at line {tok[2]}")
            if "\n" in tok[1]:
                raise ExtractError(f"struct tag of `{ident}` spans several lines at line {tok[2]}")
            raw = tok[1][1:-1]
        end_of_decl(c, f"field `{ident}`")
        pointer = ty["k"] == "opt"
        if pointer:
            ty = ty["e"]
        key, binding, omitempty = ident, "bare", False
        if raw is not None:
            val = tag_lookup(raw, "json")
            if val is None:
                # reflect.StructTag.Lookup fails on a tag whose value is not a valid Go string (e.g. an escape Go does not have):
                # encoding/json then falls back to the FIELD NAME and knows no options. Reported as Go behaves.
                val = ""
                binding = "malformed-tag"
            name, *opts = val.split(",")
            omitempty = "omitempty" in opts
            if name:
                # encoding/json: an empty name means "use the field name"
                key, binding = name, "tag"
        members.append({"ident": ident, "key": key, "binding": binding, "optional": omitempty, "ty": ty,
                        "pointer": pointer, "omitempty": omitempty, "tag": raw, "line": line})
    c.expect("}")
    return members


# ------------------------------------------------------------------ const block

def parse_const_block(c):
    """after `const (`: entries `Name Type = "wire"` until `)` (consumed). Returns [(ident, type name, wire, line)]."""
    out = []
    while True:
        skipnl(c)
        if c.at(")"):
            break
        t = c.next()
        if t[0] != "id":
            raise ExtractError(f"unexpected `{t[1] or t[0]}` in const block at line {t[2]}")
        tyname = c.expect_id()
        c.expect("=")
        v = c.next()
        if v[0] != "str" or not v[1].startswith('"'):
            raise ExtractError(f"constant `{t[1]}` has no string value at line {v[2]}")
        end_of_decl(c, f"constant `{t[1]}`")
        out.append((t[1], tyname, unquote(v[1]), t[2]))
    c.expect(")")
    end_of_decl(c, "const block")
    return out


# ------------------------------------------------------------------ functions of an algebraic enum

def body_cursor(c):
    """cursor is just after the `{` of a function body: returns a sub-cursor over the body, main cursor ends after `}`."""
    start = c.i
    c.skip_balanced("{", "}")
    return Cursor(c.toks[start:c.i - 1], keep_nl=True)


def parse_func_head(c):
    """after `func`: returns dict(recv, recv_ptr, recv_ty, name, params [(name, TYPE)], results [TYPE], line); cursor after `{`."""
    line = c.peek()[2]
    f = {"recv": None, "recv_ptr": False, "recv_ty": None, "line": line}
    if c.eat("("):
        f["recv"] = c.expect_id()
        f["recv_ptr"] = c.eat("*")
        f["recv_ty"] = c.expect_id()
        c.expect(")")
    f["name"] = c.expect_id()
    c.expect("(")
    params = []
    while not c.at(")"):
        pn = c.expect_id()
        params.append((pn, parse_type(c)))
        if not c.eat(","):
            break
    c.expect(")")
    results = []
    if c.eat("("):
        while not c.at(")"):
            results.append(parse_type(c))
            if not c.eat(","):
                break
        c.expect(")")
    elif not c.at("{"):
        results.append(parse_type(c))
    f["params"], f["results"] = params, results
    c.expect("{")
    return f


def inner_enum_struct(b, fname, line):
    """`var enum struct { Tag T `json:".."` NL Content T `json:".."` }` at the start of a (Un)MarshalJSON body."""
    expect_seq(b, "var", "enum", "struct", "{")
    ms = parse_fields(b)
    if [m["ident"] for m in ms] != ["Tag", "Content"]:
        raise ExtractError(f"{fname} (line {line}): inner struct does not have exactly the fields Tag, Content")
    for m in ms:
        if m["tag"] is None:
            raise ExtractError(f"{fname} (line {line}): inner field `{m['ident']}` has no json tag")
    return ms


def parse_unmarshal(c, f, tag_field, content_field, tag_type):
    b = body_cursor(c)
    ms = inner_enum_struct(b, "UnmarshalJSON", f["line"])
    if ms[0]["ty"] != user(tag_type) or ms[1]["ty"] != prim("json.RawMessage"):
        raise ExtractError(f"UnmarshalJSON (line {f['line']}): inner struct fields are not `{tag_type}` / json.RawMessage")
    while not b.at("switch"):
        if b.kind() == "eof":
            raise ExtractError(f"UnmarshalJSON (line {f['line']}) has no switch over the tag")
        b.next()
    b.next()
    b.expect(f["recv"])
    b.expect(".")
    b.expect(tag_field)
    b.expect("{")
    cases = []
    while True:
        skipnl(b)
        if b.at("}"):
            break
        b.expect("case")
        const = b.expect_id()
        line = b.expect(":")[2]
        skipnl(b)
        if b.eat("var"):
            b.expect("res")
            ty = parse_type(b)
            end_of_decl(b, "`var res` declaration")
            expect_seq(b, f["recv"], ".", content_field, "=", "&", "res")
            end_of_decl(b, "content assignment")
            cases.append((const, ty, line))
        elif b.eat("return"):
            b.expect("nil")
            end_of_decl(b, "`return nil`")
            cases.append((const, None, line))
        else:
            t = b.peek()
            raise ExtractError(f"unexpected `{t[1]}` in decoding case `{const}` at line {t[2]}")
    return ms, cases


def parse_marshal(c, f, tag_type):
    b = body_cursor(c)
    ms = inner_enum_struct(b, "MarshalJSON", f["line"])
    if ms[0]["ty"] != user(tag_type) or ms[1]["ty"] != prim("interface{}"):
        raise ExtractError(f"MarshalJSON (line {f['line']}): inner struct fields are not `{tag_type}` / interface{{}}")
    return ms


def parse_accessor(c, f, content_field):
    """func (x X) Variant() [*]T { res, _ := x.content.(*T) NL return [*]res }  ->  (name, payload TYPE, line)"""
    where = f"accessor `{f['name']}` (line {f['line']})"
    if f["params"] or len(f["results"]) != 1 or f["recv_ptr"]:
        raise ExtractError(f"{where} does not have the shape `func (x X) V() T`")
    b = body_cursor(c)
    expect_seq(b, "res", ",", "_", ":=", f["recv"], ".", content_field, ".", "(")
    asserted = parse_type(b)
    b.expect(")")
    expect_seq(b, "return")
    deref = b.eat("*")
    b.expect("res")
    skipnl(b)
    if not b.eof():
        raise ExtractError(f"{where}: unexpected `{b.text()}` at line {b.peek()[2]}")
    if asserted["k"] != "opt":
        raise ExtractError(f"{where}: type assertion is not to a pointer type")
    payload = asserted["e"]
    ret = f["results"][0]
    if ret != (payload if deref else asserted):
        raise ExtractError(f"{where}: return type does not agree with the type assertion")
    return f["name"], payload, f["line"]


def parse_ctor(c, f, union_name, tag_field, content_field):
    """func NewConst([content [*]T]) X { return X{ Tag: Const, [content: [&]content,] } }  ->  (name, const, payload TYPE|None)"""
    where = f"constructor `{f['name']}` (line {f['line']})"
    if f["results"] != [user(union_name)] or len(f["params"]) > 1:
        raise ExtractError(f"{where} does not have the shape `func NewV([content T]) {union_name}`")
    b = body_cursor(c)
    expect_seq(b, "return", union_name, "{", tag_field, ":")
    const = b.expect_id()
    b.eat(",")
    skipnl(b)
    payload = None
    if f["params"]:
        pname, pty = f["params"][0]
        expect_seq(b, content_field, ":")
        ref = b.eat("&")
        b.expect(pname)
        b.eat(",")
        if ref:
            payload = pty
        elif pty["k"] == "opt":
            payload = pty["e"]
        else:
            raise ExtractError(f"{where}: content passed without `&` but the parameter is not a pointer")
    expect_seq(b, "}")
    skipnl(b)
    if not b.eof():
        raise ExtractError(f"{where}: unexpected `{b.text()}` at line {b.peek()[2]}")
    return f["name"], const, payload


def parse_union(c, consts, tag_type, carrier, first_line):
    """cursor at the first `func` after the carrier struct `carrier`; consts from the const block of `tag_type`."""
    name = carrier["name"]
    ms = carrier["members"]
    where = f"algebraic enum `{name}` (line {carrier['line']})"
    if carrier["generics"]:
        raise ExtractError(f"{where}: carrier struct is generic")
    if (len(ms) != 2 or ms[0]["ty"] != user(tag_type) or ms[0]["pointer"] or ms[0]["tag"] is None
            or ms[1]["ty"] != prim("interface{}") or ms[1]["tag"] is not None):
        raise ExtractError(f"{where}: struct followed by functions is not a carrier "
                           f"`{{ Tag {tag_type} `json:..`; content interface{{}} }}`")
    tag_field, content_field = ms[0]["ident"], ms[1]["ident"]
    tag_keys, content_keys = [ms[0]["key"]], []
    cases = None
    seen_marshal = False
    accessors, ctors = [], []
    while True:
        skipnl(c)
        if not c.at("func"):
            break
        c.next()
        f = parse_func_head(c)
        if f["recv"] is not None:
            if f["recv_ty"] != name:
                raise ExtractError(f"method `{f['name']}` at line {f['line']} has receiver `{f['recv_ty']}`, expected `{name}`")
            if f["name"] == "UnmarshalJSON" and f["recv_ptr"] and cases is None:
                inner, cases = parse_unmarshal(c, f, tag_field, content_field, tag_type)
                tag_keys.append(inner[0]["key"])
                content_keys.append(inner[1]["key"])
            elif f["name"] == "MarshalJSON" and not f["recv_ptr"] and not seen_marshal and not f["params"]:
                inner = parse_marshal(c, f, tag_type)
                seen_marshal = True
                tag_keys.append(inner[0]["key"])
                content_keys.append(inner[1]["key"])
            else:
                accessors.append(parse_accessor(c, f, content_field))
        else:
            ctors.append(parse_ctor(c, f, name, tag_field, content_field))
        end_of_decl(c, f"function `{f['name']}`")
    if cases is None or not seen_marshal:
        raise ExtractError(f"{where}: UnmarshalJSON / MarshalJSON missing")
    if len(tag_keys) != 3 or len(content_keys) != 2:
        raise ExtractError(f"{where}: expected three tag key occurrences")
    # cross-checks: const block / decoding cases / constructors list the same variants in the same order
    if [k[0] for k in consts] != [k[0] for k in cases]:
        raise ExtractError(f"{where}: decoding cases {[k[0] for k in cases]} differ from constants {[k[0] for k in consts]}")
    if [(k[1], k[2]) for k in ctors] != [(k[0], k[1]) for k in cases]:
        raise ExtractError(f"{where}: constructors do not agree with the decoding cases (variant or payload type)")
    for (cname, const, _), (ident, _, _, _) in zip(ctors, consts):
        if cname != "New" + ident:
            raise ExtractError(f"{where}: constructor `{cname}` is not named New{ident}")
    with_payload = [k for k in cases if k[1] is not None]
    if [a[1] for a in accessors] != [k[1] for k in with_payload]:
        raise ExtractError(f"{where}: accessors do not agree with the decoding cases (count or payload type)")
    for (aname, _, aline), (const, _, _) in zip(accessors, with_payload):
        if not const.endswith(aname):
            raise ExtractError(f"{where}: accessor `{aname}` (line {aline}) does not belong to `{const}`")
    variants = []
    for (ident, _, wire, line), (_, ty, _) in zip(consts, cases):
        v = {"ident": ident, "wire": wire, "line": line}
        if ty is None:
            v["payload"] = "unit"
        else:
            v["payload"] = "newtype"
            v["ty"] = ty
            v["optional"] = False
        variants.append(v)
    return {"name": name, "kind": "union", "generics": [], "variants": variants, "tag_keys": tag_keys,
            "content_keys": content_keys, "line": first_line, "tag_type": tag_type,
            "tag_field": tag_field, "content_field": content_field,
            # extra Go facts (not part of the common format): method / function names this enum adds to the package
            "accessors": [a[0] for a in accessors], "constructors": [k[0] for k in ctors]}


# ------------------------------------------------------------------ top level

def parse_type_decl(c):
    """cursor after `type`: returns a struct or alias DEF."""
    line = c.peek()[2]
    name = c.expect_id()
    generics = []
    if c.at("[") and c.kind(1) == "id" and c.kind(2) == "id":
        c.next()
        while True:
            generics.append(c.expect_id())
            c.expect_id()  # constraint (`any`)
            if not c.eat(","):
                break
        c.expect("]")
    if c.at("struct") and c.text(1) == "{" and c.kind(1) == "punct":
        c.next()
        c.next()
        members = parse_fields(c)
        end_of_decl(c, f"struct `{name}`")
        return {"name": name, "kind": "struct", "generics": generics, "members": members, "line": line}
    c.eat("=")
    if c.kind() in ("nl", "eof"):
        raise ExtractError(f"type `{name}` has an empty right-hand side at line {line}")
    target = parse_type(c)
    end_of_decl(c, f"type `{name}`")
    return {"name": name, "kind": "alias", "generics": generics, "target": target, "line": line}


def idents_used(toks):
    """every identifier token outside comments, strings, the package clause and import declarations."""
    used = set()
    sig = [t for t in toks if t[0] not in ("comment", "nl")]
    i, n = 0, len(sig)
    while i < n:
        k, t, _ = sig[i]
        if k == "id" and t == "package" and i + 1 < n and sig[i + 1][0] == "id":
            i += 2
        elif k == "id" and t == "import":
            i += 1
            if i < n and sig[i][0] == "punct" and sig[i][1] == "(":
                while i < n and not (sig[i][0] == "punct" and sig[i][1] == ")"):
                    i += 1
                i += 1
            else:
                if i + 1 < n and sig[i][0] != "str" and sig[i + 1][0] == "str":
                    i += 1  # alias
                if i < n and sig[i][0] == "str":
                    i += 1
        else:
            if k == "id":
                used.add(t)
            i += 1
    return sorted(used)


def parse_import_spec(c, obs):
    # optional alias / dot / underscore before the path
    if c.kind() == "id" or c.at(".", "_"):
        c.next()
    t = c.next()
    if t[0] != "str":
        raise ExtractError(f"import path expected but found `{t[1] or t[0]}` at line {t[2]}")
    obs["imports"].append({"module": unquote(t[1]), "names": []})
    end_of_decl(c, "import")


def extract(text):
    toks = lex(text, "go")
    c = Cursor(toks, keep_nl=True)
    obs = {"lang": "go", "package": None, "imports": [], "helper_defs": [], "idents_used": idents_used(toks), "defs": []}
    skipnl(c)
    if not c.at("package"):
        t = c.peek()
        raise ExtractError(f"file does not start with a package clause (found `{t[1] or t[0]}` at line {t[2]})")
    c.next()
    obs["package"] = c.expect_id()
    end_of_decl(c, "package clause")
    while True:
        skipnl(c)
        if c.eof():
            break
        t = c.peek()
        if c.at("import"):
            c.next()
            if c.eat("("):
                while True:
                    skipnl(c)
                    if c.at(")"):
                        break
                    parse_import_spec(c, obs)
                c.expect(")")
                end_of_decl(c, "import block")
            else:
                parse_import_spec(c, obs)
        elif c.at("const"):
            c.next()
            if c.at("("):
                raise ExtractError(f"const block at line {t[2]} does not follow a `type X string` declaration")
            name = c.expect_id()
            ty = parse_type(c)
            c.expect("=")
            neg = c.eat("-")
            v = c.next()
            if v[0] not in ("num", "str", "id"):
                raise ExtractError(f"constant `{name}` has no value at line {v[2]}")
            end_of_decl(c, f"constant `{name}`")
            obs["defs"].append({"name": name, "kind": "const", "generics": [], "ty": ty,
                                "value": ("-" if neg else "") + v[1], "line": t[2]})
        elif c.at("type"):
            c.next()
            d = parse_type_decl(c)
            if not (d["kind"] == "alias" and d["target"] == prim("string") and not d["generics"]):
                obs["defs"].append(d)
                continue
            # `type X string`: alias, unit enum (const block follows) or tag type of an algebraic enum
            skipnl(c)
            if not (c.at("const") and c.text(1) == "(" and c.kind(1) == "punct"):
                obs["defs"].append(d)
                continue
            c.next()
            c.next()
            consts = parse_const_block(c)
            for ident, tyname, _, ln in consts:
                if tyname != d["name"]:
                    raise ExtractError(f"constant `{ident}` at line {ln} has type `{tyname}`, expected `{d['name']}`")
            # algebraic enum?  type N struct{ .. } directly followed by func
            skipnl(c)
            save = c.i
            if c.at("type") and c.kind(1) == "id" and c.text(2) == "struct":
                c.next()
                carrier = parse_type_decl(c)
                skipnl(c)
                if c.at("func"):
                    obs["defs"].append(parse_union(c, consts, d["name"], carrier, d["line"]))
                    continue
                c.i = save
            obs["defs"].append({"name": d["name"], "kind": "enum", "generics": [], "line": d["line"],
                                "variants": [{"ident": i, "wire": w, "payload": "unit", "line": ln}
                                             for i, _, w, ln in consts]})
        elif c.at("func"):
            raise ExtractError(f"function at line {t[2]} does not belong to an algebraic enum")
        else:
            raise ExtractError(f"unexpected `{t[1] or t[0]}` at top level, line {t[2]}")
    return obs
