"""python3 -m vlib.extract.selftest <lang>|all : run an extractor over every snapshot expectation file."""
import glob
import importlib
import sys

EXT = {"ts": "ts", "kt": "kt", "swift": "swift", "scala": "scala", "go": "go", "py": "py"}


def run(lang):
    mod = importlib.import_module(f"vlib.extract.{lang}")
    files = sorted(glob.glob(f"/repo/core/data/tests/*/output.{EXT[lang]}"))
    bad = 0
    defs = members = variants = 0
    for f in files:
        try:
            o = mod.extract(open(f).read())
            for d in o["defs"]:
                defs += 1
                members += len(d.get("members", []))
                variants += len(d.get("variants", []))
        except Exception as e:  # noqa
            bad += 1
            print(f"FAIL {f}: {type(e).__name__}: {e}")
    print(f"{lang}: {len(files) - bad}/{len(files)} files, {defs} defs, {members} members, {variants} variants")
    return bad == 0


if __name__ == "__main__":
    langs = list(EXT) if sys.argv[1:] in ([], ["all"]) else sys.argv[1:]
    ok = all([run(l) for l in langs if __import__("os").path.exists(f"/verif/vlib/extract/{l}.py")])
    sys.exit(0 if ok else 1)
