"""Python (pydantic) extractor: generated text -> Observation (see OBSERVATION.md).

Uses the standard library `ast` module instead of the token cursor: the generated file has to be valid
Python anyway, and a SyntaxError is reported as ExtractError (with the line).

Shapes understood (everything core/src/language/python.rs can print):
  module docstring header, `from m import a, b`, `import m`, `T = TypeVar("T")`, top-level `def` helpers,
  `class N(BaseModel[, Generic[T, ..]])` (fields `ident: Type [= value | Field(alias=.., default=..)]`,
  `model_config = ConfigDict(..)`, docstrings, `pass`), `class N(str, Enum)` (`IDENT = "wire"`),
  the algebraic group `class NTypes(str, Enum)` + `class NVariant(BaseModel)`.. + `N = Union[..]` / `N = NVariant`,
  aliases `N = Type` / `N[T] = Type`, constants `NAME: Type = value`, stray string expressions (docstrings
  written after an alias).

Extra (non-mandatory) keys this extractor adds, all raw facts read off the text:
  struct def:   "model_config": text of the `model_config = ...` right-hand side or None
  member:       "default_raw": full text of the right-hand side (e.g. "Field(alias='k', default=None)") or None
  union def:    "first_line", "types_enum": {"name", "line", "members": [{"ident","wire","line"}]} or None,
                "variant_generics": generics declared by the variant classes themselves (Generic[..] bases)
  union variant: "nullable", "default" (same meaning as for members), "tag_ident", "content_ident",
                "tag_default": text of the tag field's default or None,
                "inner_helper": content type is a struct of this file named `<variant class>Inner`
"""
import ast

from .base import ExtractError, mapt, opt, prim, seq, user

PRIMS = {"str", "int", "float", "bool", "None", "bytes", "bytearray", "complex", "object", "Any", "datetime"}

SEQ_NAMES = {"List", "list", "typing.List"}
MAP_NAMES = {"Dict", "dict", "typing.Dict"}
OPT_NAMES = {"Optional", "typing.Optional"}
LIT_NAMES = {"Literal", "typing.Literal"}
ANN_NAMES = {"Annotated", "typing.Annotated"}
UNION_NAMES = {"Union", "typing.Union"}


def _line(node):
    return getattr(node, "lineno", -1)


def _dotted(node):
    """Name / Attribute chain -> 'a.b.c', else None."""
    parts = []
    while isinstance(node, ast.Attribute):
        parts.append(node.attr)
        node = node.value
    if isinstance(node, ast.Name):
        parts.append(node.id)
        return ".".join(reversed(parts))
    return None


def _slice_elts(node):
    """Subscript node -> list of the argument expressions."""
    s = node.slice
    if isinstance(s, ast.Index):  # python < 3.9
        s = s.value
    if isinstance(s, ast.Tuple):
        return list(s.elts)
    return [s]


def _unparse(node):
    return ast.unparse(node)


def _first_line(node):
    return (_unparse(node).splitlines() or [""])[0]


def _parse_forward_ref(s, line, extra_names):
    try:
        e = ast.parse(s, mode="eval").body
    except (SyntaxError, ValueError) as ex:
        raise ExtractError(f"string annotation {s!r} at line {line} is not a type expression: {ex}")
    if extra_names is not None:
        for n in ast.walk(e):
            if isinstance(n, ast.Name):
                extra_names.add(n.id)
    return e


def _is_none(t):
    return t == prim("None")


def conv_type(node, line=None, extra_names=None):
    """Annotation AST -> TYPE tree."""
    line = _line(node) if line is None else line
    if isinstance(node, ast.Constant):
        if node.value is None:
            return prim("None")
        if isinstance(node.value, str):
            return conv_type(_parse_forward_ref(node.value, line, extra_names), line, extra_names)
        raise ExtractError(f"unexpected constant `{node.value!r}` in type at line {line}")
    if isinstance(node, (ast.Name, ast.Attribute)):
        name = _dotted(node)
        if name is None:
            raise ExtractError(f"unsupported type expression `{_unparse(node)}` at line {line}")
        return prim(name) if name in PRIMS else user(name)
    if isinstance(node, ast.BinOp) and isinstance(node.op, ast.BitOr):
        es = []

        def flat(n):
            if isinstance(n, ast.BinOp) and isinstance(n.op, ast.BitOr):
                flat(n.left)
                flat(n.right)
            else:
                es.append(conv_type(n, line, extra_names))
        flat(node)
        return _union(es)
    if isinstance(node, ast.Subscript):
        base = _dotted(node.value)
        if base is None:
            raise ExtractError(f"unsupported type expression `{_unparse(node)}` at line {line}")
        elts = _slice_elts(node)
        if base in LIT_NAMES:
            return {"k": "lit", "v": ", ".join(_unparse(e) for e in elts)}
        if base in ANN_NAMES:
            if len(elts) < 2:
                raise ExtractError(f"Annotated[..] with fewer than two arguments at line {line}")
            t = dict(conv_type(elts[0], line, extra_names))
            t["annotated"] = t.get("annotated", []) + [_unparse(e) for e in elts[1:]]
            return t
        args = [conv_type(e, line, extra_names) for e in elts]
        if base in SEQ_NAMES and len(args) == 1:
            return seq(args[0])
        if base in MAP_NAMES and len(args) == 2:
            return mapt(args[0], args[1])
        if base in OPT_NAMES and len(args) == 1:
            return opt(args[0])
        if base in UNION_NAMES:
            return _union(args)
        if base in SEQ_NAMES | MAP_NAMES | OPT_NAMES:
            raise ExtractError(f"`{base}` with {len(args)} argument(s) at line {line}")
        return user(base, args)
    raise ExtractError(f"unsupported type expression `{_unparse(node)}` at line {line}")


def _union(es):
    rest = [e for e in es if not _is_none(e)]
    if len(rest) == 1 and len(es) == 2:
        return opt(rest[0])
    return {"k": "union", "es": es}


def _strip_optional(ty):
    """TYPE -> (nullable, type without the top-level Optional). `annotated` facts stay on the reported node."""
    if ty["k"] != "opt":
        return False, ty
    inner = ty["e"]
    if "annotated" in ty:
        inner = dict(inner)
        inner["annotated"] = ty["annotated"] + inner.get("annotated", [])
    return True, inner


def _field_call(value):
    """`Field(...)` call (also `pydantic.Field`) or None."""
    if isinstance(value, ast.Call):
        n = _dotted(value.func)
        if n is not None and n.split(".")[-1] == "Field":
            return value
    return None


def _is_ellipsis(node):
    return isinstance(node, ast.Constant) and node.value is Ellipsis


def _field_facts(name, ann, value, line, extra_names):
    """One annotated class attribute -> MEMBER."""
    ty = conv_type(ann, line, extra_names)
    nullable, inner = _strip_optional(ty)
    key, binding = name, "bare"
    default = None
    default_raw = None if value is None else _unparse(value)
    call = _field_call(value) if value is not None else None
    if call is not None:
        if len(call.args) > 1:
            raise ExtractError(f"Field(..) of `{name}` has more than one positional argument, line {line}")
        if call.args and not _is_ellipsis(call.args[0]):
            default = _unparse(call.args[0])
        for kw in call.keywords:
            if kw.arg is None:
                raise ExtractError(f"Field(**..) of `{name}` cannot be read, line {line}")
            if kw.arg == "alias":
                if not (isinstance(kw.value, ast.Constant) and isinstance(kw.value.value, str)):
                    raise ExtractError(f"alias of `{name}` is not a string literal, line {line}")
                key, binding = kw.value.value, "alias"
            elif kw.arg == "default":
                default = None if _is_ellipsis(kw.value) else _unparse(kw.value)
            elif kw.arg == "default_factory":
                default = "default_factory=" + _unparse(kw.value)
    elif value is not None:
        default = default_raw
    return {"ident": name, "key": key, "binding": binding, "optional": nullable and default == "None",
            "ty": inner, "nullable": nullable, "default": default, "default_raw": default_raw, "line": line}


def _is_docstring(stmt):
    return isinstance(stmt, ast.Expr) and isinstance(stmt.value, ast.Constant) and isinstance(stmt.value.value, str)


def _class_info(node, extra_names):
    """ClassDef -> raw class record: {"cls": "enum"|"model", ...}."""
    bases, generics = [], []
    for b in node.bases:
        if isinstance(b, ast.Subscript) and (_dotted(b.value) or "").split(".")[-1] == "Generic":
            for e in _slice_elts(b):
                if not isinstance(e, ast.Name):
                    raise ExtractError(f"Generic[..] argument of class `{node.name}` is not a name, line {_line(node)}")
                generics.append(e.id)
        else:
            n = _dotted(b)
            if n is None:
                raise ExtractError(f"unsupported base `{_unparse(b)}` of class `{node.name}`, line {_line(node)}")
            bases.append(n.split(".")[-1])
    if node.keywords:
        raise ExtractError(f"class `{node.name}` has keyword arguments in its bases, line {_line(node)}")
    if node.decorator_list:
        raise ExtractError(f"class `{node.name}` is decorated, line {_line(node)}")
    if "Enum" in bases:
        variants = []
        for st in node.body:
            if _is_docstring(st) or isinstance(st, ast.Pass):
                continue
            if (isinstance(st, ast.Assign) and len(st.targets) == 1 and isinstance(st.targets[0], ast.Name)
                    and isinstance(st.value, ast.Constant) and isinstance(st.value.value, str)):
                variants.append({"ident": st.targets[0].id, "wire": st.value.value, "payload": "unit", "line": _line(st)})
                continue
            raise ExtractError(f"unexpected statement in enum `{node.name}` at line {_line(st)}: `{_first_line(st)}`")
        return {"cls": "enum", "name": node.name, "generics": generics, "variants": variants, "line": _line(node),
                "bases": bases}
    if "BaseModel" in bases:
        members, model_config = [], None
        for st in node.body:
            if _is_docstring(st) or isinstance(st, ast.Pass):
                continue
            if isinstance(st, ast.AnnAssign) and isinstance(st.target, ast.Name):
                members.append(_field_facts(st.target.id, st.annotation, st.value, _line(st), extra_names))
                continue
            if (isinstance(st, ast.Assign) and len(st.targets) == 1 and isinstance(st.targets[0], ast.Name)
                    and st.targets[0].id == "model_config"):
                model_config = _unparse(st.value)
                continue
            raise ExtractError(f"unexpected statement in class `{node.name}` at line {_line(st)}: `{_first_line(st)}`")
        return {"cls": "model", "name": node.name, "generics": generics, "members": members, "line": _line(node),
                "model_config": model_config, "bases": bases, "tag_node": _tag_node(node)}
    raise ExtractError(f"class `{node.name}` at line {_line(node)} is neither a BaseModel nor an Enum (bases: {bases})")


def _tag_node(node):
    """Annotation/default AST of the first annotated field if it is `Literal[..]`, else None."""
    for st in node.body:
        if _is_docstring(st) or isinstance(st, ast.Pass):
            continue
        if isinstance(st, ast.AnnAssign) and isinstance(st.target, ast.Name):
            ann = st.annotation
            if isinstance(ann, ast.Constant) and isinstance(ann.value, str):
                try:
                    ann = ast.parse(ann.value, mode="eval").body
                except (SyntaxError, ValueError):
                    return None
            if isinstance(ann, ast.Subscript) and _dotted(ann.value) in LIT_NAMES:
                return {"lit": _slice_elts(ann), "default": st.value}
            return None
        if isinstance(st, ast.Assign):
            continue
        return None
    return None


def _resolve_tag(expr, enums, line):
    """`XTypes.M` / "str" -> (list of candidate wire strings, enum name or None)."""
    if isinstance(expr, ast.Constant) and isinstance(expr.value, str):
        return [expr.value], None
    if isinstance(expr, ast.Attribute) and isinstance(expr.value, ast.Name):
        en = enums.get(expr.value.id)
        if en is None:
            raise ExtractError(f"tag `{_unparse(expr)}` at line {line} refers to an enum that is not defined above")
        vals = [v["wire"] for v in en["variants"] if v["ident"] == expr.attr]
        if not vals:
            raise ExtractError(f"tag `{_unparse(expr)}` at line {line}: `{expr.value.id}` has no member `{expr.attr}`")
        return vals, expr.value.id
    raise ExtractError(f"tag value `{_unparse(expr)}` at line {line} is neither `Enum.MEMBER` nor a string")


def _fold_union(name, generics, member_names, line, models, enums, structs_by_name):
    """Build the union DEF out of its variant classes. Returns (def, consumed class names, consumed enum names)."""
    variants, tags, contents, used_enums, vgen = [], [], [], [], []
    for cn in member_names:
        m = models[cn]
        tn = m["tag_node"]
        ms = m["members"]
        tagm = ms[0]
        if len(tn["lit"]) != 1:
            raise ExtractError(f"variant class `{cn}` has a Literal tag with {len(tn['lit'])} values, line {tagm['line']}")
        wires, en = _resolve_tag(tn["lit"][0], enums, tagm["line"])
        if en is not None and en not in used_enums:
            used_enums.append(en)
        if tn["default"] is not None:
            dw, den = _resolve_tag(tn["default"], enums, tagm["line"])
            if den is not None and den not in used_enums:
                used_enums.append(den)
            for w in dw:
                if w not in wires:
                    wires.append(w)
        v = {"ident": cn, "wire": wires[0], "line": m["line"], "tag_ident": tagm["ident"],
             "tag_default": tagm["default_raw"]}
        if len(wires) > 1:
            v["wires"] = wires
        tags.append(tagm["key"])
        for g in m["generics"]:
            if g not in vgen:
                vgen.append(g)
        if len(ms) == 1:
            v["payload"] = "unit"
        elif len(ms) == 2:
            cm = ms[1]
            contents.append(cm["key"])
            v["payload"] = "newtype"
            v["ty"] = cm["ty"]
            v["optional"] = cm["optional"]
            v["nullable"] = cm["nullable"]
            v["default"] = cm["default"]
            v["content_ident"] = cm["ident"]
            v["inner_helper"] = (cm["ty"]["k"] == "user" and cm["ty"]["n"] == cn + "Inner"
                                 and cn + "Inner" in structs_by_name)
        else:
            raise ExtractError(f"variant class `{cn}` has {len(ms)} fields (expected tag and at most one content field), "
                               f"line {m['line']}")
        variants.append(v)
    first_line = min([models[cn]["line"] for cn in member_names] + [enums[e]["line"] for e in used_enums])
    types_enum = None
    if used_enums:
        if len(used_enums) > 1:
            raise ExtractError(f"variants of `{name}` (line {line}) take their tags from several enums: {used_enums}")
        e = enums[used_enums[0]]
        types_enum = {"name": e["name"], "line": e["line"],
                      "members": [{"ident": x["ident"], "wire": x["wire"], "line": x["line"]} for x in e["variants"]]}
    d = {"name": name, "kind": "union", "generics": generics, "variants": variants, "tag_keys": tags,
         "content_keys": contents, "line": line, "first_line": first_line, "types_enum": types_enum,
         "variant_generics": vgen}
    return d, list(member_names), used_enums


def _is_typevar_call(value):
    if isinstance(value, ast.Call):
        n = _dotted(value.func)
        return n is not None and n.split(".")[-1] == "TypeVar"
    return False


def extract(text):
    try:
        mod = ast.parse(text)
    except SyntaxError as ex:
        raise ExtractError(f"not valid Python: {ex.msg} at line {ex.lineno}: {(ex.text or '').strip()!r}")
    except (ValueError, RecursionError, MemoryError) as ex:
        raise ExtractError(f"not valid Python: {ex}")
    obs = {"lang": "python", "package": None, "imports": [], "helper_defs": [], "idents_used": [], "defs": []}

    used = set()
    # items: ("def", DEF) | ("model", rec) | ("enum", rec) | ("assign", {...}) in textual order
    items = []
    models, enums = {}, {}
    for st in mod.body:
        if isinstance(st, (ast.Import, ast.ImportFrom)):
            continue
        for n in ast.walk(st):
            if isinstance(n, ast.Name):
                used.add(n.id)

    for st in mod.body:
        line = _line(st)
        if isinstance(st, ast.ImportFrom):
            obs["imports"].append({"module": "." * (st.level or 0) + (st.module or ""),
                                   "names": [a.name for a in st.names]})
        elif isinstance(st, ast.Import):
            for a in st.names:
                obs["imports"].append({"module": a.name, "names": []})
        elif _is_docstring(st):
            continue
        elif isinstance(st, (ast.FunctionDef, ast.AsyncFunctionDef)):
            obs["helper_defs"].append(st.name)
        elif isinstance(st, ast.ClassDef):
            rec = _class_info(st, used)
            if rec["cls"] == "enum":
                enums[rec["name"]] = rec
            else:
                models[rec["name"]] = rec
            items.append((rec["cls"], rec))
        elif isinstance(st, ast.AnnAssign):
            if not isinstance(st.target, ast.Name):
                raise ExtractError(f"unsupported annotated assignment at line {line}: `{_unparse(st)}`")
            if st.value is None:
                raise ExtractError(f"module-level `{st.target.id}` at line {line} has a type but no value")
            items.append(("def", {"name": st.target.id, "kind": "const", "generics": [],
                                  "ty": conv_type(st.annotation, line, used), "value": _unparse(st.value), "line": line}))
        elif isinstance(st, ast.Assign):
            if len(st.targets) != 1:
                raise ExtractError(f"chained assignment at line {line}: `{_unparse(st)}`")
            tgt = st.targets[0]
            generics = []
            if isinstance(tgt, ast.Subscript) and isinstance(tgt.value, ast.Name):
                # generic alias as typeshare prints it: `Name[T, U] = Type`
                for e in _slice_elts(tgt):
                    if not isinstance(e, ast.Name):
                        raise ExtractError(f"generic parameter of alias `{tgt.value.id}` is not a name, line {line}")
                    generics.append(e.id)
                name = tgt.value.id
            elif isinstance(tgt, ast.Name):
                name = tgt.id
            else:
                raise ExtractError(f"unsupported assignment target at line {line}: `{_unparse(st)}`")
            if _is_typevar_call(st.value) and not generics:
                obs["helper_defs"].append(name)
                continue
            items.append(("assign", {"name": name, "generics": generics, "value": st.value, "line": line}))
        else:
            raise ExtractError(f"unsupported top-level statement at line {line}: `{_first_line(st)}`")

    # fold the algebraic-enum groups
    consumed_models, consumed_enums = set(), set()
    folded = {}
    structs_by_name = {n for n, m in models.items() if m["tag_node"] is None}
    for idx, (kind, it) in enumerate(items):
        if kind != "assign":
            continue
        v = it["value"]
        member_names = None
        if isinstance(v, ast.Name):
            member_names = [v.id]
        elif isinstance(v, ast.Subscript) and _dotted(v.value) in UNION_NAMES:
            elts = _slice_elts(v)
            if all(isinstance(e, ast.Name) for e in elts):
                member_names = [e.id for e in elts]
        if not member_names:
            continue
        tagged = [n for n in member_names if n in models and models[n]["tag_node"] is not None
                  and models[n]["line"] < it["line"]]
        if not tagged:
            continue
        if len(tagged) != len(member_names):
            rest = [n for n in member_names if n not in tagged]
            raise ExtractError(f"`{it['name']}` at line {it['line']} mixes tagged variant classes with other types: {rest}")
        d, cm, ce = _fold_union(it["name"], it["generics"], member_names, it["line"], models, enums, structs_by_name)
        dup = [n for n in cm if n in consumed_models]
        if dup:
            raise ExtractError(f"variant class(es) {dup} are used by more than one union (line {it['line']})")
        consumed_models.update(cm)
        consumed_enums.update(ce)
        folded[idx] = d

    for idx, (kind, it) in enumerate(items):
        if kind == "def":
            obs["defs"].append(it)
        elif kind == "enum":
            if it["name"] in consumed_enums:
                continue
            obs["defs"].append({"name": it["name"], "kind": "enum", "generics": it["generics"],
                                "variants": it["variants"], "line": it["line"]})
        elif kind == "model":
            if it["name"] in consumed_models:
                continue
            obs["defs"].append({"name": it["name"], "kind": "struct", "generics": it["generics"],
                                "members": it["members"], "model_config": it["model_config"], "line": it["line"]})
        elif idx in folded:
            obs["defs"].append(folded[idx])
        else:
            obs["defs"].append({"name": it["name"], "kind": "alias", "generics": it["generics"],
                                "target": conv_type(it["value"], it["line"], used), "line": it["line"]})
    obs["idents_used"] = sorted(used)
    return obs
