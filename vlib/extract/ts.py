"""TypeScript extractor: generated text -> Observation (see OBSERVATION.md)."""
from .base import Cursor, ExtractError, lex, mapt, opt, prim, seq, unquote, user

PRIMS = {"string", "number", "boolean", "undefined", "null", "unknown", "any", "void", "never", "bigint", "object"}
HELPERS = {"ReviverFunc", "ReplacerFunc"}


def parse_type(c):
    parts = [parse_postfix(c)]
    while c.at("|"):
        c.next()
        parts.append(parse_postfix(c))
    if len(parts) == 1:
        return parts[0]
    rest = [p for p in parts if not (p["k"] == "prim" and p["n"] in ("null", "undefined"))]
    nulls = [p["n"] for p in parts if p["k"] == "prim" and p["n"] in ("null", "undefined")]
    if not rest and nulls:
        rest, nulls = [prim(nulls[0])], nulls[1:]      # `undefined | undefined`, `undefined | null`: unit under option(s)
    if len(rest) == 1 and nulls:
        t = rest[0]
        for n in nulls:
            t = opt(t) if n == "null" else {"k": "undef", "e": t}
        return t
    return {"k": "union", "es": parts}


def parse_postfix(c):
    t = parse_atom(c)
    while c.at("[") and c.text(1) == "]":
        c.next()
        c.next()
        t = seq(t)
    return t


def parse_members(c):
    """after `{`: members until matching `}` (consumed)."""
    members = []
    while not c.at("}"):
        if c.kind() == "eof":
            raise ExtractError("unclosed object type")
        readonly = False
        if c.at("readonly") and c.kind(1) in ("id", "str"):
            c.next()
            readonly = True
        k = c.next()
        if k[0] == "str":
            key, binding, ident = unquote(k[1]), "quoted", None
        elif k[0] == "id":
            key, binding, ident = k[1], "bare", k[1]
        else:
            raise ExtractError(f"unexpected `{k[1]}` where a property name should be, line {k[2]}")
        optional = c.eat("?")
        c.expect(":")
        ty = parse_type(c)
        if not (c.eat(";") or c.eat(",")):
            if not c.at("}"):
                raise ExtractError(f"expected `;` after property `{key}` at line {c.peek()[2]}")
        members.append({"ident": ident, "key": key, "binding": binding, "optional": optional, "ty": ty,
                        "readonly": readonly, "line": k[2]})
    c.expect("}")
    return members


def parse_atom(c):
    t = c.next()
    if t[0] == "str":
        return {"k": "lit", "v": unquote(t[1])}
    if t[0] == "punct" and t[1] == "{":
        return {"k": "obj", "members": parse_members(c)}
    if t[0] == "punct" and t[1] == "[":
        es = []
        while not c.at("]"):
            es.append(parse_type(c))
            if not c.eat(","):
                break
        c.expect("]")
        if es and all(e == es[0] for e in es):
            return seq(es[0], len(es))
        return {"k": "tuple", "es": es}
    if t[0] == "punct" and t[1] == "(":
        inner = parse_type(c)
        c.expect(")")
        return inner
    if t[0] != "id":
        raise ExtractError(f"unexpected `{t[1]}` in type at line {t[2]}")
    name = t[1]
    while c.at(".") and c.kind(1) == "id":
        c.next()
        name += "." + c.next()[1]
    args = []
    if c.at("<"):
        c.next()
        while True:
            args.append(parse_type(c))
            if not c.eat(","):
                break
        c.expect(">")
    if name == "Record" and len(args) == 2:
        return mapt(args[0], args[1])
    if name == "Array" and len(args) == 1:
        return seq(args[0])
    if name in PRIMS and not args:
        return prim(name)
    return user(name, args)


def generics(c):
    g = []
    if c.eat("<"):
        while True:
            g.append(c.expect_id())
            if not c.eat(","):
                break
        c.expect(">")
    return g


def extract(text):
    toks = lex(text, "ts")
    c = Cursor(toks)
    obs = {"lang": "typescript", "imports": [], "defs": [], "helper_defs": [], "package": None, "idents_used": []}
    used, in_import = set(), False
    for k, t, _ in toks:
        if k == "id" and t == "import":
            in_import = True
        if k == "id" and not in_import:
            used.add(t)
        if in_import and k == "punct" and t == ";":
            in_import = False
    obs["idents_used"] = sorted(used)
    # the JSON keys the generated reviver tests (`key === "..."`): a binding of a key to a member's custom translation
    obs["reviver_keys"] = [unquote(toks[i + 3][1]) for i in range(len(toks) - 3)
                           if toks[i][0] == "id" and toks[i][1] == "key" and toks[i + 1][1] == "==" and toks[i + 2][1] == "=" and toks[i + 3][0] == "str"]
    while not c.eof():
        t = c.peek()
        if c.at("import"):
            c.next()
            c.eat("type")
            names = []
            c.expect("{")
            while not c.at("}"):
                names.append(c.expect_id())
                c.eat(",")
            c.expect("}")
            c.expect("from")
            mod = unquote(c.next()[1])
            c.eat(";")
            obs["imports"].append({"module": mod, "names": names})
            continue
        c.expect("export")
        kw = c.next()[1]
        line = t[2]
        if kw == "interface":
            name = c.expect_id()
            g = generics(c)
            c.expect("{")
            obs["defs"].append({"name": name, "kind": "struct", "generics": g, "members": parse_members(c), "line": line})
        elif kw == "enum":
            name = c.expect_id()
            g = generics(c)
            c.expect("{")
            variants = []
            while not c.at("}"):
                ident = c.expect_id()
                c.expect("=")
                v = c.next()
                if v[0] != "str":
                    raise ExtractError(f"enum member `{ident}` has no string value, line {v[2]}")
                variants.append({"ident": ident, "wire": unquote(v[1]), "payload": "unit", "line": v[2]})
                if not c.eat(","):
                    break
            c.expect("}")
            obs["defs"].append({"name": name, "kind": "enum", "generics": g, "variants": variants, "line": line})
        elif kw == "type":
            name = c.expect_id()
            g = generics(c)
            c.expect("=")
            if c.at("|") and c.text(1) == "{":
                variants, tags, contents = [], [], []
                while c.eat("|"):
                    c.expect("{")
                    ms = parse_members(c)
                    if not ms or ms[0]["ty"]["k"] != "lit":
                        raise ExtractError(f"variant object of `{name}` does not start with a literal tag")
                    tags.append(ms[0]["key"])
                    v = {"ident": None, "wire": ms[0]["ty"]["v"], "line": ms[0]["line"]}
                    if len(ms) < 2:
                        v["payload"] = "unit"
                    else:
                        contents.append(ms[1]["key"])
                        cty = ms[1]["ty"]
                        if ms[1]["optional"] and cty == prim("undefined"):
                            v["payload"] = "unit"
                        elif cty["k"] == "obj":
                            v["payload"] = "struct"
                            v["members"] = cty["members"]
                        else:
                            v["payload"] = "newtype"
                            v["ty"] = cty
                            v["optional"] = ms[1]["optional"]
                    variants.append(v)
                c.eat(";")
                obs["defs"].append({"name": name, "kind": "union", "generics": g, "variants": variants,
                                    "tag_keys": tags, "content_keys": contents, "line": line})
            else:
                if c.at(";"):
                    raise ExtractError(f"type `{name}` has an empty right-hand side")
                ty = parse_type(c)
                c.eat(";")
                obs["defs"].append({"name": name, "kind": "alias", "generics": g, "target": ty, "line": line})
        elif kw == "const":
            name = c.expect_id()
            if name in HELPERS:
                # export const ReviverFunc = (key: string, value: unknown): unknown => { ... };
                c.expect("=")
                while not c.at("{"):
                    if c.kind() == "eof":
                        raise ExtractError("helper function without body")
                    c.next()
                c.next()
                c.skip_balanced("{", "}")
                c.eat(";")
                obs["helper_defs"].append(name)
                continue
            c.expect(":")
            ty = parse_type(c)
            c.expect("=")
            neg = c.eat("-")
            v = c.next()
            c.eat(";")
            obs["defs"].append({"name": name, "kind": "const", "ty": ty, "value": ("-" if neg else "") + v[1], "line": line})
        else:
            raise ExtractError(f"unknown export `{kw}` at line {line}")
    return obs
