"""Scala extractor: generated text -> Observation (see OBSERVATION.md).

Shapes understood (everything core/src/language/scala.rs can print):

    package a.b                                   top-level package clause (optional)
    package object c { type N[T] = Type ... }     aliases (UByte/UShort/UInt/ULong there are helper_defs)
    package c { ... }                             structs and enums
    type N[T] = Type
    case class N[T] ( ident: Type [= default], ... )
    class N extends Serializable
    sealed trait N[T] { def serialName: String }
    object N {
        case object V extends N[T] { val serialName: String = "w" }
        case class V[T](content: Type) extends N[T] { val serialName: String = "w" }
    }
    import a.b.C / import a.b.{C, D} / import a.b._

The same items are accepted at top level (single-segment package: no package lines are printed).

Extra (non-normative) keys: defs carry "scope" ("top" | "package_object" | "package"); enum/union variants carry
"extends" (the parent type as written after `extends`) and "generics"; newtype variants carry "param" and
"inner_helper" (ty is the user type `<Enum><Variant>Inner` and a struct of that name is defined in this file);
obs["helper_aliases"] maps each helper alias name to its written target TYPE.
"""
from .base import Cursor, ExtractError, lex, mapt, opt, prim, seq, unquote, user

PRIMS = {"String", "Int", "Long", "Short", "Byte", "Float", "Double", "Boolean", "Unit", "Char",
         "BigInt", "BigDecimal", "UByte", "UShort", "UInt", "ULong", "Any", "AnyRef", "AnyVal", "Nothing", "Null"}
SEQS = {"Vector", "List", "Seq", "Array", "IndexedSeq"}
HELPERS = {"UByte", "UShort", "UInt", "ULong"}


def merge_backticks(toks):
    """The shared lexer has no Scala back-tick rule: fold  ` x `  into one id token "`x`"."""
    out, i = [], 0
    while i < len(toks):
        k, t, ln = toks[i]
        if k == "punct" and t == "`":
            j = i + 1
            parts = []
            while j < len(toks) and not (toks[j][0] == "punct" and toks[j][1] == "`"):
                if toks[j][0] in ("nl", "comment"):
                    raise ExtractError(f"unterminated back-ticked identifier at line {ln}")
                parts.append(toks[j][1])
                j += 1
            if j >= len(toks) or not parts:
                raise ExtractError(f"unterminated back-ticked identifier at line {ln}")
            out.append(("id", "`" + "".join(parts) + "`", ln))
            i = j + 1
            continue
        out.append(toks[i])
        i += 1
    return out


def bare(name):
    return name[1:-1] if len(name) >= 2 and name[0] == "`" and name[-1] == "`" else name


def here(c):
    """Description of the token under the cursor for error messages."""
    t = c.peek()
    return "end of file" if t[0] == "eof" else f"`{t[1]}`, line {t[2]}"


def dotted(c):
    """id (. id)*  -> list of segments (back-ticks removed)."""
    segs = [bare(c.expect_id())]
    while c.at(".") and c.kind(1) == "id":
        c.next()
        segs.append(bare(c.next()[1]))
    return segs


def parse_type(c):
    if c.kind() != "id":
        raise ExtractError(f"expected a type but found {here(c)}")
    name = ".".join(dotted(c))
    args = []
    if c.at("["):
        c.next()
        while True:
            args.append(parse_type(c))
            if not c.eat(","):
                break
        c.expect("]")
    short = name[len("scala."):] if name.startswith("scala.") else name
    if short == "Option" and len(args) == 1:
        return opt(args[0])
    if short in SEQS and len(args) == 1:
        return seq(args[0])
    if short == "Map" and len(args) == 2:
        return mapt(args[0], args[1])
    if name in PRIMS and not args:
        return prim(name)
    return user(name, args)


def generics(c):
    g = []
    if c.eat("["):
        while True:
            g.append(bare(c.expect_id()))
            if not c.eat(","):
                break
        c.expect("]")
    return g


def parse_param(c, what):
    """ident : Type [= default]   (cursor on the identifier). Returns a MEMBER."""
    k = c.next()
    if k[0] != "id":
        raise ExtractError(f"unexpected `{k[1]}` where a {what} name should be, line {k[2]}")
    if not c.at(":"):
        raise ExtractError(f"{what} `{k[1]}` (line {k[2]}) is not followed by `:` but by {here(c)}")
    c.next()
    ty = parse_type(c)
    default = None
    if c.eat("="):
        parts, depth = [], 0
        while True:
            t = c.peek()
            if t[0] == "eof":
                raise ExtractError(f"unterminated default value of `{k[1]}`, line {k[2]}")
            if t[0] == "punct" and depth == 0 and t[1] in (",", ")"):
                break
            if t[0] == "punct" and t[1] in "([{":
                depth += 1
            if t[0] == "punct" and t[1] in ")]}":
                depth -= 1
            parts.append(t[1])
            c.next()
        if not parts:
            raise ExtractError(f"`=` without a default value for `{k[1]}`, line {k[2]}")
        default = " ".join(parts)
    nullable = ty["k"] == "opt"
    ident = bare(k[1])
    return {"ident": ident, "key": ident, "binding": "bare", "optional": nullable and default == "None",
            "ty": ty["e"] if nullable else ty, "nullable": nullable, "default": default, "line": k[2]}


def parse_params(c, what):
    """after `(`: parameters until the matching `)` (consumed)."""
    ms = []
    while not c.at(")"):
        if c.kind() == "eof":
            raise ExtractError(f"unclosed parameter list of {what}")
        ms.append(parse_param(c, "field"))
        if not c.eat(","):
            if not c.at(")"):
                raise ExtractError(f"expected `,` or `)` after field `{ms[-1]['ident']}` "
                                   f"(line {ms[-1]['line']}) of {what} but found {here(c)}")
    c.expect(")")
    return ms


def parse_serial_name(c, owner):
    """{ val serialName: String = "w" }  -> (wire, line)"""
    c.expect("{")
    c.expect("val")
    c.expect("serialName")
    c.expect(":")
    c.expect("String")
    c.expect("=")
    v = c.next()
    if v[0] != "str":
        raise ExtractError(f"serialName of `{owner}` is not a string literal (`{v[1]}`), line {v[2]}")
    c.expect("}")
    return unquote(v[1]), v[2]


def parse_enum(c, line, scope, struct_names):
    """cursor just after `sealed trait`."""
    name = bare(c.expect_id())
    g = generics(c)
    c.expect("{")
    c.expect("def")
    c.expect("serialName")
    c.expect(":")
    c.expect("String")
    c.expect("}")
    if not c.at("object"):
        raise ExtractError(f"sealed trait `{name}` (line {line}) is not followed by its companion object "
                           f"but by {here(c)}")
    c.next()
    oname = bare(c.expect_id())
    if oname != name:
        raise ExtractError(f"companion object `{oname}` does not match sealed trait `{name}`, line {c.peek(-1)[2]}")
    c.expect("{")
    variants, contents, has_class = [], [], False
    while not c.at("}"):
        t = c.peek()
        if t[0] == "eof":
            raise ExtractError(f"unclosed object `{name}`")
        c.expect("case")
        kw = c.next()
        if kw[1] == "object" and kw[0] == "id":
            ident = bare(c.expect_id())
            v = {"ident": ident, "payload": "unit", "generics": []}
        elif kw[1] == "class" and kw[0] == "id":
            has_class = True
            ident = bare(c.expect_id())
            vg = generics(c)
            c.expect("(")
            if c.at(")"):
                raise ExtractError(f"case class `{ident}` of `{name}` has no parameter, line {t[2]}")
            p = parse_param(c, "parameter")
            if not c.at(")"):
                raise ExtractError(f"case class `{ident}` of `{name}` (line {t[2]}) has more than one parameter "
                                   f"or a malformed one: found {here(c)}")
            c.next()
            contents.append(p["key"])
            ty = p["ty"]
            v = {"ident": ident, "payload": "newtype", "ty": ty, "optional": p["nullable"], "param": p["key"],
                 "generics": vg,
                 "inner_helper": ty["k"] == "user" and ty["n"] == name + ident + "Inner" and ty["n"] in struct_names}
            if p["default"] is not None:
                v["default"] = p["default"]
        else:
            raise ExtractError(f"expected `case object` or `case class` in object `{name}` but found "
                               f"`case {kw[1]}`, line {kw[2]}")
        c.expect("extends")
        v["extends"] = parse_type(c)
        v["wire"], _ = parse_serial_name(c, ident)
        v["line"] = t[2]
        variants.append(v)
    c.expect("}")
    d = {"name": name, "kind": "union" if has_class else "enum", "generics": g, "variants": variants,
         "line": line, "scope": scope}
    if has_class:
        d["tag_keys"] = []
        d["content_keys"] = contents
    else:
        for v in variants:
            del v["generics"]
    return d


def parse_import(c, obs):
    """cursor just after `import`."""
    segs = [bare(c.expect_id())]
    names = None
    while c.at("."):
        c.next()
        if c.at("{"):
            c.next()
            names = []
            while not c.at("}"):
                if c.kind() == "eof":
                    raise ExtractError("unclosed import selector")
                n = bare(c.expect_id())
                if c.eat("=>"):
                    c.expect_id()
                names.append(n)
                c.eat(",")
            c.expect("}")
            break
        if c.at("*"):
            c.next()
            names = ["*"]
            break
        segs.append(bare(c.expect_id()))
    if names is None:
        if len(segs) == 1:
            obs["imports"].append({"module": segs[0], "names": []})
            return
        names = [segs.pop()]
    obs["imports"].append({"module": ".".join(segs), "names": names})


def parse_items(c, obs, scope, struct_names):
    """items until `}` (not consumed) or eof."""
    while not c.eof() and not c.at("}"):
        t = c.peek()
        line = t[2]
        if t[0] != "id":
            raise ExtractError(f"unexpected `{t[1]}` at line {line}")
        if c.at("package"):
            if scope != "top":
                raise ExtractError(f"nested `package` inside a {scope} block, line {line}")
            c.next()
            if c.at("object") and c.kind(1) == "id":
                c.next()
                seg = bare(c.expect_id())
                inner = "package_object"
            else:
                seg = ".".join(dotted(c))
                inner = "package"
                if not c.at("{"):
                    if obs["_clause"] is not None or obs["_nested"] is not None or obs["defs"]:
                        raise ExtractError(f"package clause `{seg}` is not the first statement, line {line}")
                    obs["_clause"] = seg
                    continue
            c.expect("{")
            if obs["_nested"] is not None and obs["_nested"] != seg:
                raise ExtractError(f"`package {seg}` disagrees with earlier `{obs['_nested']}`, line {line}")
            obs["_nested"] = seg
            parse_items(c, obs, inner, struct_names)
            if not c.at("}"):
                raise ExtractError(f"unclosed `{{` of the {inner} block opened at line {line}")
            c.next()
        elif c.at("import"):
            c.next()
            parse_import(c, obs)
        elif c.at("type"):
            c.next()
            name = bare(c.expect_id())
            g = generics(c)
            c.expect("=")
            if c.kind() != "id" or c.peek()[2] != line:
                raise ExtractError(f"type `{name}` has an empty right-hand side, line {line}")
            target = parse_type(c)
            if name in HELPERS and not g and name not in obs["helper_defs"] and scope != "package":
                obs["helper_defs"].append(name)
                obs["helper_aliases"][name] = target
            else:
                obs["defs"].append({"name": name, "kind": "alias", "generics": g, "target": target,
                                    "line": line, "scope": scope})
        elif c.at("case") and c.text(1) == "class":
            c.next()
            c.next()
            name = bare(c.expect_id())
            g = generics(c)
            c.expect("(")
            ms = parse_params(c, f"case class `{name}`")
            obs["defs"].append({"name": name, "kind": "struct", "generics": g, "members": ms,
                                "line": line, "scope": scope})
        elif c.at("class"):
            c.next()
            name = bare(c.expect_id())
            g = generics(c)
            c.expect("extends")
            c.expect("Serializable")
            obs["defs"].append({"name": name, "kind": "struct", "generics": g, "members": [],
                                "line": line, "scope": scope})
        elif c.at("sealed") and c.text(1) == "trait":
            c.next()
            c.next()
            obs["defs"].append(parse_enum(c, line, scope, struct_names))
        else:
            raise ExtractError(f"unknown statement starting with `{t[1]}` at line {line}")


def idents_used(toks):
    """Identifier tokens outside comments, strings, `package ...` headers and import statements (`_` is not one)."""
    used, skip = set(), None
    for k, t, _ in toks:
        if skip is not None:
            # package header: up to `{` or end of line; import: up to end of line
            if k == "nl" or (skip == "package" and k == "punct" and t == "{"):
                skip = None
            continue
        if k == "id" and t in ("package", "import"):
            skip = t
        elif k == "id" and t != "_":
            used.add(t)
    return sorted(used)


def extract(text):
    toks = merge_backticks(lex(text, "scala"))
    c = Cursor(toks)
    obs = {"lang": "scala", "package": None, "imports": [], "helper_defs": [], "helper_aliases": {},
           "idents_used": idents_used(toks), "defs": [], "_clause": None, "_nested": None}
    # names of every `case class X (` / `class X extends` in the file, for the inner_helper hint
    struct_names = set()
    sig = c.toks
    for i, t in enumerate(sig):
        if t[0] == "id" and t[1] == "class" and i + 1 < len(sig) and sig[i + 1][0] == "id":
            struct_names.add(bare(sig[i + 1][1]))
    parse_items(c, obs, "top", struct_names)
    if not c.eof():
        t = c.peek()
        raise ExtractError(f"unexpected `{t[1]}` at line {t[2]} (no block is open)")
    clause, nested = obs.pop("_clause"), obs.pop("_nested")
    parts = [p for p in (clause, nested) if p]
    obs["package"] = ".".join(parts) if parts else None
    return obs
