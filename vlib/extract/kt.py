"""Kotlin extractor: generated text -> Observation (see OBSERVATION.md).

Shapes understood (everything /repo/core/src/language/kotlin.rs can print, plus a little slack):

  package a.b.c
  import a.b.C
  typealias Name<T> = Type
  const val NAME: Type = value
  @Serializable object Name                                              struct without members
  @Serializable data class Name<T> ( @SerialName("k") val id: T? = null, ... ) { override fun toString(): String = "x" }
  @Serializable @JvmInline value class Name( private val value: T ) { ... }   -> alias (extra "inline": True)
  @Serializable enum class Name(val string: String) { @SerialName("w") Ident("w"), ... }
  @Serializable sealed class Name<T> { @Serializable @SerialName("w") data class V<T>(val content: X): Name<T>()
                                       @Serializable @SerialName("w") object V: Name<T>() }

Extra (non-mandatory) keys this extractor adds:
  top level: "string_templates": [{"line","text"}]   string literals containing an unescaped `$name` / `${`
  every def: "annotations": [str]        names of the annotations written in front of the definition
  struct / inline alias: "to_string": str|None   the string returned by an `override fun toString()` in the body
  inline alias: "inline": True, "private": bool, "nullable": bool, "default": str|None, "unwrap": bool
  member: "annotations": [str], "private": bool
  enum: "ctor": [MEMBER]                  the primary constructor parameters (`val string: String`)
  enum / union variant: "binding": "SerialName"|"bare", "annotations": [str]
  union variant: "super": TYPE|None (the supertype written after `:`), "generics": [str],
                 "content_key": str (newtype only), "nullable": bool, "default": str|None (newtype only)
"""
from .base import Cursor, ExtractError, lex, mapt, opt, prim, seq, user
from .base import unquote as base_unquote

PRIMS = {"String", "Int", "UInt", "Short", "UShort", "Byte", "UByte", "Long", "ULong", "Float", "Double",
         "Boolean", "Unit", "Char", "Any", "Nothing", "Number"}
SEQS = {"List", "MutableList", "ArrayList", "Array", "Set", "MutableSet", "Collection", "Iterable"}
MAPS = {"HashMap", "Map", "MutableMap", "LinkedHashMap"}
USE_SITE = {"file", "field", "get", "set", "param", "property", "receiver", "setparam", "delegate"}
PARAM_MODIFIERS = {"private", "public", "internal", "protected", "override", "vararg", "open", "final"}
CLASS_MODIFIERS = {"public", "internal", "private", "protected", "open", "final", "abstract", "inner", "expect", "actual"}


def has_template(lit):
    i = 1
    while i < len(lit) - 1:
        if lit[i] == "\\":
            i += 2
            continue
        if lit[i] == "$" and (lit[i + 1] == "{" or lit[i + 1].isalpha() or lit[i + 1] == "_"):
            return True
        i += 1
    return False


def unquote(lit):
    """value of a Kotlin string literal. A literal with an unescaped `$name` / `${` is a string TEMPLATE: it has no constant
    value (and is not allowed as an annotation argument); what is reported for it can equal no wire string"""
    if lit[0] == '"' and has_template(lit):
        return "\u27e6template " + lit[1:-1] + "\u27e7"
    return base_unquote(lit)


def where(c):
    return c.peek()[2]


def ident(c):
    """identifier, possibly back-ticked (the lexer gives ` id ` as three tokens); returns (name, line)."""
    t = c.next()
    if t[0] == "punct" and t[1] == "`":
        parts = []
        while not c.at("`"):
            n = c.next()
            if n[0] == "eof" or n[2] != t[2]:
                raise ExtractError(f"unterminated back-ticked identifier at line {t[2]}")
            parts.append(n[1])
        c.next()
        if not parts:
            raise ExtractError(f"empty back-ticked identifier at line {t[2]}")
        return "".join(parts), t[2]
    if t[0] != "id":
        raise ExtractError(f"expected identifier but found `{t[1]}` at line {t[2]}")
    return t[1], t[2]


def dotted(c):
    name, line = ident(c)
    while c.at(".") and (c.kind(1) == "id" or c.text(1) == "`"):
        c.next()
        name += "." + ident(c)[0]
    return name, line


def parse_type(c):
    """TYPE with every `?` (also the top-level one) as an opt node."""
    t = c.peek()
    if t[0] == "punct" and t[1] == "(":
        c.next()
        inner = parse_type(c)
        if not c.at(")"):
            raise ExtractError(f"unsupported type shape (tuple / function type?) near `{c.text()}` at line {where(c)}")
        c.next()
        if c.at("->"):
            raise ExtractError(f"function types are not supported, line {where(c)}")
        ty = inner
    elif t[0] == "punct" and t[1] == "*":
        c.next()
        return user("*")
    elif t[0] == "id" or (t[0] == "punct" and t[1] == "`"):
        if t[1] in ("in", "out") and c.kind(1) == "id":
            c.next()
        name, _ = dotted(c)
        args = []
        if c.at("<"):
            c.next()
            while True:
                args.append(parse_type(c))
                if not c.eat(","):
                    break
            c.expect(">")
        short = name[len("kotlin.collections."):] if name.startswith("kotlin.collections.") else name
        short = short[len("kotlin."):] if short.startswith("kotlin.") and short.count(".") == 1 else short
        if short in SEQS and len(args) == 1:
            ty = seq(args[0])
        elif short in MAPS and len(args) == 2:
            ty = mapt(args[0], args[1])
        elif short in PRIMS and not args:
            ty = prim(name)
        else:
            ty = user(name, args)
    else:
        raise ExtractError(f"unexpected `{t[1]}` where a type should be, line {t[2]}")
    while c.at("?"):
        c.next()
        ty = opt(ty)
    return ty


def generics(c):
    """optional `<T, U : Bound>` -> [names]"""
    g = []
    if c.eat("<"):
        while True:
            while c.text() in ("in", "out", "reified") and c.kind(1) == "id":
                c.next()
            g.append(ident(c)[0])
            if c.eat(":"):
                parse_type(c)
            if not c.eat(","):
                break
        c.expect(">")
    return g


def annotations(c):
    """zero or more `@Name`, `@a.b.Name(args)`, `@get:Name(...)`; returns [(name, [arg tokens])]."""
    out = []
    while c.at("@"):
        at = c.next()
        if c.kind() != "id":
            raise ExtractError(f"`@` not followed by an annotation name at line {at[2]}")
        if c.text() in USE_SITE and c.text(1) == ":" and c.kind(2) == "id":
            c.next()
            c.next()
        name, line = dotted(c)
        if c.at("<"):  # @Foo<T>(...)
            c.next()
            c.skip_balanced("<", ">")
        args = []
        if c.at("(") and c.peek()[2] == line:
            c.next()
            depth = 1
            while True:
                t = c.next()
                if t[0] == "eof":
                    raise ExtractError(f"unclosed `(` in annotation `@{name}` at line {line}")
                if t[0] == "punct" and t[1] in "([{":
                    depth += 1
                elif t[0] == "punct" and t[1] in ")]}":
                    depth -= 1
                    if depth == 0:
                        break
                args.append(t)
        out.append((name, args, line))
    return out


def serial_name(anns):
    """value of @SerialName("...") among annotations, or None."""
    found = None
    for name, args, line in anns:
        if name.split(".")[-1] != "SerialName":
            continue
        a = list(args)
        if len(a) == 3 and a[0][1] == "value" and a[1][1] == "=":
            a = a[2:]
        if len(a) != 1 or a[0][0] != "str":
            raise ExtractError(f"@SerialName without a single string argument at line {line}")
        if found is not None:
            raise ExtractError(f"two @SerialName annotations on one element at line {line}")
        found = unquote(a[0][1])
    return found


def ann_names(anns):
    return [a[0] for a in anns]


def default_text(c):
    """after `=`: the default value expression up to the `,` or `)` that ends the parameter."""
    parts, depth = [], 0
    while True:
        t = c.peek()
        if t[0] == "eof":
            raise ExtractError("unterminated default value")
        if t[0] == "punct" and t[1] in "([{":
            depth += 1
        elif t[0] == "punct" and t[1] in ")]}":
            if depth == 0:
                break
            depth -= 1
        elif t[0] == "punct" and t[1] == "," and depth == 0:
            break
        parts.append(t[1])
        c.next()
    if not parts:
        raise ExtractError(f"`=` without a default value at line {where(c)}")
    return "".join(parts) if len(parts) <= 2 else " ".join(parts)


def parse_params(c, owner):
    """after `(`: primary constructor parameters until the matching `)` (consumed) -> [MEMBER]."""
    members = []
    while not c.at(")"):
        if c.kind() == "eof":
            raise ExtractError(f"unclosed `(` in the constructor of `{owner}`")
        anns = annotations(c)
        mods = []
        while c.text() in PARAM_MODIFIERS and c.kind() == "id":
            mods.append(c.next()[1])
        if not c.at("val", "var"):
            raise ExtractError(f"constructor parameter of `{owner}` is not a val/var property "
                               f"(found `{c.text()}`) at line {where(c)}")
        c.next()
        name, line = ident(c)
        c.expect(":")
        full = parse_type(c)
        default = None
        if c.eat("="):
            default = default_text(c)
        nullable = full["k"] == "opt"
        key = serial_name(anns)
        members.append({"ident": name, "key": name if key is None else key,
                        "binding": "bare" if key is None else "SerialName",
                        "optional": nullable and default == "null",
                        "ty": full["e"] if nullable else full,
                        "nullable": nullable, "default": default, "line": line,
                        "annotations": ann_names(anns), "private": "private" in mods})
        if not c.eat(","):
            if c.kind() == "eof":
                raise ExtractError(f"unclosed `(` in the constructor of `{owner}` (after parameter `{name}`, line {line})")
            if not c.at(")"):
                raise ExtractError(f"expected `,` or `)` after parameter `{name}` of `{owner}` "
                                   f"but found `{c.text()}` at line {where(c)}")
    c.expect(")")
    return members


def parse_body(c, owner):
    """optional `{ ... }` after a class: only member functions are accepted. Returns (to_string, fun names)."""
    to_string, funs = None, []
    if not c.at("{"):
        return to_string, funs
    c.next()
    while not c.at("}"):
        if c.kind() == "eof":
            raise ExtractError(f"unclosed body of `{owner}`")
        annotations(c)
        mods = []
        while c.text() in ("override", "public", "private", "internal", "protected", "open", "final"):
            mods.append(c.next()[1])
        if not c.at("fun"):
            raise ExtractError(f"unexpected `{c.text()}` in the body of `{owner}` at line {where(c)}")
        c.next()
        fname, fline = ident(c)
        c.expect("(")
        c.skip_balanced("(", ")")
        if c.eat(":"):
            parse_type(c)
        if c.eat("="):
            # expression body: everything on the same line
            expr = []
            while c.kind() != "eof" and c.peek()[2] == fline and not c.at("}"):
                expr.append(c.next())
            if not expr:
                raise ExtractError(f"function `{fname}` of `{owner}` has an empty body, line {fline}")
            if fname == "toString":
                if len(expr) != 1 or expr[0][0] != "str":
                    raise ExtractError(f"toString of `{owner}` is not a string literal, line {fline}")
                to_string = unquote(expr[0][1])
        elif c.eat("{"):
            c.skip_balanced("{", "}")
            if fname == "toString":
                raise ExtractError(f"toString of `{owner}` has a block body, line {fline}")
        else:
            raise ExtractError(f"function `{fname}` of `{owner}` has no body, line {fline}")
        funs.append(fname)
    c.expect("}")
    return to_string, funs


def same_line(c, line):
    out = []
    while c.kind() != "eof" and c.peek()[2] == line:
        out.append(c.next())
    return out


def parse_enum(c, name, g, line, anns):
    ctor = []
    if c.eat("("):
        ctor = parse_params(c, name)
    c.expect("{")
    variants = []
    while not c.at("}") and not c.at(";"):
        if c.kind() == "eof":
            raise ExtractError(f"unclosed enum class `{name}`")
        vanns = annotations(c)
        vname, vline = ident(c)
        args = []
        if c.eat("("):
            while not c.at(")"):
                t = c.next()
                if t[0] == "eof":
                    raise ExtractError(f"unclosed `(` in enum entry `{vname}` at line {vline}")
                if t[0] != "str":
                    raise ExtractError(f"enum entry `{vname}` has a non-string constructor argument `{t[1]}`, line {t[2]}")
                args.append(unquote(t[1]))
                if not c.eat(","):
                    break
            c.expect(")")
        if c.at("{"):
            raise ExtractError(f"enum entry `{vname}` has a body, line {vline}")
        sn = serial_name(vanns)
        # without @SerialName kotlinx.serialization uses the entry name on the wire
        wires = [vname if sn is None else sn] + args
        v = {"ident": vname, "wire": wires[0], "payload": "unit", "line": vline,
             "binding": "SerialName" if sn is not None else "bare", "annotations": ann_names(vanns)}
        if len(wires) > 1 and any(w != wires[0] for w in wires):
            v["wires"] = wires
        variants.append(v)
        if not c.eat(","):
            break
    if c.eat(";") and not c.at("}"):
        raise ExtractError(f"enum class `{name}` has members after its entries, line {where(c)}")
    if not c.at("}"):
        raise ExtractError(f"expected `,` or `}}` in enum class `{name}` but found `{c.text()}` at line {where(c)}")
    c.next()
    return {"name": name, "kind": "enum", "generics": g, "variants": variants, "line": line,
            "ctor": ctor, "annotations": ann_names(anns)}


def parse_super(c):
    """after `:` of a nested class: `Name<T>()` -> TYPE"""
    ty = parse_type(c)
    if c.eat("("):
        if not c.at(")"):
            raise ExtractError(f"supertype constructor call with arguments at line {where(c)}")
        c.next()
    if c.at(","):
        raise ExtractError(f"more than one supertype at line {where(c)}")
    return ty


def parse_sealed(c, name, g, line, anns):
    if c.at("("):
        raise ExtractError(f"sealed class `{name}` has a constructor, line {where(c)}")
    c.expect("{")
    variants, contents = [], []
    while not c.at("}"):
        if c.kind() == "eof":
            raise ExtractError(f"unclosed sealed class `{name}`")
        vanns = annotations(c)
        while c.text() in CLASS_MODIFIERS and c.kind() == "id":
            c.next()
        is_data = c.eat("data")
        kw = c.next()
        if kw[1] not in ("class", "object") or kw[0] != "id":
            raise ExtractError(f"unexpected `{kw[1]}` inside sealed class `{name}` at line {kw[2]}")
        vname, vline = ident(c)
        sn = serial_name(vanns)
        v = {"ident": vname, "wire": vname if sn is None else sn, "line": vline,
             "binding": "bare" if sn is None else "SerialName", "annotations": ann_names(vanns),
             "generics": [], "super": None}
        if kw[1] == "object":
            v["payload"] = "unit"
        else:
            if not is_data:
                raise ExtractError(f"variant `{vname}` of `{name}` is a plain class, not a data class, line {vline}")
            v["generics"] = generics(c)
            c.expect("(")
            ms = parse_params(c, f"{name}.{vname}")
            if len(ms) != 1:
                raise ExtractError(f"variant `{vname}` of `{name}` has {len(ms)} constructor parameters "
                                   f"(expected exactly one), line {vline}")
            m = ms[0]
            if m["binding"] != "bare":
                raise ExtractError(f"content parameter of variant `{vname}` of `{name}` carries @SerialName, line {vline}")
            contents.append(m["ident"])
            v["payload"] = "newtype"
            v["ty"] = m["ty"]
            v["optional"] = m["nullable"]
            v["nullable"] = m["nullable"]
            v["default"] = m["default"]
            v["content_key"] = m["ident"]
        if c.eat(":"):
            v["super"] = parse_super(c)
        if c.at("{"):
            raise ExtractError(f"variant `{vname}` of `{name}` has a body, line {vline}")
        variants.append(v)
    c.expect("}")
    return {"name": name, "kind": "union", "generics": g, "variants": variants, "tag_keys": [],
            "content_keys": contents, "line": line, "annotations": ann_names(anns)}


def extract(text):
    toks = lex(text, "kt")
    obs = {"lang": "kotlin", "package": None, "imports": [], "helper_defs": [], "idents_used": [], "defs": []}

    # identifiers outside comments, strings, the package line and import lines
    used, skip_line, at_line_start = set(), None, True
    for k, t, ln in toks:
        if k == "nl":
            at_line_start = True
            continue
        if k == "comment":
            continue
        if at_line_start and k == "id" and t in ("import", "package"):
            skip_line = ln
        at_line_start = False
        if k == "id" and ln != skip_line:
            used.add(t)
    obs["idents_used"] = sorted(used)
    # a `$name` / `${` inside a Kotlin string literal is a template, not text: report them (raw fact, extra key)
    obs["string_templates"] = [{"line": ln, "text": t} for k, t, ln in toks if k == "str" and has_template(t)]

    c = Cursor(toks)
    while not c.eof():
        first = c.peek()
        line = first[2]
        if c.at("package"):
            c.next()
            rest = same_line(c, line)
            if not rest or any(t[0] != "id" and t[1] not in (".", "`") for t in rest) or rest[-1][1] == ".":
                raise ExtractError(f"malformed package statement at line {line}")
            if obs["package"] is not None:
                raise ExtractError(f"second package statement at line {line}")
            obs["package"] = "".join(t[1] for t in rest if t[1] != "`")
            c.eat(";")
            continue
        if c.at("import"):
            c.next()
            rest = [t for t in same_line(c, line) if t[1] not in ("`", ";")]
            alias = None
            if len(rest) >= 3 and rest[-2][1] == "as":
                alias = rest[-1][1]
                rest = rest[:-2]
            parts = [t[1] for t in rest[0::2]]
            dots = [t[1] for t in rest[1::2]]
            if not parts or len(rest) % 2 == 0 or any(d != "." for d in dots) or \
                    any(t[0] != "id" and t[1] != "*" for t in rest[0::2]):
                raise ExtractError(f"malformed import statement at line {line}")
            imp = {"module": ".".join(parts[:-1]), "names": [parts[-1]]}
            if alias:
                imp["as"] = alias
            obs["imports"].append(imp)
            continue

        anns = annotations(c)
        mods = []
        while c.kind() == "id" and c.text() in CLASS_MODIFIERS:
            mods.append(c.next()[1])
        kw = c.next()
        if kw[0] != "id":
            raise ExtractError(f"unexpected `{kw[1]}` at top level, line {kw[2]}")
        line = kw[2]
        k = kw[1]

        if k == "typealias":
            name, _ = ident(c)
            g = generics(c)
            eq = c.expect("=")
            if c.kind() == "eof" or c.peek()[2] != eq[2]:
                raise ExtractError(f"typealias `{name}` has an empty right-hand side, line {eq[2]}")
            target = parse_type(c)
            obs["defs"].append({"name": name, "kind": "alias", "generics": g, "target": target, "line": line,
                                "annotations": ann_names(anns)})
        elif k == "const":
            c.expect("val")
            name, _ = ident(c)
            c.expect(":")
            ty = parse_type(c)
            eq = c.expect("=")
            val = same_line(c, eq[2])
            if not val:
                raise ExtractError(f"const `{name}` has no value, line {eq[2]}")
            obs["defs"].append({"name": name, "kind": "const", "generics": [], "ty": ty,
                                "value": "".join(t[1] for t in val) if len(val) <= 2 else " ".join(t[1] for t in val),
                                "line": line, "annotations": ann_names(anns)})
        elif k == "object" or (k == "data" and c.at("object")):
            if k == "data":
                c.next()
            name, _ = ident(c)
            if c.eat(":"):
                parse_super(c)
            to_string, _ = parse_body(c, name)
            obs["defs"].append({"name": name, "kind": "struct", "generics": [], "members": [], "line": line,
                                "to_string": to_string, "annotations": ann_names(anns)})
        elif k == "enum":
            c.expect("class")
            name, _ = ident(c)
            g = generics(c)
            obs["defs"].append(parse_enum(c, name, g, line, anns))
        elif k == "sealed":
            kw2 = c.next()
            if kw2[1] not in ("class", "interface"):
                raise ExtractError(f"`sealed {kw2[1]}` is not understood, line {kw2[2]}")
            name, _ = ident(c)
            g = generics(c)
            obs["defs"].append(parse_sealed(c, name, g, line, anns))
        elif k == "value" and c.at("class"):
            c.next()
            name, _ = ident(c)
            g = generics(c)
            c.expect("(")
            ms = parse_params(c, name)
            if len(ms) != 1:
                raise ExtractError(f"value class `{name}` has {len(ms)} constructor parameters, line {line}")
            m = ms[0]
            to_string, funs = parse_body(c, name)
            obs["defs"].append({"name": name, "kind": "alias", "generics": g,
                                "target": opt(m["ty"]) if m["nullable"] else m["ty"], "line": line,
                                "inline": True, "private": m["private"], "nullable": m["nullable"],
                                "default": m["default"], "to_string": to_string, "unwrap": "unwrap" in funs,
                                "annotations": ann_names(anns)})
        elif k == "class" or (k == "data" and c.at("class")):
            if k == "data":
                c.next()
            name, _ = ident(c)
            g = generics(c)
            members = []
            if c.eat("("):
                members = parse_params(c, name)
            if c.eat(":"):
                parse_super(c)
            to_string, _ = parse_body(c, name)
            obs["defs"].append({"name": name, "kind": "struct", "generics": g, "members": members, "line": line,
                                "to_string": to_string, "annotations": ann_names(anns)})
        else:
            raise ExtractError(f"unknown top-level declaration `{k}` at line {kw[2]}")
    return obs
