"""Swift extractor: generated text -> Observation (see OBSERVATION.md).

Shapes understood (everything core/src/language/swift.rs can write):

    import Foundation
    public typealias Name<T> = TYPE
    public let NAME: TYPE = literal                       (constants; not emitted by the backend today)
    public struct Name<T: A & B>: Codable, Dec {           (stored lets, optional CodingKeys enum, init)
    public enum Name: String, Codable { case a = "w" }     (unit enum)
    public [indirect] enum Name<T: A>: Codable {           (algebraic enum: cases, CodingKeys, ContainerCodingKeys,
                                                            init(from:), encode(to:))
    public struct CodableVoid: Codable {}                  (helper)

Extra keys beyond OBSERVATION.md (all optional for consumers):
    def:      "inherits": [str]                      the inheritance / decorator list as written
              "generic_constraints": {"T": [str]}    constraints written on each generic parameter
              "indirect": bool                       (enums)
              "init": [{"label","ty","nullable"}]    (structs) the memberwise initializer's parameters
              "init_assigns": [[lhs, rhs]]           (structs) `self.lhs = rhs` statements of the initializer
              "coding_keys": bool                    (structs) a CodingKeys enum is present
    variant:  "decode_ty": TYPE                      (union newtype) the type handed to container.decode(...), as written
                                                     (an optional payload keeps its outer opt node here)
              "wires"                                only when decode / encode disagree with the CodingKeys declaration
"""
from .base import Cursor, ExtractError, lex, mapt, opt, prim, seq, unquote, user

PRIMS = {
    "String", "Character", "Unicode.Scalar", "Bool",
    "Int", "Int8", "Int16", "Int32", "Int64",
    "UInt", "UInt8", "UInt16", "UInt32", "UInt64",
    "Float", "Float32", "Float64", "Double", "Decimal",
    "Date", "Data", "Any", "Void", "Never",
}
HELPERS = {"CodableVoid"}

# Words a Swift compiler refuses where an identifier is declared or a type is named unless back-ticked.
RESERVED = {
    "associatedtype", "class", "deinit", "enum", "extension", "fileprivate", "func", "import", "init", "inout",
    "internal", "let", "operator", "precedencegroup", "private", "protocol", "public", "rethrows", "static",
    "struct", "subscript", "typealias", "var",
    "break", "case", "catch", "continue", "default", "defer", "do", "else", "fallthrough", "for", "guard", "if",
    "in", "repeat", "return", "throw", "switch", "where", "while",
    "as", "false", "is", "nil", "self", "Self", "super", "throws", "true", "try", "Any", "_",
}
TYPE_POSITION_OK = {"Any", "Self"}
ACCESS = ("public", "private", "internal", "fileprivate", "open")


def bare(name):
    """identifier token -> identifier without back-ticks"""
    return name[1:-1] if name.startswith("`") else name


class P:
    """Recursive-descent parser over one file."""

    def __init__(self, text, strict_keywords=True):
        self.toks = lex(text, "swift")
        self.c = Cursor(self.toks)
        self.strict = strict_keywords

    # ---- identifiers -------------------------------------------------------------------------------------------
    def decl_id(self, what):
        """An identifier in declaration position. Returns (name without back-ticks, line)."""
        t = self.c.next()
        if t[0] != "id":
            raise ExtractError(f"expected {what} name but found `{t[1]}` at line {t[2]}")
        if self.strict and t[1] in RESERVED:
            raise ExtractError(f"reserved word `{t[1]}` used as {what} name without back-ticks at line {t[2]}")
        return bare(t[1]), t[2]

    def dotted(self, stop_at_self=False):
        """A (possibly dotted) type or protocol name."""
        t = self.c.next()
        if t[0] != "id":
            raise ExtractError(f"unexpected `{t[1]}` where a type name should be, line {t[2]}")
        if self.strict and t[1] in RESERVED and t[1] not in TYPE_POSITION_OK:
            raise ExtractError(f"reserved word `{t[1]}` used as a type name without back-ticks at line {t[2]}")
        name = bare(t[1])
        # `Pre` directly followed by a back-ticked identifier (Pre`Protocol`) is not Swift; whether the FILE is well-formed is C10's
        # question - here the spelling is reported as it is written, so that C09 can compare it with the definition name
        while self.c.kind() == "id" and self.c.text().startswith("`") and not t[1].startswith("`"):
            name += self.c.next()[1]
        while self.c.at(".") and self.c.kind(1) == "id":
            if stop_at_self and self.c.text(1) == "self":
                break
            self.c.next()
            name += "." + bare(self.c.next()[1])
        return name

    # ---- types -------------------------------------------------------------------------------------------------
    def parse_type(self, stop_at_self=False):
        c = self.c
        if c.at("["):
            open_ = c.next()
            a = self.parse_type()
            if c.eat(":"):
                b = self.parse_type()
                t = mapt(a, b)
            else:
                t = seq(a)
            if not c.eat("]"):
                raise ExtractError(f"`[` opened at line {open_[2]} is not closed by `]` "
                                   f"(found `{c.text()}` at line {c.peek()[2]})")
        elif c.at("("):
            open_ = c.next()
            if c.eat(")"):
                t = prim("Void")
            else:
                t = self.parse_type()
                if not c.eat(")"):
                    raise ExtractError(f"tuple / function types are not understood (line {open_[2]})")
        else:
            name = self.dotted(stop_at_self)
            args = []
            if c.at("<"):
                c.next()
                while True:
                    args.append(self.parse_type())
                    if not c.eat(","):
                        break
                c.expect(">")
            t = prim(name) if (name in PRIMS and not args) else user(name, args)
        while c.at("?") or c.at("!"):
            c.next()
            t = opt(t)
        return t

    def generics(self):
        """`<T: A & B, U>` -> (["T","U"], {"T": ["A","B"], "U": []})"""
        c = self.c
        names, cons = [], {}
        if c.eat("<"):
            while True:
                n, _ = self.decl_id("generic parameter")
                names.append(n)
                cons[n] = []
                if c.eat(":"):
                    while True:
                        cons[n].append(self.dotted())
                        if not c.eat("&"):
                            break
                if not c.eat(","):
                    break
            c.expect(">")
        return names, cons

    def inherits(self):
        c = self.c
        out = []
        if c.eat(":"):
            while True:
                out.append(self.dotted())
                if not c.eat(","):
                    break
        return out

    # ---- enum cases --------------------------------------------------------------------------------------------
    def case_list(self, allow_payload):
        """after `case`: `a`, `a = "w"`, `a(T)` separated by commas. Returns list of dicts."""
        c = self.c
        out = []
        while True:
            ident, line = self.decl_id("case")
            item = {"ident": ident, "line": line, "raw": None, "payload": None}
            if c.at("("):
                if not allow_payload:
                    raise ExtractError(f"case `{ident}` of a key enum has an associated value, line {line}")
                c.next()
                if c.kind() == "id" and c.text(1) == ":":
                    raise ExtractError(f"case `{ident}` has labelled associated values, line {line}")
                item["payload"] = self.parse_type()
                if c.at(","):
                    raise ExtractError(f"case `{ident}` has more than one associated value, line {line}")
                c.expect(")")
            if c.eat("="):
                v = c.next()
                if v[0] != "str":
                    raise ExtractError(f"case `{ident}` has a raw value that is not a string literal "
                                       f"(`{v[1]}`), line {v[2]}")
                item["raw"] = unquote(v[1])
            out.append(item)
            if not c.eat(","):
                break
        return out

    def key_enum(self):
        """after `enum Name`: `: String, CodingKey { case a = "x", b }` -> (inherits, [case items])"""
        c = self.c
        inh = self.inherits()
        c.expect("{")
        cases = []
        while not c.at("}"):
            if c.kind() == "eof":
                raise ExtractError("unclosed key enum")
            c.expect("case")
            cases.extend(self.case_list(False))
            if not (c.at("case") or c.at("}")):
                raise ExtractError(f"unexpected `{c.text()}` after case `{cases[-1]['ident']}` of a key enum "
                                   f"(not a valid case name?), line {c.peek()[2]}")
        c.expect("}")
        return inh, cases

    # ---- struct ------------------------------------------------------------------------------------------------
    def skip_access(self):
        while self.c.at(*ACCESS):
            self.c.next()

    def parse_struct(self, line):
        c = self.c
        name, _ = self.decl_id("struct")
        g, cons = self.generics()
        inh = self.inherits()
        c.expect("{")
        members, coding, init, assigns = [], None, None, None
        while not c.at("}"):
            if c.kind() == "eof":
                raise ExtractError(f"struct `{name}` (line {line}) is not closed")
            self.skip_access()
            t = c.next()
            if t[1] in ("let", "var") and t[0] == "id":
                ident, mline = self.decl_id("property")
                if not c.eat(":"):
                    raise ExtractError(f"property `{ident}` of `{name}` has no type annotation, line {mline}")
                ty = self.parse_type()
                if c.at("=") or c.at("{"):
                    raise ExtractError(f"property `{ident}` of `{name}` has an initial value / accessor block, "
                                       f"line {mline}")
                nullable = ty["k"] == "opt"
                members.append({"ident": ident, "key": ident, "binding": "bare", "optional": nullable,
                                "nullable": nullable, "ty": ty["e"] if nullable else ty, "line": mline})
            elif t[1] == "enum" and t[0] == "id":
                ename, eline = self.decl_id("enum")
                if ename != "CodingKeys":
                    raise ExtractError(f"unexpected nested enum `{ename}` in struct `{name}`, line {eline}")
                if coding is not None:
                    raise ExtractError(f"struct `{name}` has two CodingKeys enums, line {eline}")
                _, cases = self.key_enum()
                coding = cases
            elif t[1] == "init" and t[0] == "id":
                if init is not None:
                    raise ExtractError(f"struct `{name}` has two initializers, line {t[2]}")
                init, assigns = self.parse_memberwise_init(name)
            else:
                raise ExtractError(f"unexpected `{t[1]}` in the body of struct `{name}`, line {t[2]}")
        c.expect("}")
        if coding is not None:
            by = {}
            for k in coding:
                if k["ident"] in by:
                    raise ExtractError(f"CodingKeys of `{name}` declares case `{k['ident']}` twice, line {k['line']}")
                by[k["ident"]] = k
            for m in members:
                k = by.pop(m["ident"], None)
                if k is None:
                    raise ExtractError(f"property `{m['ident']}` of struct `{name}` (line {m['line']}) has no case "
                                       f"in the CodingKeys enum")
                if k["raw"] is not None:
                    m["key"], m["binding"] = k["raw"], "CodingKeys"
            if by:
                k = next(iter(by.values()))
                raise ExtractError(f"CodingKeys of `{name}` has case `{k['ident']}` (line {k['line']}) "
                                   f"without a stored property")
        d = {"name": name, "kind": "struct", "generics": g, "line": line, "members": members,
             "inherits": inh, "generic_constraints": cons, "coding_keys": coding is not None}
        if init is not None:
            d["init"], d["init_assigns"] = init, assigns
        return d

    def parse_memberwise_init(self, owner):
        """after `init`: `(a: T, b: U?) { self.a = a ... }`"""
        c = self.c
        c.expect("(")
        params = []
        while not c.at(")"):
            lab = c.next()
            if lab[0] != "id":
                raise ExtractError(f"unexpected `{lab[1]}` in the initializer of `{owner}`, line {lab[2]}")
            if c.kind() == "id":          # `label name: T`
                c.next()
            c.expect(":")
            ty = self.parse_type()
            nullable = ty["k"] == "opt"
            params.append({"label": bare(lab[1]), "ty": ty["e"] if nullable else ty, "nullable": nullable,
                           "line": lab[2]})
            if not c.eat(","):
                break
        c.expect(")")
        c.eat("throws")
        c.expect("{")
        assigns = []
        while not c.at("}"):
            s = c.next()
            if s[1] != "self" or s[0] != "id":
                raise ExtractError(f"unexpected `{s[1]}` in the initializer body of `{owner}`, line {s[2]}")
            c.expect(".")
            lhs = c.next()
            c.expect("=")
            rhs = c.next()
            if lhs[0] != "id" or rhs[0] != "id":
                raise ExtractError(f"initializer of `{owner}` has an assignment that is not `self.a = a`, "
                                   f"line {s[2]}")
            assigns.append([bare(lhs[1]), bare(rhs[1])])
        c.expect("}")
        return params, assigns

    # ---- enum --------------------------------------------------------------------------------------------------
    def parse_enum(self, line, indirect):
        c = self.c
        name, _ = self.decl_id("enum")
        g, cons = self.generics()
        inh = self.inherits()
        c.expect("{")
        cases, coding, container = [], None, None
        funcs = []      # ("init"|"encode", first body token index, end index, line)
        while not c.at("}"):
            if c.kind() == "eof":
                raise ExtractError(f"enum `{name}` (line {line}) is not closed")
            self.skip_access()
            c.eat("indirect")
            t = c.next()
            if t[0] != "id":
                raise ExtractError(f"unexpected `{t[1]}` in the body of enum `{name}`, line {t[2]}")
            if t[1] == "case":
                cases.extend(self.case_list(True))
            elif t[1] == "enum":
                ename, eline = self.decl_id("enum")
                _, ks = self.key_enum()
                if ename == "CodingKeys" and coding is None:
                    coding = ks
                elif ename == "ContainerCodingKeys" and container is None:
                    container = ks
                else:
                    raise ExtractError(f"unexpected nested enum `{ename}` in enum `{name}`, line {eline}")
            elif t[1] == "init":
                c.expect("(")
                c.expect("from")
                c.expect_id()
                c.expect(":")
                c.expect("Decoder")
                c.expect(")")
                c.expect("throws")
                c.expect("{")
                start = c.i
                c.skip_balanced("{", "}")
                funcs.append(("init", start, c.i - 1, t[2]))
            elif t[1] == "func":
                fn = c.expect_id()
                if fn != "encode":
                    raise ExtractError(f"unexpected method `{fn}` in enum `{name}`, line {t[2]}")
                c.expect("(")
                c.expect("to")
                c.expect_id()
                c.expect(":")
                c.expect("Encoder")
                c.expect(")")
                c.expect("throws")
                c.expect("{")
                start = c.i
                c.skip_balanced("{", "}")
                funcs.append(("encode", start, c.i - 1, t[2]))
            else:
                raise ExtractError(f"unexpected `{t[1]}` in the body of enum `{name}`, line {t[2]}")
        c.expect("}")

        seen = set()
        for k in cases:
            if k["ident"] in seen:
                raise ExtractError(f"enum `{name}` declares case `{k['ident']}` twice, line {k['line']}")
            seen.add(k["ident"])

        algebraic = container is not None or bool(funcs) or any(k["payload"] is not None for k in cases)
        base = {"name": name, "generics": g, "line": line, "inherits": inh, "generic_constraints": cons,
                "indirect": indirect}
        if not algebraic:
            if coding is not None:
                raise ExtractError(f"unit enum `{name}` (line {line}) has a CodingKeys enum")
            variants = [{"ident": k["ident"], "wire": k["raw"] if k["raw"] is not None else k["ident"],
                         "payload": "unit", "line": k["line"]} for k in cases]
            return dict(base, kind="enum", variants=variants)

        # ---- algebraic ----
        for k in cases:
            if k["raw"] is not None:
                raise ExtractError(f"case `{k['ident']}` of algebraic enum `{name}` has a raw value, line {k['line']}")
        if container is None:
            raise ExtractError(f"algebraic enum `{name}` (line {line}) has no ContainerCodingKeys enum")
        if len(container) != 2:
            raise ExtractError(f"ContainerCodingKeys of `{name}` has {len(container)} cases, expected tag and content "
                               f"(line {container[0]['line'] if container else line})")
        if container[0]["ident"] == container[1]["ident"]:
            raise ExtractError(f"ContainerCodingKeys of `{name}` declares `{container[0]['ident']}` twice, "
                               f"line {container[0]['line']}")
        kinds = sorted(f[0] for f in funcs)
        if kinds != ["encode", "init"]:
            raise ExtractError(f"algebraic enum `{name}` (line {line}) needs exactly one init(from:) and one "
                               f"encode(to:), found {kinds}")
        cont = {k["ident"]: (k["raw"] if k["raw"] is not None else k["ident"]) for k in container}
        tag_keys = [cont[container[0]["ident"]]]
        content_keys = [cont[container[1]["ident"]]]

        ck = {}
        for k in coding or []:
            if k["ident"] in ck:
                raise ExtractError(f"CodingKeys of `{name}` declares case `{k['ident']}` twice, line {k['line']}")
            ck[k["ident"]] = k["raw"] if k["raw"] is not None else k["ident"]
        if coding is not None:
            for k in cases:
                if k["ident"] not in ck:
                    raise ExtractError(f"case `{k['ident']}` of `{name}` (line {k['line']}) has no case in CodingKeys")
            extra = [k for k in coding if k["ident"] not in seen]
            if extra:
                raise ExtractError(f"CodingKeys of `{name}` has case `{extra[0]['ident']}` (line {extra[0]['line']}) "
                                   f"that is not a case of the enum")
        elif cases:
            raise ExtractError(f"algebraic enum `{name}` (line {line}) has cases but no CodingKeys enum")

        dec = enc = None
        for kind, start, end, fline in sorted(funcs, key=lambda f: f[1]):
            info = self.scan_codec(name, kind, start, end, fline, cont, ck, seen)
            tag_keys += info["tag"]
            content_keys += info["content"]
            if kind == "init":
                dec = info
            else:
                enc = info

        variants = []
        for k in cases:
            v = {"ident": k["ident"], "wire": ck[k["ident"]], "line": k["line"]}
            wires = [ck[k["ident"]]]
            # decoder: CodingKeys case K (wire ck[K]) produces `self = .V`
            d_from = [kk for kk, vs in dec["map"].items() if k["ident"] in vs]
            if not d_from:
                raise ExtractError(f"init(from:) of `{name}` never produces case `{k['ident']}`")
            wires += [ck[kk] for kk in d_from]
            if k["ident"] not in enc["map"]:
                raise ExtractError(f"encode(to:) of `{name}` does not handle case `{k['ident']}`")
            wires += [ck[kk] for kk in enc["map"][k["ident"]]]
            if not enc["map"][k["ident"]]:
                raise ExtractError(f"encode(to:) of `{name}` writes no tag for case `{k['ident']}`")
            if len(set(wires)) > 1:
                v["wires"] = wires
            if k["payload"] is None:
                v["payload"] = "unit"
            else:
                ty = k["payload"]
                v["payload"] = "newtype"
                v["optional"] = ty["k"] == "opt"
                v["ty"] = ty["e"] if v["optional"] else ty
                dts = [dec["types"][kk] for kk in d_from if kk in dec["types"]]
                if dts:
                    v["decode_ty"] = dts[0]
            variants.append(v)
        return dict(base, kind="union", variants=variants, tag_keys=tag_keys, content_keys=content_keys)

    def scan_codec(self, owner, kind, start, end, fline, cont, ck, case_names):
        """Walk the body of init(from:) / encode(to:) (token range of the cursor's significant tokens).

        Returns {"tag": [wire...], "content": [wire...], "map": {...}, "types": {...}}
          init:   map[CodingKeys case] = [enum cases assigned to self], types[CodingKeys case] = decoded TYPE
          encode: map[enum case] = [CodingKeys cases written]
        """
        c = self.c
        save = c.i
        c.i = start
        info = {"tag": [], "content": [], "map": {}, "types": {}}
        cur = None
        keyed_by = None
        try:
            while c.i < end:
                t = c.next()
                if t[0] == "str":
                    continue
                if t[1] == "keyedBy" and t[0] == "id":
                    c.expect(":")
                    keyed_by = self.dotted(stop_at_self=True)
                    c.expect(".")
                    c.expect("self")
                    if keyed_by != "ContainerCodingKeys":
                        raise ExtractError(f"{kind} of `{owner}` keys its container by `{keyed_by}`, "
                                           f"not ContainerCodingKeys (line {t[2]})")
                elif t[1] == "case" and t[0] == "id":
                    c.expect(".")
                    cur = bare(c.expect_id())
                    known = ck if kind == "init" else case_names
                    if cur not in known:
                        raise ExtractError(f"{kind} of `{owner}` switches on unknown case `.{cur}`, line {t[2]}")
                    if cur in info["map"]:
                        raise ExtractError(f"{kind} of `{owner}` handles case `.{cur}` twice, line {t[2]}")
                    info["map"][cur] = []
                    if c.eat("("):
                        c.skip_balanced("(", ")")
                    c.expect(":")
                elif t[1] == "self" and t[0] == "id" and c.at("=") and kind == "init":
                    c.next()
                    c.expect(".")
                    v = bare(c.expect_id())
                    if cur is None:
                        raise ExtractError(f"init(from:) of `{owner}` assigns self outside a switch case, line {t[2]}")
                    if v not in case_names:
                        raise ExtractError(f"init(from:) of `{owner}` assigns unknown case `.{v}`, line {t[2]}")
                    if v not in info["map"][cur]:
                        info["map"][cur].append(v)
                elif t[1] == "forKey" and t[0] == "id":
                    raise ExtractError(f"{kind} of `{owner}` uses forKey: outside a container call, line {t[2]}")
                elif t[1] == "container" and t[0] == "id" and c.at(".") and c.kind(1) == "id" and c.text(2) == "(":
                    c.next()
                    meth = c.next()[1]
                    c.next()
                    if keyed_by is None:
                        raise ExtractError(f"{kind} of `{owner}` uses the container before creating it, line {t[2]}")
                    role = None
                    if meth in ("decode", "decodeIfPresent", "encode", "encodeIfPresent"):
                        if c.at("CodingKeys") and c.text(1) == ".":
                            role = "tag"
                            c.next()
                            c.next()
                            what = c.expect_id()
                            if kind == "init":
                                if what != "self":
                                    raise ExtractError(f"init(from:) of `{owner}` decodes `CodingKeys.{what}`, "
                                                       f"line {t[2]}")
                            else:
                                what = bare(what)
                                if what not in ck:
                                    raise ExtractError(f"encode(to:) of `{owner}` writes unknown `CodingKeys.{what}`, "
                                                       f"line {t[2]}")
                                if cur is None:
                                    raise ExtractError(f"encode(to:) of `{owner}` writes the tag outside a switch "
                                                       f"case, line {t[2]}")
                                info["map"][cur].append(what)
                        elif kind == "init":
                            role = "content"
                            ty = self.parse_type(stop_at_self=True)
                            c.expect(".")
                            c.expect("self")
                            if cur is None:
                                raise ExtractError(f"init(from:) of `{owner}` decodes a payload outside a switch "
                                                   f"case, line {t[2]}")
                            info["types"].setdefault(cur, ty)
                        else:
                            role = "content"
                            arg = c.next()
                            if arg[0] != "id" or arg[1] == "forKey":
                                raise ExtractError(f"encode(to:) of `{owner}` encodes `{arg[1]}`, line {arg[2]}")
                        c.expect(",")
                    elif meth == "decodeNil":
                        role = "content"
                    else:
                        raise ExtractError(f"{kind} of `{owner}` calls container.{meth}, which is not understood "
                                           f"(line {t[2]})")
                    c.expect("forKey")
                    c.expect(":")
                    c.expect(".")
                    key = bare(c.expect_id())
                    c.expect(")")
                    if key not in cont:
                        raise ExtractError(f"{kind} of `{owner}` uses forKey: .{key}, which is not a case of "
                                           f"ContainerCodingKeys (line {t[2]})")
                    info[role].append(cont[key])
        finally:
            c.i = save
        if not info["tag"]:
            raise ExtractError(f"{kind} of `{owner}` (line {fline}) never reads / writes the tag key")
        return info

    # ---- file --------------------------------------------------------------------------------------------------
    def parse_file(self):
        c = self.c
        obs = {"lang": "swift", "package": None, "imports": [], "helper_defs": [], "idents_used": [], "defs": []}
        used, in_import = set(), False
        for k, t, _ in self.toks:
            if k == "nl":
                in_import = False
            elif k == "id":
                if t == "import":
                    in_import = True
                elif not in_import:
                    used.add(bare(t))
        obs["idents_used"] = sorted(used)

        while not c.eof():
            t = c.peek()
            line = t[2]
            if c.at("import"):
                c.next()
                mod = c.expect_id()
                while c.at(".") and c.kind(1) == "id" and c.peek(1)[2] == line:
                    c.next()
                    mod += "." + c.next()[1]
                obs["imports"].append({"module": mod, "names": []})
                continue
            self.skip_access()
            indirect = c.eat("indirect")
            kw = c.next()
            if kw[0] != "id":
                raise ExtractError(f"unexpected `{kw[1]}` at top level, line {kw[2]}")
            if indirect and kw[1] != "enum":
                raise ExtractError(f"`indirect` before `{kw[1]}` at line {kw[2]}")
            if kw[1] == "typealias":
                name, _ = self.decl_id("typealias")
                g, cons = self.generics()
                c.expect("=")
                target = self.parse_type()
                obs["defs"].append({"name": name, "kind": "alias", "generics": g, "line": line, "target": target,
                                    "generic_constraints": cons})
            elif kw[1] == "struct":
                d = self.parse_struct(line)
                if d["name"] in HELPERS:
                    if d["members"]:
                        raise ExtractError(f"helper struct `{d['name']}` has stored properties, line {line}")
                    obs["helper_defs"].append(d["name"])
                    obs.setdefault("helper_inherits", {})[d["name"]] = d.get("inherits", [])
                else:
                    obs["defs"].append(d)
            elif kw[1] == "enum":
                obs["defs"].append(self.parse_enum(line, indirect))
            elif kw[1] in ("let", "var"):
                name, _ = self.decl_id("constant")
                c.expect(":")
                ty = self.parse_type()
                c.expect("=")
                neg = c.eat("-")
                v = c.next()
                if v[0] not in ("str", "num", "id"):
                    raise ExtractError(f"constant `{name}` has a value that is not a literal, line {v[2]}")
                obs["defs"].append({"name": name, "kind": "const", "generics": [], "line": line, "ty": ty,
                                    "value": ("-" if neg else "") + v[1]})
            else:
                raise ExtractError(f"unknown top-level declaration `{kw[1]}` at line {kw[2]}")
        return obs


def extract(text, strict_keywords=True):
    """strict_keywords: raise when a reserved word is declared / used as a type name without back-ticks
    (a Swift compiler rejects such a file); pass False to get the facts anyway."""
    return P(text, strict_keywords).parse_file()
