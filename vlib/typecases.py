"""Shared by C04/C05: Rust type trees (spec vocabulary) -> source, run in 6 languages, events for Trace_C04/C05."""
from . import common, observe
from .common import ToolError

PRIM_TEXT = {"unit": "()", "str": "&'static str", "DateTime": "OffsetDateTime", "Ovr": "String", "Sas": "Opaque"}
# leaf "Sas": a member of the opaque Rust type Opaque, generated through typeshare(serialized_as = "<the same shape over String>") (MC_C04!TOf)
# leaf "Ovr": a String member that carries a type override for every language (MC_C04!TOf)
OVERRIDE = ('#[typeshare(swift(type = "Int"), typescript(type = "bigint"), kotlin(type = "Int"), go(type = "uint"), '
            'scala(type = "Short"), python(type = "int"))]')


def sas_attr(tree):
    """the serialized_as attribute of a tree with the Sas leaf: the same shape with String in its place"""
    def swap(t):
        if t.get("k") == "prim" and t.get("n") == "Sas":
            return {"k": "prim", "n": "String"}
        out = dict(t)
        for c in ("e", "key", "val"):
            if c in out:
                out[c] = swap(out[c])
        if "args" in out:
            out["args"] = [swap(a) for a in out["args"]]
        return out
    return f'#[typeshare(serialized_as = "{rust_text(swap(tree))}")]'


def mentions_sas(t):
    if t.get("k") == "prim" and t.get("n") == "Sas":
        return True
    return any(mentions_sas(x) for x in ([t[c] for c in ("e", "key", "val") if c in t] + list(t.get("args", []))))


def mentions_ovr(t):
    """the member carries an attribute of its own (type override / serialized_as): only fields can"""
    if t.get("k") == "prim" and t.get("n") in ("Ovr", "Sas"):
        return True
    return any(mentions_ovr(x) for x in ([t[c] for c in ("e", "key", "val") if c in t] + list(t.get("args", []))))


def tree_key(t):
    """key of a type tree for twin look-ups (the override leaf is written `String` too)"""
    return rust_text(t) + ("#sas" if mentions_sas(t) else "#ovr" if mentions_ovr(t) else "")
QUAL = {"String": "std::string::String", "User": "crate::types::User", "Gen": "crate::types::Gen"}


def rust_text(t, qualify=False):
    k = t["k"]
    if k == "prim":
        n = t["n"]
        if qualify and n not in ("unit", "str", "String", "I54", "U53", "DateTime"):
            return f"core::primitive::{n}"
        if qualify and n == "String":
            return QUAL["String"]
        if qualify and n in ("I54", "U53"):
            return f"typeshare::{n}"
        return PRIM_TEXT.get(n, n)
    if k == "param":
        return t["n"]
    if k == "user":
        name = QUAL.get(t["n"], t["n"]) if qualify else t["n"]
        return name + (f"<{', '.join(rust_text(a) for a in t['args'])}>" if t.get("args") else "")
    if k == "vec":
        return ("std::vec::Vec" if qualify else "Vec") + f"<{rust_text(t['e'])}>"
    if k == "option":
        return ("std::option::Option" if qualify else "Option") + f"<{rust_text(t['e'])}>"
    if k == "map":
        return ("std::collections::HashMap" if qualify else "HashMap") + f"<{rust_text(t['key'])}, {rust_text(t['val'])}>"
    if k == "map3":
        return ("std::collections::HashMap" if qualify else "HashMap") + f"<{rust_text(t['key'])}, {rust_text(t['val'])}, RandomState>"
    if k == "array":
        return f"[{rust_text(t['e'])}; {t.get('len', 3)}]"
    if k == "slice":
        return f"&'static [{rust_text(t['e'])}]"
    if k == "ref":
        return f"&'static {rust_text(t['e'])}"
    if k == "path":
        return rust_text(t["e"], qualify=True)
    if k == "wrap":
        w = t["w"]
        inner = rust_text(t["e"])
        path = {"Box": "Box", "Arc": "std::sync::Arc", "Rc": "Rc", "Cow": "Cow", "Cell": "Cell", "RefCell": "std::cell::RefCell",
                "Mutex": "Mutex", "RwLock": "RwLock", "Weak": "Weak", "ArcWeak": "ArcWeak", "RcWeak": "RcWeak"}[w]
        return f"{path}<'static, {inner}>" if w == "Cow" else f"{path}<{inner}>"
    raise ValueError(t)


def mentions_param(t):
    if t["k"] == "param":
        return True
    return any(mentions_param(x) for x in ([t[c] for c in ("e", "key", "val") if c in t] + list(t.get("args", []))))


SUPPORT = ("#[typeshare]\npub struct User { pub u: u32 }\n#[typeshare]\npub struct Gen<X> { pub g: X }\n"
           '#[typeshare]\n#[serde(rename = "RenDto")]\npub struct Ren { pub r: u32 }\n')
RENAMES = {"Ren": "RenDto"}


def sibling_of(x):
    """python mirror of MC_C05!Sib for trees that do not come from the builder (random trees); arrays of the sibling have another length"""
    k = x["k"]
    if k == "prim":
        return dict(x, n="u32" if x["n"] == "String" else "String")
    if k in ("vec", "array", "slice", "option", "ref", "path", "wrap"):
        return dict(x, e=sibling_of(x["e"]), **({"len": 5} if k == "array" else {}))
    if k in ("map", "map3"):
        return dict(x, val=sibling_of(x["val"]))
    if k == "user" and len(x.get("args", [])) == 1:
        return dict(x, args=[sibling_of(x["args"][0])])
    return x


def obs_lens(ty, acc=None):
    """the lengths an observed target type states (fixed-length sequences), in order"""
    acc = [] if acc is None else acc
    if isinstance(ty, dict):
        if ty.get("k") == "seq" and ty.get("n"):
            acc.append(ty["n"])
        for v in ty.values():
            if isinstance(v, dict):
                obs_lens(v, acc)
            elif isinstance(v, list):
                for x in v:
                    obs_lens(x, acc)
    return acc


def rust_lens(t, acc=None):
    acc = [] if acc is None else acc
    if isinstance(t, dict):
        if t.get("k") == "array":
            acc.append(t.get("len", 3))
        for v in t.values():
            if isinstance(v, dict):
                rust_lens(v, acc)
            elif isinstance(v, list):
                for x in v:
                    rust_lens(x, acc)
    return acc


def with_lengths(x):
    """the builder's sibling tree, arrays given the sibling's length"""
    if not isinstance(x, dict):
        return x
    y = {a: (with_lengths(b) if isinstance(b, dict) else [with_lengths(c) for c in b] if isinstance(b, list) else b) for a, b in x.items()}
    if y.get("k") == "array":
        y["len"] = 5
    return y


def source(tree, default_attr=None, positions=("field", "vfield", "payload", "alias"), sibling=None):
    if sibling is not None:
        # items that sort (and are generated) BEFORE the hosts of the same kind: AheadA < HostA (aliases), Ahead < Host (structs), AheadE < HostE
        g2 = "<T>" if mentions_param(sibling) else ""
        st = rust_text(sibling)
        # the tree itself with other array lengths only (same leaves): MC_C05!Sib2
        s2 = rust_text(with_lengths(tree))
        return (source(tree, default_attr, positions) + f"#[typeshare]\npub type AheadA{g2} = {st};\n#[typeshare]\npub struct Ahead{g2} {{\n    pub f: {st},\n    pub g: Vec<{st}>,\n    pub h: {s2},\n}}\n"
                f'#[typeshare]\n#[serde(tag = "t", content = "c")]\npub enum AheadE{g2} {{\n    Pay({st}),\n    Sv {{\n        f: {st},\n    }},\n}}\n')
    ty = rust_text(tree)
    g = "<T>" if mentions_param(tree) else ""
    fattrs = list(default_attr or []) + ([sas_attr(tree)] if mentions_sas(tree) else [OVERRIDE] if mentions_ovr(tree) else [])
    attr = "".join(f"    {a}\n" for a in fattrs)
    vattr = "".join(f"        {a}\n" for a in fattrs)
    if mentions_ovr(tree):
        positions = tuple(p for p in positions if p in ("field", "vfield"))      # only fields can carry an override
    out = SUPPORT
    if "field" in positions:
        out += f"#[typeshare]\npub struct Host{g} {{\n{attr}    pub f: {ty},\n    pub keep: u32,\n}}\n"
    if "vfield" in positions or "payload" in positions:
        out += f'#[typeshare]\n#[serde(tag = "t", content = "c")]\npub enum HostE{g} {{\n'
        if "payload" in positions:
            out += f"    Pay({ty}),\n"
        if "vfield" in positions:
            out += f"    Sv {{\n{vattr}        f: {ty},\n        keep: u32,\n    }},\n"
        out += "    Unit,\n}\n"
    if "alias" in positions:
        out += f"#[typeshare]\npub type HostA{g} = {ty};\n"
    return out


def strip_opt(ty, optional):
    return ty["e"] if optional and ty.get("k") == "opt" else ty


def observations(lang, obs, prefix, positions, cname="base"):
    """-> {pos: (optional|None, ty)} from one output file"""
    out = {}
    names = [prefix + "Host", "Host"]
    if "field" in positions:
        d = observe.find_def(obs, *names)
        if d and d.get("members"):
            m = [x for x in d["members"] if x["key"] == "f"]
            if m:
                out["field"] = (m[0]["optional"], m[0]["ty"])
    e = observe.find_def(obs, prefix + "HostE", "HostE")
    if e and e["kind"] == "union":
        if "payload" in positions:
            vs = [v for v in e["variants"] if v["wire"] == "Pay" and v.get("payload") == "newtype"]
            if not vs and lang == "typescript" and any(v["wire"] == "Pay" and v.get("payload") == "unit" for v in e["variants"]):
                out["payload"] = "ambiguous"      # `c?: undefined` is both "no payload" and "optional unit payload"
            if vs:
                opt = bool(vs[0].get("optional"))
                ty = vs[0]["ty"]
                if lang == "go" and ty.get("k") == "opt":
                    opt = True                      # a pointer payload is Go's optional idiom
                if lang == "go" and cname in ("lang_options", "go_noptr_mapped_container") and ty.get("k") == "seq":
                    out["payload"] = "ambiguous"    # no_pointer_slice: a slice payload is nil-able as it stands; no marker to observe
                    vs = []
                if lang == "python" and vs[0].get("nullable"):
                    opt = True                      # Optional[..] payload: nullable is the marker (payloads have no default)
                if lang != "typescript":
                    ty = strip_opt(ty, opt)
                if vs:
                    out["payload"] = (opt, ty)
        if "vfield" in positions:
            ms = observe.struct_variant_members(lang, obs, [prefix + "HostE", "HostE"], "Sv", "Sv")
            if ms:
                m = [x for x in ms if x["key"] == "f"]
                if m:
                    out["vfield"] = (m[0]["optional"], m[0]["ty"])
    if "alias" in positions:
        a = observe.find_def(obs, prefix + "HostA", "HostA")
        if a and a["kind"] == "alias":
            out["alias"] = (None, a["target"])
        elif a and lang == "go" and a["kind"] == "struct" and not a.get("members"):
            out["alias"] = (None, {"k": "prim", "n": "struct{}"})      # `type HostA struct{}` is the alias of the unit type
    return out


def aliases_of(obs):
    al = {}
    for n, t in (obs.get("helper_aliases") or {}).items():
        if isinstance(t, dict) and "n" in t:
            al[n] = t["n"]
    return al


CONFIGS = [
    ("base", "", {}, None),
    ("mapped", "", {"User": "MappedT"}, {l: {"type_mappings": {"User": "MappedT"}} for l in common.LANGS}),
    ("prefixed", "Pre", {}, {"swift": {"prefix": "Pre"}, "kotlin": {"prefix": "Pre"}}),
    ("prefixed_mapped", "Pre", {"User": "MappedT"}, {l: {"prefix": "Pre", "type_mappings": {"User": "MappedT"}} for l in ("swift", "kotlin")}),
    ("lang_options", "", {}, {"go": {"no_pointer_slice": True, "uppercase_acronyms": ["ID", "URL"]},
                             "swift": {"default_decorators": ["Sendable"], "default_generic_constraints": ["Sendable"], "codablevoid_constraints": ["Equatable"]},
                             }),
    ("mapped_container", "", {}, {l: {"type_mappings": {"Vec<u8>": n}} for l, n in (("typescript", "Uint8Array"), ("go", "Blob"), ("python", "bytes"))}),
    ("after_sibling", "", {}, None),
    # two file-only Go options at once: slices without pointer AND a container-instance mapping
    ("go_noptr_mapped_container", "", {}, {"go": {"no_pointer_slice": True, "type_mappings": {"Vec<u8>": "Blob"}}}),
]
VECU8 = {"typescript": "Uint8Array", "go": "Blob", "python": "bytes"}


def run_trees(chk, cases, configs=("base",), positions=("field", "vfield", "payload", "alias"), siblings=None):
    """cases: [(rust_tree, default_attr(list)|None, default_is_bare(bool))] -> (events, meta). siblings: rust_text(tree) -> MC_C05!Sib(tree)"""
    events, meta = [], []
    srcs0 = [source(t, da, positions) for t, da, _ in cases]
    for cname, prefix, mapping, cfgs in CONFIGS:
        if cname not in configs:
            continue
        srcs = srcs0
        if cname == "after_sibling":
            srcs = [source(t, da, positions, sibling=with_lengths((siblings or {}).get(rust_text(t))) or sibling_of(t)) if not mentions_ovr(t) else s0
                    for (t, da, _), s0 in zip(cases, srcs0)]
        langs = ["swift", "kotlin"] if cname.startswith("prefixed") else ["go", "swift"] if cname == "lang_options" else ["typescript", "go", "python"] if cname == "mapped_container" else ["go"] if cname == "go_noptr_mapped_container" else common.LANGS
        results = observe.generate(srcs, langs=langs, cfgs=cfgs)
        for ci, ((tree, da, bare), per, src) in enumerate(zip(cases, results, srcs)):
            for lang in langs:
                r = per[lang]
                if r["status"] in ("panic", "abort", "hang"):
                    chk.extra["skipped_panics"] = chk.extra.get("skipped_panics", 0) + 1
                    continue
                if r["status"] == "unreadable":
                    chk.extra.setdefault("unreadable_outputs", {}).setdefault(lang, 0)
                    chk.extra["unreadable_outputs"][lang] += 1
                    continue
                if r["status"] == "error":
                    if all(e["msg"].startswith("generate:") for e in r["errors"]):
                        chk.extra["refused_by_backend"] = chk.extra.get("refused_by_backend", 0) + 1
                        continue
                    chk.refused(f"{lang}/{cname}", f"{lang} ({cname}): type case `{rust_text(tree)}` rejected by the parser: {str(r['errors'])[:200]}", {"tree": tree, "lang": lang, "config": cname, "default_attr": da, "bare": bare, "pos": "field"})
                    continue
                pfx = prefix if lang in ("swift", "kotlin") else ""
                obs = observations(lang, r["obs"], pfx, positions, cname)
                al = aliases_of(r["obs"])
                for pos in (positions if not mentions_ovr(tree) else [x for x in positions if x in ("field", "vfield")]):
                    if obs.get(pos) == "ambiguous":
                        continue
                    if pos not in obs:
                        events.append(None)
                        meta.append((lang, cname, pos, tree, da, src, "position-missing", ci))
                        continue
                    opt, ty = obs[pos]
                    events.append({"lang": lang, "pos": pos, "rust": tree, "default": bool(bare) and pos in ("field", "vfield"),
                                   "optional": bool(opt), "ty": ty, "prefix": pfx, "mapping": mapping, "aliases": al,
                                   "vecu8": VECU8[lang] if cname in ("mapped_container", "go_noptr_mapped_container") else "",
                                   "noptr": cname in ("lang_options", "go_noptr_mapped_container") and lang == "go", "renames": RENAMES,
                                   "fixed_lens": obs_lens(ty), "rust_lens": rust_lens(tree)})
                    meta.append((lang, cname, pos, tree, da, src, None, ci))
    return events, meta


# ---- naming of a rejected event (the verdict is TLC's; this mirror only locates the first difference for the signature)
def abs_tree(t):
    k = t["k"]
    if k in ("ref", "path", "wrap"):
        return abs_tree(t["e"])
    if k in ("vec", "array", "slice"):
        return {"k": "seq", "e": abs_tree(t["e"])}
    if k == "option":
        return {"k": "opt", "e": abs_tree(t["e"])}
    if k in ("map", "map3"):
        return {"k": "map", "key": abs_tree(t["key"]), "val": abs_tree(t["val"])}
    if k == "user":
        return {"k": "user", "n": t["n"], "args": [abs_tree(a) for a in t.get("args", [])]}
    return t


def collapse(a):
    k = a.get("k")
    if k in ("opt", "undef"):
        inner = collapse(a["e"])
        return inner if inner.get("k") == "opt" else {"k": "opt", "e": inner}
    if k == "seq":
        return dict(a, e=collapse(a["e"]))
    if k == "map":
        return dict(a, key=collapse(a["key"]), val=collapse(a["val"]))
    if k == "user":
        return dict(a, args=[collapse(x) for x in a.get("args", [])])
    return a


def slice_opt(a):
    """mirror of TypeExpr!SliceOpt (Go no_pointer_slice: an Option directly around a sequence is the slice itself)"""
    k = a.get("k")
    if k in ("opt", "undef"):
        x = slice_opt(a["e"])
        return x if x.get("k") in ("seq", "mapped") else {"k": "opt", "e": x}
    if k == "seq":
        return dict(a, e=slice_opt(a["e"]))
    if k == "map":
        return dict(a, key=slice_opt(a["key"]), val=slice_opt(a["val"]))
    if k == "user":
        return dict(a, args=[slice_opt(x) for x in a.get("args", [])])
    return a


def rust_path(t):
    """constructor path of the Rust expression, by class"""
    k = t["k"]
    if k in ("prim", "param"):
        return k + ":" + t["n"] if k == "prim" else "param"
    if k == "user":
        return "user" + ("<" + ",".join(rust_path(a) for a in t["args"]) + ">" if t.get("args") else "")
    if k in ("map", "map3"):
        return f"map<{rust_path(t['key'])},{rust_path(t['val'])}>"
    if k == "wrap":
        return f"ptr>{rust_path(t['e'])}"
    return f"{k}>{rust_path(t['e'])}"


def locate(a, o, mapping, path=""):
    """first structural difference between abstract tree a and observed o -> (abstract path, kind)"""
    if a["k"] in ("user", "prim") and a.get("n") in mapping:
        return (path + "mapped", "mapping-ignored") if o.get("n") != mapping[a["n"]] else None
    if a["k"] == "seq":
        if o.get("k") != "seq":
            return (path + "seq", f"shape:{o.get('k')}")
        return locate(a["e"], o["e"], mapping, path + "seq>")
    if a["k"] == "opt":
        if o.get("k") not in ("opt", "undef"):
            return (path + "opt", f"option-lost:{o.get('k')}")
        return locate(a["e"], o["e"], mapping, path + "opt>")
    if a["k"] == "map":
        if o.get("k") != "map":
            return (path + "map", f"shape:{o.get('k')}")
        return locate(a["key"], o["key"], mapping, path + "mapkey>") or locate(a["val"], o["val"], mapping, path + "mapval>")
    if a["k"] == "param":
        return None if o.get("k") == "user" and o.get("n") == a["n"] and not o.get("args") else (path + "param", f"name:{o.get('n')}")
    if a["k"] == "user":
        if o.get("k") != "user":
            return (path + "user", f"shape:{o.get('k')}")
        if len(o.get("args", [])) != len(a["args"]):
            return (path + "user", "generic-args-dropped" if not o.get("args") else "generic-args")
        for x, y in zip(a["args"], o["args"]):
            r = locate(x, y, mapping, path + "garg>")
            if r:
                return r
        return None      # a name difference (prefix) is left to TLC's verdict: kind "name"
    return None      # primitives are judged by TypeExpr!Holds; the caller lists the leaf pairs
