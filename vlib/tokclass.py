"""Layer B for C10: generated text -> token classes for the executable grammars (spec/Grammar_*.tla)."""
from .extract import base

RESERVED = {
    "typescript": set("import export interface enum const null class function return if else for while new typeof instanceof in of var let extends implements void delete this super switch case default break continue throw try catch finally true false with yield async await static public private protected package".split()),
    "kotlin": set("package import class interface fun val var object typealias null true false is in as return if else when for while do try throw this super typeof break continue".split()),
    "swift": set("import struct enum class protocol extension func var let case init self Self static public private internal fileprivate open throws rethrows try catch throw if else switch default return for while repeat in is as nil true false where guard defer do break continue fallthrough typealias associatedtype subscript inout operator deinit super Any".split()),
    "scala": set("package import object class trait case def val var type extends with sealed abstract final override private protected implicit lazy new null true false if else match for while do yield return try catch finally throw this super forSome".split()),
    "go": set("package import type struct interface func var const map chan if else switch case default return for range go defer select break continue fallthrough goto".split()),
}
SOFT = {
    "typescript": set("type readonly from undefined unknown any string number boolean key value".split()),
    "kotlin": set("data sealed enum value const open annotation override private inline".split()),
    "swift": set("indirect get set mutating some any".split()),
    "scala": set("".split()),
    "go": set("string int bool error nil true false any".split()),
}
EXT = {"typescript": "ts", "kotlin": "kt", "swift": "swift", "scala": "scala", "go": "go", "python": "py"}


def classes(lang, text, keep_nl=False):
    """-> list of token classes; raises base.LexError when a string or comment is not closed"""
    out = []
    for kind, t, _ in base.lex(text, EXT[lang]):
        if kind == "comment":
            continue
        if kind == "nl":
            if keep_nl and (not out or out[-1] != "nl"):
                out.append("nl")
            continue
        if kind == "id":
            if t.startswith("`"):
                out.append("id")
            elif t in RESERVED[lang]:
                out.append("kw:" + t)
            elif t in SOFT[lang]:
                out.append("sw:" + t)
            else:
                out.append("id")
        elif kind in ("num", "str", "str3"):
            out.append("num" if kind == "num" else "str")
        else:
            out.append(t)
    return out
