"""Shared machinery: builds, TLC runs, REPLAY parsing, trace validation, driver batches,
known findings, replay files, evidence. Nothing here knows a property."""
import fcntl
import hashlib
import json
import os
import random
import re
import shutil
import subprocess
import sys
import time

ROOT = os.path.dirname(os.path.dirname(os.path.abspath(__file__)))
SPEC = os.path.join(ROOT, "spec")
REPO = os.environ.get("VERIF_REPO", "/repo")
TARGET = os.path.join(ROOT, "target")
DRIVER = os.path.join(TARGET, "harness", "debug", "verif-driver")
CLI = os.path.join(TARGET, "cli", "debug", "typeshare")
LANGS = ["typescript", "kotlin", "swift", "scala", "go", "python"]
EXT = {"typescript": "ts", "kotlin": "kt", "swift": "swift", "scala": "scala", "go": "go", "python": "py"}
NCPU = os.cpu_count() or 4


class ToolError(Exception):
    pass


def log(*a):
    print(*a, file=sys.stderr, flush=True)


# ----------------------------------------------------------------------------- builds

def _locked(name):
    os.makedirs(TARGET, exist_ok=True)
    f = open(os.path.join(TARGET, name + ".lock"), "w")
    fcntl.flock(f, fcntl.LOCK_EX)
    return f


def _cargo_env():
    env = dict(os.environ)
    env["CARGO_NET_OFFLINE"] = "true"
    env.pop("RUSTFLAGS", None)
    return env


def build_driver():
    """(Re)build the harness driver against /repo's current working tree (hooks on)."""
    lock = _locked("driver")
    try:
        t = time.time()
        r = subprocess.run(["cargo", "build", "--offline", "-q"], cwd=os.path.join(ROOT, "harness"),
                           env=_cargo_env(), capture_output=True, text=True)
        if r.returncode != 0:
            raise ToolError("driver build failed:\n" + r.stderr[-4000:])
        log(f"[build] driver {time.time()-t:.1f}s")
    finally:
        lock.close()


def build_cli():
    """(Re)build the real typeshare binary from /repo's working tree with --cfg typeshare_verif."""
    lock = _locked("cli")
    try:
        t = time.time()
        env = _cargo_env()
        env["RUSTFLAGS"] = "--cfg typeshare_verif --check-cfg cfg(typeshare_verif)"
        r = subprocess.run(["cargo", "build", "--offline", "-q", "-p", "typeshare-cli", "--features", "go,python",
                            "--target-dir", os.path.join(TARGET, "cli")], cwd=REPO, env=env,
                           capture_output=True, text=True)
        if r.returncode != 0:
            raise ToolError("cli build failed:\n" + r.stderr[-4000:])
        log(f"[build] cli {time.time()-t:.1f}s")
    finally:
        lock.close()


# ----------------------------------------------------------------------------- driver

def _run_driver_once(mode, jobs, threads, job_timeout=None):
    env = dict(os.environ)
    env["VERIF_DRIVER_THREADS"] = str(threads)
    env["RUST_BACKTRACE"] = "0"
    if job_timeout:
        env["VERIF_DRIVER_JOB_TIMEOUT"] = str(job_timeout)
    env.pop("RUST_LOG", None)
    data = "\n".join(json.dumps(j) for j in jobs) + "\n"
    r = subprocess.run([DRIVER, mode], input=data, capture_output=True, text=True, env=env)
    if r.returncode != 0:
        return None, r
    out = [json.loads(l) for l in r.stdout.splitlines() if l.strip()]
    if len(out) != len(jobs):
        raise ToolError(f"driver returned {len(out)} results for {len(jobs)} jobs")
    return out, r


def run_driver(mode, jobs, threads=None, job_timeout=None):
    """Run a batch through the real library code. Returns results in job order. A job that kills the driver process
    (stack overflow, abort) is isolated by bisection and reported as status "abort"; a job that does not finish within
    job_timeout seconds (VERIF_DRIVER_JOB_TIMEOUT, default 20; jobs take milliseconds) is reported as status "hang"."""
    if not jobs:
        return []
    out, r = _run_driver_once(mode, jobs, threads or min(NCPU, 16), job_timeout)
    if out is not None:
        return out
    hung_idx = {int(x) for x in re.findall(r"^HANG (\d+)$", r.stderr or "", re.M)}
    if r.returncode == 3 and hung_idx:
        # the driver's watchdog fired: keep the results it printed, mark the stuck jobs, re-run what is left
        limit = job_timeout or os.environ.get("VERIF_DRIVER_JOB_TIMEOUT", "20")
        have = {}
        for l in r.stdout.splitlines():
            if l.startswith('{"_k":'):
                d = json.loads(l)
                have[d["_k"]] = d["r"]
        rest_k = [k for k in range(len(jobs)) if k not in have and k not in hung_idx]
        rest_out = dict(zip(rest_k, run_driver(mode, [jobs[k] for k in rest_k], threads, job_timeout)))
        return [{"id": jobs[k].get("id"), "status": "hang", "panic": f"no result after {limit} s"} if k in hung_idx
                else have[k] if k in have else rest_out[k] for k in range(len(jobs))]
    if r.returncode > 0 and r.returncode != 134:
        raise ToolError(f"driver {mode} exited {r.returncode}: {r.stderr[-2000:]}")
    if len(jobs) == 1:
        return [{"id": jobs[0].get("id"), "status": "abort", "panic": f"process killed (rc={r.returncode}): {r.stderr[-300:].strip()}"}]
    mid = len(jobs) // 2
    return run_driver(mode, jobs[:mid], threads, job_timeout) + run_driver(mode, jobs[mid:], threads, job_timeout)


# ----------------------------------------------------------------------------- TLC

class TlcResult:
    def __init__(self):
        self.states = 0
        self.distinct = 0
        self.replays = []
        self.infos = []
        self.out = ""
        self.ok = False
        self.violation = None
        self.coverage = {}
        self.wall = 0.0
        self.depth = 0


_UNESC = re.compile(r'\\(.)')


def _unescape_tla(s):
    return _UNESC.sub(lambda m: {"n": "\n", "t": "\t", "r": "\r", "f": "\f"}.get(m.group(1), m.group(1)), s)


def run_tlc(module, cfg=None, workers=4, timeout=600, simulate=None, depth=None, seed=None, env_extra=None,
            work=None, coverage=False, java_opts="-Xss512m", heap="4g", deadlock=False, extra=None, allow_violation=False):
    """Run TLC on spec/<module>.tla. Lines printed as <<"REPLAY", "<json>">> are collected."""
    work = work or scratch("tlc")
    meta = os.path.join(work, f"meta_{module}_{os.getpid()}_{random.randrange(1<<30)}")
    cmd = ["java", "-XX:+UseParallelGC", f"-Xmx{heap}"] + java_opts.split() + [
        "-cp", "/opt/veriftools/tla/tla2tools.jar:/opt/veriftools/tla/CommunityModules-deps.jar", "tlc2.TLC",
        "-workers", str(workers), "-metadir", meta, "-cleanup", "-noGenerateSpecTE",
        "-config", (cfg or module) + ".cfg"]
    if deadlock:
        cmd.append("-deadlock")
    if coverage:
        cmd += ["-coverage", "1"]
    if simulate:
        cmd += ["-simulate", f"num={simulate}"]
        if depth:
            cmd += ["-depth", str(depth)]
    if seed is not None:
        cmd += ["-seed", str(seed)]
    if extra:
        cmd += extra
    cmd.append(module + ".tla")
    env = dict(os.environ)
    if env_extra:
        env.update(env_extra)
    t = time.time()
    try:
        r = subprocess.run(["timeout", str(timeout)] + cmd, cwd=SPEC, capture_output=True, text=True, env=env)
    finally:
        shutil.rmtree(meta, ignore_errors=True)
    res = TlcResult()
    res.wall = time.time() - t
    res.out = r.stdout + r.stderr
    if r.returncode == 124:
        raise ToolError(f"TLC timeout after {timeout}s on {module}")
    for line in r.stdout.splitlines():
        if line.startswith('<<"REPLAY", "') and line.endswith('">>'):
            res.replays.append(json.loads(_unescape_tla(line[len('<<"REPLAY", "'):-3])))
        elif line.startswith('<<"INFO", '):
            res.infos.append(line)
        else:
            m = re.match(r"(\d+) states generated, (\d+) distinct states found", line)
            if m:
                res.states, res.distinct = int(m.group(1)), int(m.group(2))
            m = re.match(r"The depth of the complete state graph search is (\d+)", line)
            if m:
                res.depth = int(m.group(1))
            m = re.match(r"<(\w+) line \d+, col \d+ to line \d+, col \d+ of module (\w+)>: (\d+):(\d+)", line)
            if m:
                res.coverage[m.group(2) + "!" + m.group(1)] = (int(m.group(3)), int(m.group(4)))
    if simulate and res.states == 0:
        m = re.search(r"(\d+) states checked", res.out)
        if m:
            res.states = res.distinct = int(m.group(1))
    viol = re.search(r"Error: (Invariant (\w+) is violated|Temporal propert(?:y \w+ was|ies were) violated|Deadlock reached"
                     r"|Action property (\w+) is violated|The postcondition [^\n]*)", res.out)
    if viol:
        res.violation = viol.group(1)
    res.ok = (r.returncode == 0) and not viol
    if not res.ok and not (allow_violation and viol):
        if not viol:
            raise ToolError(f"TLC failed on {module} (rc={r.returncode}):\n{res.out[-3000:]}")
    return res


def tlc_counterexample(out):
    """Parse the states of a TLC error trace into a list of {var: text} dicts (text is TLA+ syntax)."""
    states = []
    cur = None
    for line in out.splitlines():
        m = re.match(r"State (\d+): (.*)", line)
        if m:
            cur = {"_n": int(m.group(1)), "_action": m.group(2)}
            states.append(cur)
            continue
        m = re.match(r"/\\ (\w+) = (.*)", line)
        if m and cur is not None:
            cur[m.group(1)] = m.group(2)
            cur["_last"] = m.group(1)
        elif cur is not None and line.strip() and "_last" in cur and not line.startswith("Error") \
                and not re.match(r"\d+ states", line):
            cur[cur["_last"]] += " " + line.strip()
    for s in states:
        s.pop("_last", None)
    return states


def trace_validate(module, records, cfg=None, timeout=600, work=None, heap="4g", env_extra=None):
    """Impl -> spec: TLC checks that the recorded events are a behaviour of spec/<module>.tla.
    The module reads IOEnv.TRACE with ndJsonDeserialize and has POSTCONDITION TraceAccepted that
    prints <<"INFO","matched",n>> (longest matched prefix). Returns (accepted, matched, result)."""
    work = work or scratch("trace")
    path = os.path.join(work, f"trace_{module}_{os.getpid()}_{random.randrange(1<<30)}.ndjson")
    with open(path, "w") as f:
        for r in records:
            f.write(json.dumps(r) + "\n")
    env = {"TRACE": path}
    if env_extra:
        env.update(env_extra)
    try:
        res = run_tlc(module, cfg=cfg, workers=1, timeout=timeout, env_extra=env, work=work, heap=heap,
                      java_opts="-Xss1g -Dtlc2.tool.queue.IStateQueue=StateDeque", allow_violation=True)
    except ToolError as e:
        # a behaviour spec whose initial condition no logged fact satisfies (e.g. one file logged with two contradictory parse
        # results) has no initial state: TLC stops before the register is set. The trace is rejected at its first event.
        if "TLCGet(7) was undefined" in str(e) and "0 states generated" in str(e):
            res = TlcResult()
            res.out = str(e)
            res.bad = []
            os.unlink(path)
            return False, 0, res
        raise
    matched = None
    bad = []
    seen_bad = False
    # TLC wraps long tuples over several lines: search the whole output
    m = re.search(r'<<\s*"INFO",\s*"matched",\s*(\d+)\s*>>', res.out)
    if m:
        matched = int(m.group(1))
    m = re.search(r'<<\s*"INFO",\s*"bad",\s*"(\[[^"]*\])"\s*>>', res.out)
    if m:
        bad = [int(x) for x in re.findall(r"\d+", m.group(1))]
        seen_bad = True
    if matched is None:
        raise ToolError(f"trace validation of {module} printed no match count:\n{res.out[-3000:]}")
    os.unlink(path)
    if matched == len(records) and not seen_bad and records:
        raise ToolError(f"trace validation of {module} consumed the trace but printed no verdict list")
    res.bad = bad
    return (res.ok and matched == len(records) and not bad), matched, res


# ----------------------------------------------------------------------------- scratch

_SCRATCH = []


def scratch(tag="w"):
    d = os.path.join(ROOT, "work", f"{tag}.{os.getpid()}.{len(_SCRATCH)}")
    os.makedirs(d, exist_ok=True)
    _SCRATCH.append(d)
    return d


def cleanup():
    for d in _SCRATCH:
        shutil.rmtree(d, ignore_errors=True)
    try:
        os.rmdir(os.path.join(ROOT, "work"))
    except OSError:
        pass


# ----------------------------------------------------------------------------- check bookkeeping

def load_known():
    path = os.path.join(ROOT, "known_findings.jsonl")
    out = {}
    if os.path.exists(path):
        for line in open(path):
            line = line.strip()
            if line and not line.startswith("#"):
                e = json.loads(line)
                out[(e["property"], e["signature"])] = e
    return out


class Check:
    """Accumulates what one run of one property's check covered and found."""

    def __init__(self, pid, tier, seed, level="model_checking"):
        self.pid = pid
        self.tier = tier
        self.seed = seed
        self.level = level
        self.t0 = time.time()
        self.states = 0
        self.transitions = 0
        self.traces = 0
        self.evaluations = 0
        self.distinct = set()
        self.samples = []
        self.rule = ""
        self.exhaustive = False
        self.assumptions = []
        self.extra = {}
        self.mismatches = {}      # signature -> first mismatch record
        self.mismatch_counts = {}
        self.drift = []
        self.known = load_known()
        self.tlc_runs = []
        self.rng = random.Random(seed)

    # -- TLC accounting
    def add_tlc(self, name, res):
        self.states += res.distinct
        self.transitions += res.states
        self.tlc_runs.append({"spec": name, "states_generated": res.states, "distinct": res.distinct,
                              "replay_cases": len(res.replays), "wall_s": round(res.wall, 1),
                              "depth": res.depth})
        log(f"[tlc] {name}: {res.states} generated, {res.distinct} distinct, {len(res.replays)} cases, {res.wall:.1f}s")

    def sample(self, s, cap=6):
        if len(self.samples) < cap:
            self.samples.append(s)

    def judged(self, key=None, n=1):
        self.evaluations += n
        if key is not None:
            self.distinct.add(key)

    # -- findings
    def mismatch(self, signature, what, case, expected, observed, extra=None):
        """A real observation that layer P does not allow."""
        self.mismatch_counts[signature] = self.mismatch_counts.get(signature, 0) + 1
        if signature not in self.mismatches:
            self.mismatches[signature] = {"property": self.pid, "signature": signature, "what": what, "case": case,
                                          "expected": expected, "observed": observed, "extra": extra or {}}

    def refused(self, where, what, case=None):
        """typeshare refuses (or fails on) an input of the property's own case space - an input the unchanged tree accepts and for
        which layer P states required facts. The facts cannot be observed: recorded as a mismatch (one signature per place)."""
        self.mismatch(f"{self.pid}/supported-input-refused/{where}", what, case or {}, "the facts layer P requires for this input", "run refused / failed")

    def model_drift(self, what):
        if len(self.drift) < 50:
            self.drift.append(what)

    def finish(self, replay_mode=False):
        viol = 0
        known_hit = []
        lines = []
        for sig in sorted(self.mismatches):
            m = self.mismatches[sig]
            k = self.known.get((self.pid, sig))
            if k and k.get("status") == "known" and not replay_mode:
                known_hit.append(sig)
                lines.append(f"KNOWN-FINDING: property={self.pid} {sig} :: {k.get('what', m['what'])} "
                             f"(x{self.mismatch_counts[sig]})")
                continue
            viol += 1
            d = os.path.join(ROOT, "replays", self.pid)
            os.makedirs(d, exist_ok=True)
            h = hashlib.sha1(sig.encode()).hexdigest()[:12]
            path = os.path.join(d, h + ".json")
            m["count"] = self.mismatch_counts[sig]
            m["how_to_rerun"] = f"cd {ROOT} && ./check {self.pid} --replay {path}"
            with open(path, "w") as f:
                json.dump(m, f, indent=1, sort_keys=True)
            lines.append(f"VIOLATION property={self.pid} replay={path}")
            log(f"  violation {sig}: {m['what']}")
        if not replay_mode:
            self.write_evidence(viol, known_hit)
        for l in lines:
            print(l, flush=True)
        if self.drift:
            log(f"[drift] {len(self.drift)} MODEL-DRIFT notes (not violations); first: {self.drift[0]}")
        log(f"[{self.pid}] {self.tier}: judged={self.evaluations} distinct={len(self.distinct)} states={self.states} "
            f"violations={viol} known={len(known_hit)} wall={time.time()-self.t0:.1f}s")
        return 1 if viol else 0

    def write_evidence(self, viol, known_hit):
        cov = {
            "states": max(self.states, 0),
            "transitions": max(self.transitions, 0),
            "traces_validated_against_impl": self.traces,
            "samples": self.samples or ["<none>"],
            "evaluations": self.evaluations,
            "distinct_nontrivial": len(self.distinct),
            "rule": self.rule,
            "exhaustive": self.exhaustive,
            "tlc_runs": self.tlc_runs,
            "known_findings_hit": known_hit,
            "model_drift": self.drift[:20],
            "mismatch_signatures": {k: v for k, v in sorted(self.mismatch_counts.items())[:200]},
        }
        cov.update(self.extra)
        ev = {"property_id": self.pid, "tier": self.tier, "seed": self.seed, "level": self.level, "coverage": cov,
              "assumptions": self.assumptions, "wall_s": round(time.time() - self.t0, 2), "violations": viol}
        os.makedirs(os.path.join(ROOT, "evidence"), exist_ok=True)
        tmp = os.path.join(ROOT, "evidence", self.pid + ".json.tmp")
        with open(tmp, "w") as f:
            json.dump(ev, f, indent=1, sort_keys=True)
        os.replace(tmp, os.path.join(ROOT, "evidence", self.pid + ".json"))


def chars(seq):
    """TLA+ identifiers are sequences of 1-character strings."""
    return "".join(seq)


def chunks(lst, n):
    for i in range(0, len(lst), n):
        yield lst[i:i + n]


def parallel_map(fn, items, procs=None):
    """Simple fork-based parallel map for CPU-bound python (extractors)."""
    import multiprocessing as mp
    procs = procs or min(NCPU, 16)
    if len(items) < 64 or procs == 1:
        return [fn(x) for x in items]
    with mp.get_context("fork").Pool(procs) as p:
        return p.map(fn, items, chunksize=max(1, len(items) // (procs * 4)))
