import argparse
import importlib
import json
import os
import sys
import traceback

from . import common


def main():
    ap = argparse.ArgumentParser()
    ap.add_argument("pid")
    ap.add_argument("--tier", default=os.environ.get("VERIF_TIER", "quick"), choices=["quick", "thorough"])
    ap.add_argument("--replay")
    ap.add_argument("--no-build", action="store_true")
    args = ap.parse_args()
    seed = int(os.environ.get("VERIF_SEED", "0") or 0)
    pid = args.pid.upper()
    try:
        mod = importlib.import_module(f"vlib.props.{pid.lower()}")
    except ModuleNotFoundError:
        print(f"unknown property {pid}", file=sys.stderr)
        return 2
    chk = common.Check(pid, args.tier, seed, level=getattr(mod, "LEVEL", "model_checking"))
    rc = 2
    try:
        if not args.no_build:
            for b in getattr(mod, "NEEDS", ["driver"]):
                {"driver": common.build_driver, "cli": common.build_cli}[b]()
        if args.replay:
            rec = json.load(open(args.replay))
            mod.replay(chk, rec)
            rc = chk.finish(replay_mode=True)
        else:
            mod.run(chk)
            rc = chk.finish()
    except common.ToolError as e:
        print(f"TOOL-ERROR {pid}: {e}", file=sys.stderr)
        rc = 2
    except Exception:
        traceback.print_exc()
        rc = 2
    finally:
        common.cleanup()
    return rc


if __name__ == "__main__":
    sys.exit(main())
