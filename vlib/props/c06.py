"""C06: output is a deterministic function of the inputs, not of scheduling or hashing.

P  = Pipeline!Deterministic / Trace_C06 (all runs of one class yield the same bytes)
M  = spec/DataPath.tla (fold in arrival order, stable sorts, consts) - TLC shows on Pipeline.tla that the model is
     deterministic without consts/ties and predicts which arrival permutations change today's output.
spec->impl: MC_C06 enumerates every tree over a menu of file templates x EVERY arrival permutation (3 files quick,
            4 files + 6-file trees thorough); each is forced on the real binary through the arrival-order hook.
impl->spec: free runs with 1..16 walker threads, repeated fresh processes (hash seeds) on trees with hash-order
            sites, and re-splits of the same items over files; every run is an event judged by Trace_C06.
"""
import hashlib
import itertools
import os

from .. import cli, common
from ..common import ToolError

NEEDS = ["cli"]
LANG_ARGS = {"typescript": [], "kotlin": ["--java-package", "com.x"], "swift": [], "scala": ["--scala-package", "com.x"],
             "go": ["--go-package", "p"], "python": []}


def items_of(t, i):
    """template -> list of (kind, source text) for file number i (1-based)"""
    s = ("struct", f"#[typeshare]\npub struct S{i} {{ pub a: u32 }}\n")
    c = ("const", f"#[typeshare]\npub const C{i}: u32 = {i};\n")
    return {
        "S": [s],
        "SEA": [s, ("enum", f"#[typeshare]\npub enum E{i} {{ A, B }}\n"), ("alias", f"#[typeshare]\npub type A{i} = String;\n")],
        "C": [c],
        "SC": [s, c],
        "Conly": [c],
        "TieS": [("struct", f"#[typeshare]\npub struct Same {{ pub from{i}: u32 }}\n")],
        "TieE": [("enum", f"#[typeshare]\npub enum Same {{ V{i} }}\n")],
        "Ref": [("struct", f"#[typeshare]\npub struct R{i} {{ pub r: M1 }}\n")],
        "Ren": [("struct", f'#[typeshare]\n#[serde(rename = "Aa{i}")]\npub struct Zz{i} {{ pub a: u32 }}\n')],
        "Bad": [],
    }[t]


def render_tree(tree, mode):
    files = {}
    for i, t in enumerate(tree, 1):
        crate = f"c{i % 2}" if mode == "multi" else f"d{i}"
        marker = "" if t == "Conly" else f"#[typeshare]\npub struct M{i} {{ pub m: u32 }}\n"       # Conly: a module of nothing but constants
        if t == "Bad":          # not UTF-8: reading it fails before anything is parsed
            files[f"{crate}/src/f{i}.rs"] = b"// caf\xe9 \xff\xfe\n#[typeshare]\npub struct Unread { pub a: u32 }\n"
            continue
        body = marker + "".join(x[1] for x in items_of(t, i))
        if mode == "multi" and t == "Ref":
            body = f"use c1::M1;\n" + body
        files[f"{crate}/src/f{i}.rs"] = body
    return files


def ws_files(c):
    """MC_C06_ws case -> workspace: providers p1..pn each define `Dup`, the consumer uses it in the given form"""
    n = c["providers"]
    files = {}
    for i in range(1, n + 1):
        ren = f'#[serde(rename = "Dup{i}Renamed")]\n' if c["renames"] == "all" or (c["renames"] == "one" and i == 1) else ""
        files[f"p{i}/src/lib.rs"] = f"#[typeshare]\n{ren}pub struct Dup {{ pub in_p{i}: u32 }}\n#[typeshare]\npub struct Only{i} {{ pub o: u32 }}\n"
    if c["form"] == "distinct_needs":
        # no ambiguity at all: crates whose modules need different helpers / imports (Option, Vec, HashMap, a generic, the unit type,
        # a date): whatever a backend keeps across the modules of one run, the bytes of each module are the same in every process
        shapes = ["pub a: Option<u32>", "pub a: Vec<String>", "pub a: HashMap<String, u32>", "pub a: (), pub b: u8", "pub a: OffsetDateTime"]
        files = {f"p{i}/src/lib.rs": f"#[typeshare]\npub struct Only{i} {{ {shapes[(i - 1) % len(shapes)]} }}\n" for i in range(1, n + 3)}
        files["g/src/lib.rs"] = "#[typeshare]\npub struct G<T> { pub t: T }\n"
        return files
    use, ty = {"use_unknown": ("use zzz::Dup;\n", "Dup"), "use_facade": ("use facade::Dup;\n", "Dup"), "bare": ("", "Dup"),
               "glob_all": ("".join(f"use p{i}::*;\n" for i in range(1, n + 1)), "Dup"), "qualified_unknown": ("", "zzz::Dup"),
               "use_first": ("use p1::Dup;\n", "Dup"), "use_last": (f"use p{n}::Dup;\n", "Dup"), "qualified_last": ("", f"p{n}::Dup"),
               # the ambiguous name through a facade, next to an ORDINARY import from a provider that is not the alphabetically first
               "use_facade_plus": (f"use facade::Dup;\nuse p{n}::Only{n};\n", "Dup")}[c["form"]]
    if c["form"] in ("use_facade", "use_facade_plus"):
        files["facade/src/lib.rs"] = "pub use p1::Dup;\n#[typeshare]\npub struct FacadeOwn { pub f: u32 }\n"
    extra = f", pub o: Only{n}" if c["form"] == "use_facade_plus" else ""
    files["app/src/lib.rs"] = (use + f"#[typeshare]\npub struct UsesDup {{ pub d: {ty}, pub list: Vec<{ty}>, pub m: Option<{ty}>{extra} }}\n"
                               f'#[typeshare]\n#[serde(tag = "t", content = "c")]\npub enum EDup {{ A({ty}), B {{ x: {ty} }} }}\n')
    return files


def out_sha(outdir):
    h = hashlib.sha256()
    for rel, (sha, _) in sorted(cli.snapshot(outdir).items()):
        h.update(rel.encode() + b"\0" + sha.encode() + b"\n")
    return h.hexdigest()


def run_once(d, lang, mode, env, tag, roots=None, extra=None):
    out = os.path.join(d, f"out_{tag}")
    os.makedirs(out, exist_ok=True)
    args = ["-l", lang] + LANG_ARGS[lang] + list(extra or [])
    args += ["-o", os.path.join(out, "out." + common.EXT[lang])] if mode == "single" else ["-d", out]
    # roots: several DIRECTORIES arguments (every one of them is scanned), else the one source root
    args += [os.path.join(d, "src_root", r) for r in roots] if roots else [os.path.join(d, "src_root")]
    r = cli.run_cli(args, env=env, timeout=20)
    sha = out_sha(out) if r["exit"] == "ok" else None
    return r, sha, out


def has_tie(tree):
    return sum(1 for t in tree if t == "TieS") >= 2 or sum(1 for t in tree if t == "TieE") >= 2


def features(tree, ignore_tie=False):
    """what a tree can be blamed for. Two same-named definitions of one kind are a sufficient (and listed) cause of
    arrival dependence, so a tree that has them is attributed to that alone; the other features of such trees are judged
    in the sub-classes that keep the relative arrival order of the tied files fixed (ignore_tie)."""
    if has_tie(tree) and not ignore_tie:
        return "same-name-same-kind"
    if "Bad" in tree:
        return "unreadable-file"
    f = []
    if sum(1 for t in tree if t in ("C", "SC", "Conly")) >= 2:
        f.append("consts-in-several-files")
    return "+".join(f) if f else "other:" + ",".join(sorted(set(t for t in tree if not (ignore_tie and t.startswith("Tie")))))


def tie_order(tree, perm):
    """relative arrival order of the files that define the same name"""
    ties = [i + 1 for i, t in enumerate(tree) if t.startswith("Tie")]
    return "<".join(str(p) for p in perm if p in ties)


class Collector:
    def __init__(self):
        self.events, self.meta = [], []

    def add(self, cls, sha, meta):
        self.events.append({"class": cls, "sha": sha})
        self.meta.append(meta)


def judge(chk, col):
    if not col.events:
        return
    nbad = 0
    for part in common.chunks(list(range(len(col.events))), 50000):
        # keep whole classes together: chunks are cut at class boundaries by construction (events appended per class)
        ok, matched, tres = common.trace_validate("Trace_C06", [col.events[i] for i in part], timeout=900)
        chk.add_tlc("Trace_C06", tres)
        if matched != len(part):
            raise ToolError(f"Trace_C06 consumed {matched}/{len(part)}")
        for b in tres.bad:
            m = col.meta[part[b - 1]]
            nbad += 1
            chk.mismatch(f"C06/{m['mode']}/{m['dim']}/{m['features']}/bytes-differ",
                         f"{m['lang']} {m['mode']}: output differs within one class when only {m['dim']} varies ({m['detail']})",
                         m, "byte-identical output", "different bytes")
    chk.traces += len(col.events) - nbad
    for e, m in zip(col.events, col.meta):
        chk.judged((e["class"], m["dim"], m["detail"]))


def run(chk):
    thorough = chk.tier == "thorough"
    chk.rule = ("spec->impl: every tree of " + ("4" if thorough else "3") + " files over 7 file templates (struct / struct+enum+alias / const / "
                "struct+const / same-named struct / same-named enum / cross-file reference) x every arrival permutation" +
                (", plus 6-file trees x 720 permutations" if thorough else "") + ", forced through TYPESHARE_VERIF_ORDER, single and multi-file "
                "mode, languages rotated; impl->spec: free runs with 1..16 threads, fresh processes on hash-order trees, re-splits of the "
                "same items. distinct = (class, varied dimension, value).")
    chk.assumptions = ["a class = fixed items + configuration; classes are built by the harness so that only one dimension varies",
                       "hash seeds cannot be enumerated: fresh processes sample them on trees built to hit hash-iteration sites"]
    work = common.scratch("c06")
    # model level: the pipeline model is deterministic without consts/ties; with them TLC finds the leak
    # twice*: a file delivered twice (overlapping directory arguments): folding every delivery (the code) and a global seen-set are
    # deterministic; one seen-set per walker thread is not - TLC shows the schedule
    for cfg, must_hold in (("det_noconst", True), ("det_const", True), ("det_tie", False), ("twice", True), ("twice_global", True), ("twice_perworker", False)):
        res = common.run_tlc("MC_Pipeline", cfg=f"MC_Pipeline_{cfg}", workers=4, timeout=600, allow_violation=True)
        chk.add_tlc(f"MC_Pipeline[{cfg}]", res)
        chk.extra.setdefault("model_results", {})[cfg] = res.violation or "Deterministic holds for every schedule"
        if must_hold and res.violation:
            raise ToolError(f"the pipeline model is not deterministic in config {cfg}: {res.violation}")
        if not must_hold and not res.violation:
            raise ToolError(f"config {cfg} was expected to show a schedule-dependent outcome, TLC found none")
    res = common.run_tlc("MC_C06", cfg="MC_C06_thorough" if thorough else "MC_C06_quick", workers=4, timeout=900)
    chk.add_tlc("MC_C06", res)
    cases = res.replays
    if thorough:
        r6 = common.run_tlc("MC_C06", cfg="MC_C06_six", workers=4, timeout=900)
        chk.add_tlc("MC_C06[six]", r6)
        # 64 trees x 720 permutations is beyond the time box: keep 3 six-file trees with all their permutations
        keep = [["SEA"] * 6, ["SC", "SEA", "SC", "SEA", "SC", "SEA"], ["SC"] * 6]
        cases += [c for c in r6.replays if c["tree"] in keep]
    chk.exhaustive = True
    by_tree = {}
    for c in cases:
        by_tree.setdefault(tuple(c["tree"]), []).append(c)
    chk.sample({"tree": cases[0]["tree"], "perm": cases[0]["perm"], "model_predicts_same_output": cases[0]["predict_same"]})
    langs = common.LANGS
    col = Collector()
    import concurrent.futures as cf

    def do_tree(idx, tree, perms):
        lang = langs[idx % 6]
        if lang in ("kotlin", "swift", "scala") and any(t in ("C", "SC", "Conly") for t in tree):
            lang = "typescript"          # write_const is todo!() there (C07 known finding)
        mode = "multi" if idx % 3 == 2 else "single"
        d = os.path.join(work, f"t{idx}")
        cli.make_tree(os.path.join(d, "src_root"), render_tree(tree, mode))
        out = []
        for c in perms:
            order = ",".join((f"C{p}" if tree[p - 1] == "Conly" else "" if tree[p - 1] == "Bad" else f"M{p}") for p in c["perm"])
            r, sha, _ = run_once(d, lang, mode, {"TYPESHARE_VERIF_ORDER": order, "TYPESHARE_VERIF_THREADS": "2"}, "p" + "".join(map(str, c["perm"])))
            out.append((c, r, sha))
        return idx, tree, lang, mode, out

    drift = 0
    with cf.ThreadPoolExecutor(max_workers=12) as ex:
        futs = [ex.submit(do_tree, i, list(t), p) for i, (t, p) in enumerate(sorted(by_tree.items()))]
        results = [f.result() for f in futs]
    for idx, tree, lang, mode, out in results:
        shas = {}
        for c, r, sha in out:
            if r["exit"] == "error" and "constants are not supported" in r["stderr"]:
                sha = "refused:constants"          # a documented refusal (Kotlin/Swift/Scala); it must be the same outcome under every arrival order
            elif "Bad" in tree and r["exit"] in ("ok", "error"):
                sha = sha if r["exit"] == "ok" else "refused:unreadable-input"      # whichever it is, it is the same under every arrival order
            elif r["exit"] != "ok":
                sha = "failed:" + r["exit"]        # a supported tree: the failure is an outcome like any other, and must not vary either
                chk.refused(f"{mode}/tree", f"{lang} {mode}: typeshare failed on tree {tree}: {r['stderr'][-200:].strip()}", {"tree": tree, "mode": mode, "lang": lang, "dim": "arrival-order", "perm": c["perm"]})
            col.add(f"tree{idx}", sha, {"mode": mode, "dim": "arrival-order", "features": features(tree), "lang": lang,
                                        "detail": f"tree {tree} arrival {c['perm']}", "tree": tree, "perm": c["perm"]})
            if has_tie(tree):      # with the tied files arriving in the same relative order nothing else may move either
                col.add(f"tree{idx}/ties:{tie_order(tree, c['perm'])}", sha,
                        {"mode": mode, "dim": "arrival-order", "features": features(tree, ignore_tie=True) + "(tie-order-fixed)", "lang": lang,
                         "detail": f"tree {tree} arrival {c['perm']}", "tree": tree, "perm": c["perm"]})
            shas.setdefault(sha, []).append(c)
        ident = [sha for sha, cs in shas.items() if any(c["perm"] == sorted(c["perm"]) for c in cs)]
        for c, r, sha in out:
            if mode == "single" and "Bad" not in tree and lang in ("typescript", "go", "python") and ident and (sha == ident[0]) != c["predict_same"]:
                drift += 1
                chk.model_drift(f"DataPath predicts same={c['predict_same']} for tree {tree} arrival {c['perm']}, real output same={sha == ident[0]}")
    chk.extra["model_drift_count"] = drift

    # impl -> spec: thread counts, fresh processes, re-splits
    rng = chk.rng
    trees = [t for t in by_tree if not any(x in ("TieS", "TieE", "Bad") for x in t)]
    bad_trees = [t for t in by_tree if "Bad" in t and not any(x in ("TieS", "TieE") for x in t)]
    # a tree with an unreadable file, many times over and with 1..16 walker threads: one outcome (incl. which files made it out)
    for k, tree in enumerate(rng.sample(sorted(bad_trees), min(len(bad_trees), 6 if thorough else 3))):
        lang = "typescript"
        big = [t for t in tree if t != "Bad"] * 12 + ["Bad"] + [t for t in tree if t != "Bad"] * 12
        d = os.path.join(work, f"bad{k}")
        cli.make_tree(os.path.join(d, "src_root"), render_tree(big, "single"))
        for th in (1, 2, 4, 8, 16):
            for rep in range(3 if thorough else 2):
                r, sha, _ = run_once(d, lang, "single", {"TYPESHARE_VERIF_THREADS": str(th)}, f"th{th}_{rep}")
                if r["exit"] not in ("ok", "error"):
                    continue          # a panic / hang is C07's business
                col.add(f"badtree{k}", sha if r["exit"] == "ok" else "refused:unreadable-input",
                        {"mode": "single", "dim": "thread-count", "features": "unreadable-file", "lang": lang, "detail": f"tree {big[:3]}..x{len(big)} threads {th} rep {rep}"})
    sample = rng.sample(sorted(trees), min(len(trees), 24 if thorough else 8))
    for k, tree in enumerate(sample):
        lang = langs[k % 6]
        if lang in ("kotlin", "swift", "scala") and any(t in ("C", "SC", "Conly") for t in tree):
            lang = "go"
        for mode in ("single", "multi"):
            d = os.path.join(work, f"th{k}{mode}")
            big = list(tree) * 3            # more files so that several workers really get work
            cli.make_tree(os.path.join(d, "src_root"), render_tree(big, mode))
            for th in ([1, 2, 3, 4, 8, 16] if not thorough else range(1, 17)):
                for rep in range(2 if not thorough else 4):
                    r, sha, _ = run_once(d, lang, mode, {"TYPESHARE_VERIF_THREADS": str(th)}, f"th{th}_{rep}")
                    if r["exit"] != "ok":
                        chk.refused(f"{mode}/threads", f"{lang} {mode}: typeshare failed with {th} threads: {r['stderr'][-200:].strip()}", {"dim": "thread-count"})
                        continue
                    col.add(f"threads{k}{mode}", sha, {"mode": mode, "dim": "thread-count", "features": features(big), "lang": lang,
                                                       "detail": f"tree {big} threads {th} rep {rep}"})
    # hash-order site: a reference imported from a crate that is not typeshared, defined in two other crates
    for k, lang in enumerate(["typescript", "kotlin"]):
        d = os.path.join(work, f"hash{k}")
        files = {"ca/src/lib.rs": "use zzz::Dup;\nuse zzz::Other;\n#[typeshare]\npub struct UsesDup { pub d: Dup, pub o: Other }\n"}
        for cn in ("cb", "cc", "cd", "ce"):
            files[f"{cn}/src/lib.rs"] = f"#[typeshare]\npub struct Dup {{ pub in_{cn}: u32 }}\n#[typeshare]\npub struct Other {{ pub o: u32 }}\n"
        cli.make_tree(os.path.join(d, "src_root"), files)
        for rep in range(40 if thorough else 12):
            r, sha, _ = run_once(d, lang, "multi", {}, f"s{rep}")
            if r["exit"] != "ok":
                chk.refused("multi/fresh-process", f"{lang}: typeshare failed: {r['stderr'][-200:].strip()}", {"dim": "fresh-process"})
                continue
            col.add(f"hash{k}", sha, {"mode": "multi", "dim": "fresh-process", "features": "import-fallback-same-name-in-several-crates",
                                      "lang": lang, "detail": f"process {rep}"})
    # hash seeds on a feature-rich program: every item of the Compose menu plus alias chains that end in structs and are used as enum
    # payloads (backends build name -> kind tables while they generate), generated in fresh processes in every language and both modes
    from .. import compose
    rich = "".join(t.format(N=f"It{j:02}") for j, (_, t) in enumerate(sorted(compose.MENU.items())))
    for j in range(4):
        rich += (f"#[typeshare]\npub struct Base{j} {{ pub b: u32 }}\n#[typeshare]\npub type Mid{j} = Base{j};\n#[typeshare]\npub type Top{j} = Mid{j};\n"
                 f"#[typeshare]\npub type Over{j} = Top{j};\n")
    rich += ('#[typeshare]\n#[serde(tag = "t", content = "c")]\npub enum UsesChains { A(Top0), B(Over1), C(Mid2), D(Base3), E(Over3), F { x: Top2, y: Vec<Over0> } }\n')
    # generic items with several parameter names (per-name tables: type variables, imports)
    rich += ("#[typeshare]\npub struct Page<Item, Cursor, Meta, Extra> { pub items: Vec<Item>, pub next: Option<Cursor>, pub meta: Meta, pub extra: Extra }\n"
             '#[typeshare]\n#[serde(tag = "t", content = "c")]\npub enum Outcome<Good, Failure, Pending> { Done(Good), Failed(Failure), Waiting { on: Pending } }\n')
    for lang in common.LANGS:
        for mode in ("single", "multi"):
            d = os.path.join(work, f"rich_{lang}_{mode}")
            cli.make_tree(os.path.join(d, "src_root"), {"rich/src/lib.rs": rich + "#[typeshare]\npub struct Stamp { pub at: DateTime<Utc>, pub id: AccountId }\n"})
            # a configuration file with every file-only table filled in, several entries each; mapping keys that differ only in a
            # path qualification (inert as keys today; whatever they mean, they mean the same in every process)
            maps = '"chrono::DateTime" = "MappedA"\n"time::DateTime" = "MappedB"\n"DateTime" = "MappedC"\n"AccountId" = "MappedId"\n"a::AccountId" = "MappedOther"\n'
            open(os.path.join(d, "rich.toml"), "w").write(
                f"[{lang}.type_mappings]\n{maps}" + {"swift": '[swift]\ndefault_decorators = ["Sendable", "Identifiable", "Hashable"]\ndefault_generic_constraints = ["Sendable", "Hashable"]\n'
                                                          'codablevoid_constraints = ["Equatable", "Hashable", "Sendable"]\n',
                                                 "go": '[go]\nuppercase_acronyms = ["ID", "URL", "API"]\n'}.get(lang, ""))
            for rep in range(24 if thorough else 8):
                r, sha, _ = run_once(d, lang, mode, {}, f"s{rep}", extra=["-c", os.path.join(d, "rich.toml")])
                if r["exit"] != "ok":
                    sha = "refused:" + r["exit"]          # Kotlin / Swift / Scala refuse nothing here; whatever the outcome, it is the same in every process
                col.add(f"rich_{lang}_{mode}", sha, {"mode": mode, "dim": "fresh-process", "features": "feature-rich-program", "lang": lang, "detail": f"process {rep}"})
    # hash-order side, systematically: MC_C06_ws workspaces with an ambiguous name, each in several fresh processes
    wres = common.run_tlc("MC_C06_ws", cfg="MC_C06_ws_thorough" if thorough else "MC_C06_ws_quick", workers=2, timeout=300)
    chk.add_tlc("MC_C06_ws", wres)
    if not wres.replays:
        raise ToolError("MC_C06_ws produced no cases")
    reps = 24 if thorough else 8

    def do_ws(args):
        k, c = args
        d = os.path.join(work, f"ws{k}")
        cli.make_tree(os.path.join(d, "src_root"), ws_files(c))
        return k, c, [run_once(d, c["lang"], c["mode"], {}, f"s{rep}")[:2] for rep in range(reps)]

    with cf.ThreadPoolExecutor(max_workers=12) as ex:
        for k, c, outs in ex.map(do_ws, list(enumerate(wres.replays))):
            for rep, (r, sha) in enumerate(outs):
                if r["exit"] != "ok":
                    sha = "refused:" + r["exit"]       # whatever the outcome is, it must be the same in every process
                col.add(f"ws{k}", sha, {"mode": c["mode"], "dim": "fresh-process", "lang": c["lang"],
                                        "features": f"ambiguous-name/{c['form']}/renames-{c['renames']}", "detail": f"{c} process {rep}", "ws": c})
    chk.extra["ambiguous_name_workspaces"] = len(wres.replays)
    chk.extra["processes_per_workspace"] = reps
    # split invariance (single-file mode): the same items in one file, one file per item, grouped by kind
    for k, tree in enumerate(sample):
        lang = langs[(k + 3) % 6]
        if lang in ("kotlin", "swift", "scala") and any(t in ("C", "SC", "Conly") for t in tree):
            lang = "python"
        items = []
        for i, t in enumerate(tree, 1):
            if t != "Conly":
                # the annotation in each of its spellings (bare, with arguments, through the crate path): which spellings share a FILE changes with the split
                ann = ["#[typeshare]", "#[typeshare::typeshare]", '#[typeshare(swift = "Equatable")]', "#[::typeshare::typeshare]"][i % 4]
                items.append(("struct", f"{ann}\npub struct M{i} {{ pub m: u32 }}\n"))
            items += items_of(t, i)
        splits = {
            "one-file": {"a/src/all.rs": "".join(x[1] for x in items)},
            "file-per-item": {f"p{j}/src/i{j}.rs": x[1] for j, x in enumerate(items)},
            "by-kind": {f"k_{kind}/src/{kind}.rs": "".join(x[1] for x in items if x[0] == kind) for kind in {x[0] for x in items}},
            "reversed-one-file": {"a/deep/er/src/all.rs": "".join(x[1] for x in reversed(items))},
            # the same items under three source roots, given as three DIRECTORIES arguments (in the order r2 r0 r1)
            "three-roots": {f"r{j % 3}/c{j}/src/i{j}.rs": x[1] for j, x in enumerate(items)},
        }
        for sname, files in splits.items():
            d = os.path.join(work, f"sp{k}{sname}")
            cli.make_tree(os.path.join(d, "src_root"), files)
            roots = [r for r in ("r2", "r0", "r1") if any(f.startswith(r + "/") for f in files)] if sname == "three-roots" else None
            r, sha, _ = run_once(d, lang, "single", {"TYPESHARE_VERIF_THREADS": "1"}, "s", roots)
            if r["exit"] != "ok":
                chk.refused(f"single/split-{sname}", f"{lang}: typeshare failed on split {sname}: {r['stderr'][-200:].strip()}", {"dim": "file-split"})
                continue
            col.add(f"split{k}", sha, {"mode": "single", "dim": "file-split", "features": features(tree), "lang": lang,
                                       "detail": f"items of tree {list(tree)} split {sname}"})
    # overlapping directory arguments: a root given twice, and a root together with one of its own sub-directories. What typeshare
    # makes of files it reaches twice is not the question here - only that it is the same in every run, whatever the thread count
    for k, tree in enumerate(sample[:4 if thorough else 2]):
        lang = langs[(k + 1) % 6]
        if lang in ("kotlin", "swift", "scala") and any(t in ("C", "SC", "Conly") for t in tree):
            lang = "typescript"
        items = []
        for i, t in enumerate(list(tree) * 4, 1):
            items.append(f"#[typeshare]\npub struct Ov{i} {{ pub m: u32 }}\n")
        files = {f"r{j % 2}/c{j % 5}/src/i{j}.rs": x for j, x in enumerate(items)}
        d = os.path.join(work, f"ov{k}")
        cli.make_tree(os.path.join(d, "src_root"), files)
        roots = ["r0", "r0/c0", "r1", "r1", "r0/c2/src"]
        for th in (1, 2, 3, 4, 8, 16):
            for rep in range(3 if thorough else 2):
                r, sha, _ = run_once(d, lang, "single", {"TYPESHARE_VERIF_THREADS": str(th)}, f"th{th}_{rep}", roots)
                if r["exit"] not in ("ok", "error"):
                    continue
                col.add(f"overlap{k}", sha if r["exit"] == "ok" else "refused", {"mode": "single", "dim": "thread-count", "features": "overlapping-directory-arguments",
                                                                                     "lang": lang, "detail": f"{len(items)} files, roots {roots}, threads {th} rep {rep}"})
    # one run with every file delivered twice (the root given twice), validated as a behaviour of Pipeline with Visits = 2
    d = os.path.join(work, "twice")
    tfiles = {f"c{i}/src/f{i}.rs": f"#[typeshare]\npub struct T{i} {{ pub a: u32 }}\n" for i in (1, 2, 3)}
    cli.make_tree(os.path.join(d, "src_root"), tfiles)
    tr = os.path.join(d, "trace.ndjson")
    os.makedirs(os.path.join(d, "o"), exist_ok=True)
    r = cli.run_cli(["-l", "typescript", "-o", os.path.join(d, "o", "out.ts"), os.path.join(d, "src_root"), os.path.join(d, "src_root")],
                    env={"TYPESHARE_VERIF_TRACE": tr, "TYPESHARE_VERIF_THREADS": "2"}, timeout=20)
    if r["exit"] == "ok":
        header, events = cli.read_trace(tr, ["f1", "f2", "f3"], names={"T1": "f1", "T2": "f2", "T3": "f3"}, outcome=0)
        header["visits"] = {"f1": 2, "f2": 2, "f3": 2}
        ok, matched, tres = common.trace_validate("Trace_Pipeline", [header] + events, None, 300)
        chk.add_tlc("Trace_Pipeline[every file delivered twice]", tres)
        if tres.violation:
            chk.mismatch(f"C06/trace/repeated-deliveries/{tres.violation.split()[1] if tres.violation.startswith('Invariant') else 'rejected'}",
                         f"Trace_Pipeline: {tres.violation} on a run whose root was given twice", {"roots": 2}, "P invariants hold on the real execution", tres.violation)
        elif matched != len(events):
            chk.model_drift(f"Trace_Pipeline consumed {matched}/{len(events)} events of the run with repeated deliveries")
        else:
            chk.traces += 1
    # the state of the output location (MC_C06_prior): the same tree generated into locations whose files hold every kind of prior content
    pres = common.run_tlc("MC_C06_prior", cfg="MC_C06_prior", workers=2, timeout=300)
    chk.add_tlc("MC_C06_prior", pres)
    if not pres.replays:
        raise ToolError("MC_C06_prior produced no cases")
    ptree = {"a/src/lib.rs": "/// Account\n#[typeshare]\npub struct Account { pub id: u32, pub name: Option<String> }\n#[typeshare]\npub enum Kind { A, B }\n",
             "b/src/lib.rs": "#[typeshare]\npub struct Order { pub n: u32 }\n#[typeshare]\npub type Names = Vec<String>;\n"}
    pd = os.path.join(work, "prior")
    cli.make_tree(os.path.join(pd, "src_root"), ptree)
    fresh = {}
    for c in sorted(pres.replays, key=lambda c: (c["prior"] != "absent", c["prior"], c["mode"], c["lang"])):
        key = (c["mode"], c["lang"])
        tag = f"{c['prior']}_{c['mode']}_{c['lang']}"
        out = os.path.join(pd, f"out_{tag}")
        if c["prior"] != "absent":
            if key not in fresh:
                continue
            for rel, data in fresh[key].items():
                cut = data.find(b"\n", len(data) // 2) + 1
                prior = {"empty": b"", "cut_at_line": data[:cut], "cut_mid_line": data[:max(1, cut - 3)], "one_byte": data[:1],
                         "longer": data + b"// more\nclass Tail {}\n", "same": data, "other": b"unrelated text\n"}[c["prior"]]
                os.makedirs(os.path.dirname(os.path.join(out, rel)), exist_ok=True)
                with open(os.path.join(out, rel), "wb") as f:
                    f.write(prior)
        r, sha, out = run_once(pd, c["lang"], c["mode"], {}, tag)
        if r["exit"] != "ok":
            chk.refused(f"{c['mode']}/prior-{c['prior']}", f"{c['lang']}: typeshare failed into a location with prior content ({c['prior']}): {r['stderr'][-200:].strip()}", {"dim": "prior-output-state", "case": c})
            continue
        if c["prior"] == "absent":
            fresh[key] = {rel: open(os.path.join(out, rel), "rb").read() for rel in cli.snapshot(out)}
        col.add(f"prior_{c['mode']}_{c['lang']}", sha, {"mode": c["mode"], "dim": "prior-output-state", "features": "prior=" + c["prior"], "lang": c["lang"],
                                                        "detail": f"output location holds: {c['prior']}", "case": c})
    judge(chk, col)


def replay(chk, rec):
    c = rec["case"]
    work = common.scratch("c06r")
    if c.get("dim") == "arrival-order":
        tree, mode, lang = c["tree"], c["mode"], c["lang"]
        d = os.path.join(work, "t")
        cli.make_tree(os.path.join(d, "src_root"), render_tree(tree, mode))
        col = Collector()
        for perm in itertools.permutations(range(1, len(tree) + 1)):
            r, sha, _ = run_once(d, lang, mode, {"TYPESHARE_VERIF_ORDER": ",".join(f"M{p}" for p in perm), "TYPESHARE_VERIF_THREADS": "2"}, "p" + "".join(map(str, perm)))
            col.add("replay", sha, dict(c, perm=list(perm), detail=f"tree {tree} arrival {list(perm)}"))
        judge(chk, col)
    else:
        run(chk)
        chk.mismatches = {k: v for k, v in chk.mismatches.items() if k == rec["signature"]}
