"""C16: rename_all case conversion agrees with serde_derive's algorithm.

P  = spec/SerdeCase.tla (judge), cross-checked against vendored serde_derive case.rs
M  = spec/M_Rename.tla (prediction only)
spec->impl: MC_C16 enumerates every identifier over class representatives; each is pushed through the real
            parser (one-field struct / one-variant enum under rename_all) and compared with P.
impl->spec: dictionary + random identifiers through the real parser; Trace_C16 judges the recorded events.
"""
import os
import re

from .. import common
from ..common import ToolError

NEEDS = ["driver"]
RULES = ["lowercase", "UPPERCASE", "PascalCase", "camelCase", "snake_case", "SCREAMING_SNAKE_CASE", "kebab-case",
         "SCREAMING-KEBAB-CASE", "bogusCase"]
TOK = {"<e>": "é", "<E>": "É", "<a>": "ä", "<A>": "Ä"}
RTOK = {v: k for k, v in TOK.items()}
SNAKE_FAMILY = {"snake_case", "SCREAMING_SNAKE_CASE", "kebab-case", "SCREAMING-KEBAB-CASE"}
KEYWORDS = set("as break const continue crate else enum extern false fn for if impl in let loop match mod move mut "
               "pub ref return self Self static struct super trait true type unsafe use where while async await dyn "
               "abstract become box do final macro override priv typeof unsized virtual yield try gen".split())
UNRAWABLE = {"self", "Self", "super", "crate", "_"}


def real(s):
    """spec token string -> real Rust text"""
    for k, v in TOK.items():
        s = s.replace(k, v)
    return s


def toks(s):
    """real text -> list of spec tokens"""
    return [RTOK.get(c, c) for c in s]


def rust_ident(s):
    return "r#" + s if s in KEYWORDS else s


def source(ident, rules, positions):
    """per rule: the identifier as a field / as a variant, and (MC_C16!Spellings) the same written as a raw identifier r#ident,
    which serde reads with the prefix removed"""
    out = []
    raw = ident not in UNRAWABLE and not ident.startswith("r#")
    for i, r in enumerate(rules):
        if "field" in positions:
            out.append(f'#[typeshare]\n#[serde(rename_all = "{r}")]\npub struct S{i} {{ pub {rust_ident(ident)}: u32 }}\n')
            if raw:
                out.append(f'#[typeshare]\n#[serde(rename_all = "{r}")]\npub struct R{i} {{ pub r#{ident}: u32 }}\n')
            # MC_C16!FieldContexts: the field of a struct variant - rule on the variant; rule as the enum's rename_all_fields;
            # rule on the variant while the enum's rename_all (variants only) and rename_all_fields say something else
            other = "UPPERCASE" if r != "UPPERCASE" else "lowercase"
            out.append(f'#[typeshare]\n#[serde(tag = "t", content = "c")]\npub enum V{i} {{ U, #[serde(rename_all = "{r}")] Sv {{ {rust_ident(ident)}: u32 }} }}\n')
            out.append(f'#[typeshare]\n#[serde(tag = "t", content = "c", rename_all_fields = "{r}")]\npub enum W{i} {{ U, Sv {{ {rust_ident(ident)}: u32 }} }}\n')
            out.append(f'#[typeshare]\n#[serde(tag = "t", content = "c", rename_all = "{other}", rename_all_fields = "{other}")]\npub enum X{i} {{ U, #[serde(rename_all = "{r}")] Sv {{ {rust_ident(ident)}: u32 }} }}\n')
            # the rule as the enum's rename_all_fields, the variant declared AFTER a variant that carries another rule of its own
            # (serde resolves each variant on its own: a variant's rule does not reach the variants declared after it)
            out.append(f'#[typeshare]\n#[serde(tag = "t", content = "c", rename_all_fields = "{r}")]\npub enum Z{i} {{ U, #[serde(rename_all = "{other}")] Dec {{ dec_word: u32 }}, Sv {{ {rust_ident(ident)}: u32 }} }}\n')
            # MC_C16!AttrSpellings: the rule in a SECOND #[serde(..)] attribute of the container (serde merges all of them)
            out.append(f'#[typeshare]\n#[serde(deny_unknown_fields)]\n/// doc\n#[serde(rename_all = "{r}")]\npub struct T{i} {{ pub {rust_ident(ident)}: u32 }}\n')
        if "variant" in positions:
            out.append(f'#[typeshare]\n#[serde(deny_unknown_fields)]\n#[serde(rename_all = "{r}")]\npub enum Y{i} {{ {rust_ident(ident)} }}\n')
            out.append(f'#[typeshare]\n#[serde(rename_all = "{r}")]\npub enum E{i} {{ {rust_ident(ident)} }}\n')
            if raw:
                out.append(f'#[typeshare]\n#[serde(rename_all = "{r}")]\npub enum Q{i} {{ r#{ident} }}\n')
    return "".join(out)


def observe(res, rules):
    """(pos, rule) -> observed renamed name"""
    obs = {}
    pd = (res.get("parsed") or {}).get("", {})
    for s in pd.get("structs", []):
        i = int(s["id"]["original"][1:])
        obs[("field" + {"R": "+raw", "T": "+rule-in-second-attribute"}.get(s["id"]["original"][0], ""), rules[i])] = s["fields"][0]["id"]["renamed"]
    for e in pd.get("enums", []):
        i = int(e["id"]["original"][1:])
        k = e["id"]["original"][0]
        if k in "VWXZ":
            sv = [v for v in e["variants"] if v.get("fields") and v.get("id", {}).get("original", "Sv") == "Sv"]
            if sv:
                obs[("field+" + {"V": "variant-rule", "W": "enum-fields-rule", "X": "variant-rule-over-enum-rules", "Z": "enum-fields-rule-after-ruled-variant"}[k], rules[i])] = sv[0]["fields"][0]["id"]["renamed"]
            continue
        obs[("variant" + {"Q": "+raw", "Y": "+rule-in-second-attribute"}.get(k, ""), rules[i])] = e["variants"][0]["id"]["renamed"]
    return obs


def features(ident, pos="", rule=""):
    if pos.startswith("field") and rule in SNAKE_FAMILY and any(c.isupper() for c in ident):
        # serde never splits words in field position; for this family the only abstract feature that
        # matters is "contains an uppercase letter" (see DESIGN.md, C16)
        return "has-uppercase"
    f = []
    if re.search(r"[A-Z]", ident):
        f.append("upper")
    if re.search(r"[a-z]", ident):
        f.append("lower")
    if "_" in ident:
        f.append("us")
    if re.search("[ÉÄ]", ident):
        f.append("naU")
    if re.search("[éä]", ident):
        f.append("naL")
    c = ident[0]
    f.append("first=" + ("us" if c == "_" else "U" if c.isupper() and c.isascii() else "l" if c.islower() and c.isascii()
                         else "na" if not c.isascii() else "d"))
    return "+".join(f)


def signature(pos, rule, ident, kind):
    return f"C16/{pos}/{rule}/{features(ident, pos, rule)}/{kind}"


def judge_one(chk, ident, pos, rule, expect, observed, panicked):
    """expect: P's string or '!U'. observed: string or None."""
    if expect == "!U":
        return  # serde_derive itself panics: outside the property
    chk.judged((pos, rule, ident))
    if panicked:
        chk.mismatch(signature(pos, rule, ident, "panic"),
                     f"typeshare panics on `{ident}` under rename_all={rule} ({pos}); serde gives `{expect}`",
                     {"ident": ident, "pos": pos, "rule": rule}, expect, "PANIC")
    elif observed != expect:
        chk.mismatch(signature(pos, rule, ident, "typeshare!=serde"),
                     f"{pos} `{ident}` under rename_all={rule}: serde `{expect}`, typeshare `{observed}`",
                     {"ident": ident, "pos": pos, "rule": rule}, expect, observed)


def run_idents(chk, cases, predict=None):
    """cases: list of (ident(real), {'field':{rule:exp}, 'variant':{rule:exp}}). Runs the real parser."""
    jobs, meta = [], []
    for ident, exp in cases:
        pred = (predict or {}).get(ident, {})
        risky = [r for r in RULES if "!P" in (pred.get("field", {}).get(r), pred.get("variant", {}).get(r))]
        safe = [r for r in RULES if r not in risky]
        jobs.append({"id": len(jobs), "lang": "typescript", "dump": True, "parse_only": True,
                     "files": [{"src": source(ident, safe, ("field", "variant"))}]})
        meta.append((ident, exp, safe, ("field", "variant")))
        for r in risky:
            for pos in ("field", "variant"):
                jobs.append({"id": len(jobs), "lang": "typescript", "dump": True, "parse_only": True,
                             "files": [{"src": source(ident, [r], (pos,))}]})
                meta.append((ident, exp, [r], (pos,)))
    results = common.run_driver("gen", jobs)
    # a grouped job that panicked unexpectedly is split so that every (rule,pos) gets its own verdict
    retry_jobs, retry_meta = [], []
    observations = []
    for res, (ident, exp, rules, positions) in zip(results, meta):
        if res["status"] == "panic" and (len(rules) > 1 or len(positions) > 1):
            for r in rules:
                for pos in positions:
                    retry_jobs.append({"id": len(retry_jobs), "lang": "typescript", "dump": True, "parse_only": True,
                                       "files": [{"src": source(ident, [r], (pos,))}]})
                    retry_meta.append((ident, exp, [r], (pos,)))
        else:
            observations.append((res, ident, exp, rules, positions))
    if retry_jobs:
        for res, m in zip(common.run_driver("gen", retry_jobs), retry_meta):
            observations.append((res,) + m)
    events = []
    for res, ident, exp, rules, positions in observations:
        if res["status"] == "error":
            raise ToolError(f"identifier `{ident}` not accepted by the Rust parser: {res['errors']}")
        panicked = res["status"] == "panic"
        obs = {} if panicked else observe(res, rules)
        for r in rules:
            for pos in positions:
                if (pos + "+raw", r) in obs:          # the raw spelling: same requirement as for the plain identifier
                    # the spelling is named in the signature only when it is necessary: the plain spelling conforms
                    plain_bad = panicked or obs.get((pos, r)) != exp[pos][r]
                    judge_one(chk, ident, pos if plain_bad else pos + "+raw", r, exp[pos][r], obs[(pos + "+raw", r)], False)
                    events.append({"pos": pos, "rule": r, "ident": toks(ident), "panic": False, "obs": toks(obs[(pos + "+raw", r)]), "raw": True})
                if (pos + "+rule-in-second-attribute", r) in obs:
                    plain_bad = panicked or obs.get((pos, r)) != exp[pos][r]
                    judge_one(chk, ident, pos if plain_bad else pos + "+rule-in-second-attribute", r, exp[pos][r], obs[(pos + "+rule-in-second-attribute", r)], False)
                    events.append({"pos": pos, "rule": r, "ident": toks(ident), "panic": False, "obs": toks(obs[(pos + "+rule-in-second-attribute", r)]), "ctx": "second-attribute"})
                if pos == "field":
                    for ctx in ("variant-rule", "enum-fields-rule", "variant-rule-over-enum-rules", "enum-fields-rule-after-ruled-variant"):
                        if ("field+" + ctx, r) in obs:
                            plain_bad = panicked or obs.get((pos, r)) != exp[pos][r]
                            judge_one(chk, ident, pos if plain_bad else pos + "+" + ctx, r, exp[pos][r], obs[("field+" + ctx, r)], False)
                            events.append({"pos": pos, "rule": r, "ident": toks(ident), "panic": False, "obs": toks(obs[("field+" + ctx, r)]), "ctx": ctx})
                o = obs.get((pos, r))
                judge_one(chk, ident, pos, r, exp[pos][r], o, panicked)
                p = (predict or {}).get(ident, {}).get(pos, {}).get(r)
                if p is not None and ((p == "!P") != panicked or (not panicked and p != "!P" and real(p) != o)):
                    chk.model_drift(f"M_Rename predicts `{p}` for `{ident}`/{r}, real code gives "
                                    f"{'PANIC' if panicked else o}")
                events.append({"pos": pos, "rule": r, "ident": toks(ident), "panic": panicked,
                               "obs": toks(o or "")})
    return events


def crosscheck_spec(chk, cases):
    """SerdeCase.tla vs the vendored serde_derive case.rs: a disagreement is a spec bug (tool error)."""
    jobs = []
    for ident, exp in cases:
        for pos in ("field", "variant"):
            for r in RULES[:-1]:
                jobs.append({"id": len(jobs), "rule": r, "ident": ident, "pos": pos, "_exp": exp[pos][r]})
    res = common.run_driver("serdecase", [{k: v for k, v in j.items() if k != "_exp"} for j in jobs])
    n = 0
    for j, r in zip(jobs, res):
        n += 1
        if j["_exp"] == "!U":
            if r["status"] != "panic":
                raise ToolError(f"SerdeCase.tla says serde panics on {j}, vendored case.rs returns {r}")
        elif r["status"] != "ok" or r["out"] != j["_exp"]:
            raise ToolError(f"SerdeCase.tla disagrees with vendored serde_derive case.rs: {j} -> {r}")
    return n


def load_dictionary():
    d = []
    for f in ("dictionary_fields.txt", "dictionary_variants.txt"):
        d += [l.strip() for l in open(os.path.join(common.ROOT, "data", f)) if l.strip()]
    return [w for w in d if w not in UNRAWABLE]


def run(chk):
    thorough = chk.tier == "thorough"
    chk.rule = ("spec->impl: TLC enumerates every identifier over {a,Z,7,_,e-acute,A-diaeresis} up to length "
                f"{7 if thorough else 4} (MC_C16), each judged under 8 rules + 1 unknown rule x field/variant position "
                "against SerdeCase.tla on the real parser; impl->spec: dictionary and random identifiers, events judged "
                "by TLC (Trace_C16). distinct = (position, rule, identifier) triples inside serde's own domain.")
    chk.assumptions = ["SerdeCase.tla is a faithful transcription of serde_derive 1.0.214 case.rs (cross-checked on "
                       "every enumerated identifier against the vendored original)",
                       "the name typeshare computes is read from ParsedData (Id.renamed); that every backend prints it as the wire name, wherever the member "
                       "stands in its item, is checked on MC_C16_backends' items in all 6 languages"]
    res = common.run_tlc("MC_C16", cfg="MC_C16_thorough" if thorough else "MC_C16_quick", workers=8 if thorough else 4,
                         timeout=1500, heap="8g")
    chk.add_tlc("MC_C16", res)
    chk.exhaustive = True
    cases, predict, ndiv = [], {}, 0
    for c in res.replays:
        ident = real(c["id"])
        exp = {pos: {r: (v if v == "!U" else real(v)) for r, v in c[pos].items()} for pos in ("field", "variant")}
        cases.append((ident, exp))
        predict[ident] = c["predict"]
        ndiv += c["ndiv"]
    chk.extra["model_level_divergences_M_vs_P"] = ndiv
    if not cases:
        raise ToolError("TLC produced no cases")
    for ident, exp in cases[:3] + cases[len(cases) // 2:len(cases) // 2 + 2]:
        chk.sample({"ident": ident, "expect_field": exp["field"], "expect_variant": exp["variant"]})
    n = crosscheck_spec(chk, cases if not thorough else cases[::7])
    chk.extra["spec_crosschecked_against_vendored_serde"] = n
    for part in common.chunks(cases, 40000):
        run_idents(chk, part, predict)
    chk.traces += len(cases)

    # impl -> spec: dictionary + random identifiers over the full alphabet, judged by TLC
    words = load_dictionary()
    rng = chk.rng
    alphabet = "abcxyzABCXYZ019__" + "éÉäÄ"
    nrand = 4000 if thorough else 300
    for _ in range(nrand):
        n = rng.randint(1, 14)
        w = "".join(rng.choice(alphabet) for _ in range(n))
        if w[0].isdigit() or w == "_" or w in KEYWORDS:
            continue
        words.append(w)
    if not thorough:
        words = rng.sample(words, 500)
    silent = common.Check(chk.pid, chk.tier, chk.seed)   # events are judged by TLC, not by python
    events = []
    for part in common.chunks([(w, {"field": {r: "?" for r in RULES}, "variant": {r: "?" for r in RULES}}) for w in words], 2000):
        events += run_idents(silent, part, None)
    ok, matched, tres = common.trace_validate("Trace_C16", events, timeout=1200)
    chk.add_tlc("Trace_C16", tres)
    if matched != len(events):
        raise ToolError(f"Trace_C16 consumed {matched} of {len(events)} events")
    chk.traces += len(events) - len(tres.bad)
    chk.extra["trace_events"] = len(events)
    chk.extra["trace_events_rejected"] = len(tres.bad)
    for i in tres.bad:
        e = events[i - 1]
        ident = real("".join(e["ident"]))
        chk.judged((e["pos"], e["rule"], ident))
        kind = "panic" if e["panic"] else "typeshare!=serde"
        chk.mismatch(signature(e["pos"], e["rule"], ident, kind),
                     f"{e['pos']} `{ident}` under rename_all={e['rule']}: Trace_C16 rejects observed "
                     f"`{real(''.join(e['obs']))}`", {"ident": ident, "pos": e["pos"], "rule": e["rule"]},
                     "SerdeCase!Apply", "PANIC" if e["panic"] else real("".join(e["obs"])))
    for e in events:
        chk.judged((e["pos"], e["rule"], real("".join(e["ident"]))))
    backends(chk)


def backends(chk):
    """MC_C16_backends: the computed name is the wire name every backend prints, wherever the member stands in its item."""
    from .. import observe as vobserve
    res = common.run_tlc("MC_C16_backends", cfg="MC_C16_backends", workers=2, timeout=300)
    chk.add_tlc("MC_C16_backends", res)
    if not res.replays:
        raise ToolError("MC_C16_backends produced no cases")
    srcs = []
    for c in res.replays:
        rule, ms = c["case"]["rule"], c["members"]
        if c["case"]["pos"] == "field":
            srcs.append(f'#[typeshare]\n#[serde(rename_all = "{rule}")]\npub struct Backend {{\n' + "".join(f"    #[typeshare(typescript(type = \"Date\"))]\n    pub {rust_ident(m['ident'])}: u32,\n" for m in ms) + "}\n")
        else:
            srcs.append(f'#[typeshare]\n#[serde(rename_all = "{rule}")]\npub enum Backend {{\n' + "".join(f"    {m['ident']},\n" for m in ms) + "}\n")
    events, meta = [], []
    # ... and once more for Go under the file-only option uppercase_acronyms (it re-spells Go IDENTIFIERS such as APIKey2; the name in the
    # json tag is still serde's)
    acr = vobserve.generate(srcs, langs=["go"], cfgs={"go": {"uppercase_acronyms": ["ID", "URL", "API"]}})
    for c, src, per0, pera in zip(res.replays, srcs, vobserve.generate(srcs), acr):
        per = dict(per0, **{"go+acronyms": pera["go"]})
        for lang in common.LANGS + ["go+acronyms"]:
            r = per[lang]
            if r["status"] != "ok":
                continue          # a refusal / panic / unreadable file is C03 / C07 / C10's business
            d = vobserve.find_def(r["obs"], "Backend")
            got = [m["key"] for m in d.get("members", [])] if d and c["case"]["pos"] == "field" else \
                  [v["wire"] for v in d.get("variants", [])] if d else []
            if lang == "scala" and c["case"]["pos"] == "field" and any("-" in m["expect"] for m in c["members"]):
                continue          # Scala carries no key binding for fields: dashed keys are outside the property (as in C01)
            if len(got) != len(c["members"]):
                chk.mismatch(f"C16/{lang}-backend/{c['case']['pos']}/{c['case']['rule']}/members-lost", f"{lang}: members {got} for {[m['ident'] for m in c['members']]}",
                             {"case": c["case"], "lang": lang, "src": src, "backend": True}, [m["expect"] for m in c["members"]], got)
                continue
            for m, g in zip(c["members"], got):
                events.append({"pos": c["case"]["pos"], "rule": c["case"]["rule"], "ident": toks(m["ident"]), "panic": False, "obs": toks(g)})
                meta.append((lang, c, src, m, g))
            if lang == "typescript" and c["case"]["pos"] == "field":
                # every member has TypeScript's custom JSON translation (a Date override): the helper code names each member by its wire name
                rk = sorted(r["obs"].get("reviver_keys", []))
                for m, g in zip(sorted(c["members"], key=lambda m_: m_["expect"]), rk + [""] * len(c["members"])):
                    events.append({"pos": "field", "rule": c["case"]["rule"], "ident": toks(m["ident"]), "panic": False, "obs": toks(g)})
                    meta.append(("typescript-reviver", c, src, m, g))
    ok, matched, tres = common.trace_validate("Trace_C16", events, timeout=600)
    chk.add_tlc("Trace_C16[backends]", tres)
    if matched != len(events):
        raise ToolError(f"Trace_C16 consumed {matched} of {len(events)} events")
    chk.traces += len(events) - len(tres.bad)
    chk.extra["backend_events"] = len(events)
    for lang, c, src, m, g in meta:
        chk.judged((lang + "-backend", c["case"]["pos"], c["case"]["rule"], c["case"]["layout"], c["case"]["idx"], m["ident"]))
    for i in tres.bad:
        lang, c, src, m, g = meta[i - 1]
        chk.mismatch(f"C16/{lang}-backend/{c['case']['pos']}/{c['case']['rule']}/layout={c['case']['layout']}/printed-name!=serde",
                     f"{lang}: {c['case']['pos']} `{m['ident']}` under rename_all={c['case']['rule']} in members {[x['ident'] for x in c['members']]}: the generated code binds "
                     f"`{g}`, serde uses `{m['expect']}`", {"case": c["case"], "lang": lang, "src": src, "backend": True}, m["expect"], g)


def replay(chk, rec):
    c = rec["case"]
    if c.get("backend"):
        backends(chk)
        chk.mismatches = {k: v for k, v in chk.mismatches.items() if k == rec["signature"]}
        return
    ident = c["ident"]
    exp = {"field": {r: "?" for r in RULES}, "variant": {r: "?" for r in RULES}}
    silent = common.Check(chk.pid, chk.tier, chk.seed)
    events = [e for e in run_idents(silent, [(ident, exp)], None) if e["pos"] == c["pos"] and e["rule"] == c["rule"]]
    ok, matched, tres = common.trace_validate("Trace_C16", events)
    for i in tres.bad:
        e = events[i - 1]
        chk.mismatch(rec["signature"], rec["what"], c, rec["expected"], "PANIC" if e["panic"] else real("".join(e["obs"])))
