"""C11: definitions are emitted exactly once each and after the definitions they use.

P = spec/Topsort.tla (OrderOk / IntervalOk), M = spec/M_Topsort.tla (toposort_impl, sort_by_indices, Collected)
spec->impl: MC_C11 enumerates (a) every digraph on 3 (quick) / 4 (thorough) nodes -> real toposort_impl through the
            cfg(typeshare_verif) hook, (b) every index permutation up to 5 / 7 -> real sort_by_indices, (c) every
            two-item program A -> B with the reference written in every carrier x container x renamed? x kind(B),
            generated in TS, Kotlin, Swift, Go, Python and the definition order read back.
impl->spec: random programs up to 12 items (DAGs and cyclic graphs) with random placements; all events are judged by
            Trace_C11 (Topsort!OrderOk / IntervalOk).
"""
import os

from .. import common, render
from ..common import ToolError
from ..extract import go as x_go, kt as x_kt, py as x_py, swift as x_swift, ts as x_ts

NEEDS = ["driver", "cli"]
LANGS = {"typescript": x_ts, "kotlin": x_kt, "swift": x_swift, "go": x_go, "python": x_py}
CFG = {"typescript": {}, "kotlin": {"package": "com.x"}, "swift": {}, "go": {"package": "p"}, "python": {}}


def wrap(wrapper, target):
    t = target
    return {
        "direct": t,
        "vec": {"k": "vec", "e": t},
        "option": {"k": "option", "e": t},
        "mapk": {"k": "map", "key": t, "val": "String"},
        "mapv": {"k": "map", "key": "String", "val": t},
        "array": {"k": "array", "e": t, "n": 2},
        "slice": {"k": "slice", "e": t},
        "garg": {"k": "user", "n": "Gen", "args": [t]},
        "garg_unknown": {"k": "user", "n": "Unknown", "args": [t]},
        "garg_nested": {"k": "user", "n": "Gen", "args": [{"k": "vec", "e": t}]},
        # composed containers (MC_C11!Wrappers2)
        "option_vec": {"k": "option", "e": {"k": "vec", "e": t}},
        "vec_option": {"k": "vec", "e": {"k": "option", "e": t}},
        "option_mapv": {"k": "option", "e": {"k": "map", "key": "String", "val": t}},
        "option_garg": {"k": "option", "e": {"k": "user", "n": "Gen", "args": [t]}},
    }[wrapper]


def ovr_attr(e):
    o = e.get("ovr", "none")
    return [f'#[typeshare({o}(type = "Overridden"))]'] if o not in ("none", "", None) else []


def build_program(nodes, edges):
    """nodes: [{name, kind, renamed(bool)}], edges: [{src,dst,carrier,wrapper}] (0-based).
    Returns (items, nodes', edges') - Gen is appended as an extra node when a garg wrapper is used."""
    nodes = [dict(n) for n in nodes]
    edges = [dict(e) for e in edges]
    if any(e["wrapper"] in ("garg", "garg_nested", "option_garg") for e in edges):
        gi = len(nodes)
        nodes.append({"name": "Gen", "kind": "generic_struct", "renamed": False})
        for e in list(edges):
            if e["wrapper"] in ("garg", "garg_nested", "option_garg"):
                edges.append({"src": e["src"], "dst": gi, "carrier": e["carrier"], "wrapper": "direct", "implicit": True})
    items = []
    for i, n in enumerate(nodes):
        out = [e for e in edges if e["src"] == i and not e.get("implicit")]
        at = [f'#[serde(rename = "{n["name"]}Renamed")]'] if n.get("renamed") else []
        if n.get("rust_name"):          # a twin: another item with the same Rust identifier, in a module of its own, told apart by its rename
            at = [f'#[serde(rename = "{n["name"]}")]']
        k = n["kind"]
        if k == "generic_struct":
            items.append({"kind": "struct", "name": n["name"], "generics": ["T"], "fields": [{"name": "v", "ty": "T"}]})
        elif k == "struct":
            fields = [{"name": f"f{j}", "ty": wrap(e["wrapper"], nodes[e["dst"]]["name"]), "attrs": ovr_attr(e)} for j, e in enumerate(out)]
            items.append({"kind": "struct", "name": n["name"], "attrs": at, "fields": fields or [{"name": "x", "ty": "u32"}]})
        elif k == "tagged_enum":
            vs = [{"name": "U0", "kind": "unit"}]
            together = [e for e in out if e.get("same_variant")]          # several references as fields of ONE struct variant
            if together:
                vs.append({"name": "Sall", "kind": "struct", "fields": [{"name": f"x{j}", "ty": wrap(e["wrapper"], nodes[e["dst"]]["name"]), "attrs": ovr_attr(e)}
                                                                       for j, e in enumerate(together)]})
            for j, e in enumerate(out):
                if e.get("same_variant"):
                    continue
                t = wrap(e["wrapper"], nodes[e["dst"]]["name"])
                if e["carrier"] == "vfield":
                    vs.append({"name": f"S{j}", "kind": "struct", "fields": [{"name": "x", "ty": t, "attrs": ovr_attr(e)}]})
                else:
                    vs.append({"name": f"N{j}", "kind": "newtype", "ty": t})
            if len(vs) == 1:
                vs.append({"name": "N0", "kind": "newtype", "ty": "u32"})
            items.append({"kind": "enum", "name": n["name"], "attrs": [render.tagged()] + at, "variants": vs})
        elif k == "unit_enum":
            items.append({"kind": "enum", "name": n["name"], "attrs": at, "variants": [{"name": "A"}, {"name": "B"}]})
        elif k == "shadow_alias":
            # a generic alias whose type PARAMETER is named like another item of the program (valid Rust: the parameter shadows the item):
            # it does not refer to that item - and the items walked after it still do (what an ordering walk remembers about a name while
            # it is inside one item must not outlive that item)
            items.append({"kind": "alias", "name": n["name"], "attrs": at, "generics": [n["param"]], "ty": f"Vec<{n['param']}>"})
        elif k == "shadow_struct":
            items.append({"kind": "struct", "name": n["name"], "attrs": at, "generics": [n["param"]], "fields": [{"name": "v", "ty": f"Vec<{n['param']}>"}]})
        elif k == "alias":
            t = wrap(out[0]["wrapper"], nodes[out[0]["dst"]]["name"]) if out else "String"
            items.append({"kind": "alias", "name": n["name"], "attrs": at, "ty": t})
        elif k == "const":
            t = wrap(out[0]["wrapper"], nodes[out[0]["dst"]]["name"]) if out else "u32"
            items.append({"kind": "const", "name": n["name"], "ty": t, "value": "1"})
        else:
            raise ValueError(k)
        if n.get("rust_name"):
            items[-1]["name"] = n["rust_name"]
            items[-1]["module"] = "v2"
    return items, nodes, edges


def family(node, items_i):
    """names of every definition that belongs to this item (main def first)."""
    main = [node["name"] + "Renamed", node["name"]] if node.get("renamed") else [node["name"]]
    helpers = []
    if items_i["kind"] == "enum":
        for v in items_i["variants"]:
            if v.get("kind") == "struct":
                for m in main:
                    helpers.append(f"{m}{v['name']}Inner")
    return main, helpers


def positions(lang, text, nodes, items):
    """-> (count, start, main) per node from the generated text (1-based lines)."""
    obs = LANGS[lang].extract(text)
    count, start, mainpos = [], [], []
    for n, it in zip(nodes, items):
        main, helpers = family(n, it)
        lower = n["kind"] == "const"
        mains = [d for d in obs["defs"] if (d["name"].lower() in [m.lower() for m in main] if lower else d["name"] in main)]
        fam = mains + [d for d in obs["defs"] if d["name"] in helpers]
        count.append(len(mains))
        if not mains:
            start.append(0)
            mainpos.append(0)
            continue
        start.append(min(d.get("first_line", d["line"]) for d in fam))
        mainpos.append(max(d["line"] for d in mains))
    return count, start, mainpos


def run_programs(chk, programs):
    """programs: [(nodes, edges, tag)] -> events for Trace_C11 (+ meta for signatures)."""
    jobs, meta = [], []
    for pi, (nodes, edges, tag) in enumerate(programs):
        items, nodes2, edges2 = build_program(nodes, edges)
        src = render.program(items)
        for lang in LANGS:
            if lang in ("kotlin", "swift") and any(n["kind"] == "const" for n in nodes2):
                continue  # write_const is todo!() there: C07's business
            if any(e.get("ovr") == lang for e in edges2):
                continue  # the reference is not written in this language
            jobs.append({"id": len(jobs), "lang": lang, "files": [{"src": src}], "cfg": CFG[lang]})
            meta.append((pi, lang, nodes2, edges2, items, src, tag))
    events, emeta, skipped = [], [], 0
    for part_j, part_m in zip(common.chunks(jobs, 20000), common.chunks(meta, 20000)):
        for res, (pi, lang, nodes2, edges2, items, src, tag) in zip(common.run_driver("gen", part_j), part_m):
            if res["status"] == "panic":
                skipped += 1      # reported under C07 by its own check
                continue
            if res["status"] == "error":
                if all(e["msg"].startswith("generate:") for e in res["errors"]):
                    skipped += 1  # the backend refuses this program (e.g. generics in Go): outside "supported programs"
                    continue
                chk.refused(lang, f"{lang}: program not accepted: {str(res['errors'])[:200]}", {"nodes": nodes, "edges": edges})
                continue
            try:
                count, start, mainpos = positions(lang, res["outputs"][""], nodes2, items)
            except Exception as e:  # extractor cannot read the file: C10's business, not an ordering verdict
                skipped += 1
                chk.extra.setdefault("unreadable_outputs", []).append(f"{lang}: {type(e).__name__}: {e}"[:200])
                continue
            events.append({"ev": "prog", "n": len(nodes2), "edges": [[e["src"] + 1, e["dst"] + 1] for e in edges2],
                           "count": count, "start": start, "main": mainpos})
            emeta.append((lang, nodes2, edges2, src, tag, res["outputs"][""]))
    chk.extra["programs_skipped"] = chk.extra.get("programs_skipped", 0) + skipped
    return events, emeta


def run_programs_cli(chk, programs, mode):
    """the same programs through the REAL BINARY (single-file output, or folder output: one crate, one module): the binary prepares the
    parsed data on its own way before it hands them to the backends (imports table, crate names), the library driver does not"""
    import concurrent.futures as cf
    from .. import cli
    work = common.scratch("c11cli")
    args_for = {"typescript": [], "kotlin": ["--java-package", "com.x"], "swift": [], "go": ["--go-package", "p"], "python": [], "scala": ["--scala-package", "com.x"]}
    todo = []
    for pi, (nodes, edges, tag) in enumerate(programs):
        items, nodes2, edges2 = build_program(nodes, edges)
        src = render.program(items)
        for lang in LANGS:
            if lang in ("kotlin", "swift") and any(n["kind"] == "const" for n in nodes2):
                continue
            todo.append((pi, lang, nodes2, edges2, items, src, tag))

    def one(t):
        pi, lang, nodes2, edges2, items, src, tag = t
        d = os.path.join(work, f"p{pi}{lang}{mode}")
        cli.make_tree(d, {"cratex/src/lib.rs": src})
        out = os.path.join(d, "out")
        os.makedirs(out)
        dest = ["-o", os.path.join(out, "out." + common.EXT[lang])] if mode == "single" else ["-d", out]
        r = cli.run_cli(["-l", lang] + args_for[lang] + dest + [os.path.join(d, "cratex")], timeout=20)
        text = None
        if r["exit"] == "ok":
            fs = [f for f in sorted(os.listdir(out)) if f != "Codable.swift"]
            text = open(os.path.join(out, fs[0])).read() if fs else ""
        return t, r, text

    events, emeta = [], []
    with cf.ThreadPoolExecutor(max_workers=12) as ex:
        for (pi, lang, nodes2, edges2, items, src, tag), r, text in ex.map(one, todo):
            if text is None:
                continue          # a refusal / panic / hang: C03 / C07 / C08
            try:
                count, start, mainpos = positions(lang, text, nodes2, items)
            except Exception:  # noqa  (C10)
                continue
            events.append({"ev": "prog", "n": len(nodes2), "edges": [[e["src"] + 1, e["dst"] + 1] for e in edges2], "count": count, "start": start, "main": mainpos})
            emeta.append((lang + "+cli-" + mode, nodes2, edges2, src, tag, text))
    return events, emeta


def sig_for(lang, nodes, edges, count, start, mainpos):
    """Which written reference is violated (abstract features only)."""
    sigs = []
    for i, c in enumerate(count):
        if c != 1:
            sigs.append((f"C11/{lang}/{nodes[i]['kind']}/{'lost' if c == 0 else 'duplicated'}", f"{nodes[i]['name']} emitted {c} times"))
    for e in edges:
        a, b = e["src"], e["dst"]
        if a != b and count[a] == 1 and count[b] == 1 and not mainpos[b] < start[a]:
            if nodes[b].get("renamed"):
                # any reference to a serde-renamed type is invisible to the ordering, whatever the carrier
                sigs.append((f"C11/{lang}/renamed-target/use-before-def",
                             f"{nodes[a]['name']} (line {start[a]}) uses serde-renamed {nodes[b]['name']} defined later (line {mainpos[b]})"))
                continue
            sigs.append((f"C11/{lang}/{e['carrier']}{'+override-for-' + e['ovr'] if e.get('ovr', 'none') != 'none' else ''}/{e['wrapper']}/{'renamed' if nodes[b].get('renamed') else 'plain'}"
                         f"/{nodes[b]['kind']}/use-before-def",
                         f"{nodes[a]['name']} (line {start[a]}) uses {nodes[b]['name']} through {e['carrier']}/{e['wrapper']} "
                         f"but {nodes[b]['name']} is defined at line {mainpos[b]}"))
    return sigs or [(f"C11/{lang}/unclassified", "Trace_C11 rejects the order")]


def validate(chk, events, emeta, label):
    nbad = 0
    base = 0
    for part in common.chunks(list(range(len(events))), 20000):
        ok, matched, tres = common.trace_validate("Trace_C11", [events[i] for i in part], timeout=1500)
        chk.add_tlc(f"Trace_C11[{label}]", tres)
        if matched != len(part):
            raise ToolError(f"Trace_C11 consumed {matched}/{len(part)}")
        for b in tres.bad:
            idx = part[b - 1]
            e, m = events[idx], emeta[idx]
            nbad += 1
            if e["ev"] == "prog":
                lang, nodes, edges, src, tag, out = m
                for sig, what in sig_for(lang, nodes, edges, e["count"], e["start"], e["main"]):
                    chk.mismatch(sig, what, {"nodes": nodes, "edges": edges, "lang": lang, "src": src}, "Topsort!IntervalOk", {"start": e["start"], "main": e["main"], "count": e["count"]})
            elif e["ev"] == "graph":
                chk.mismatch("C11/toposort_impl/" + ("perm" if sorted(e["order"]) != list(range(1, len(e["adj"]) + 1)) else "order"),
                             f"toposort_impl({e['adj']}) = {e['order']}", {"adj": e["adj"]}, "Topsort!OrderOk", e["order"])
            else:
                chk.mismatch("C11/sort_by_indices", f"sort_by_indices(0..n, {e['perm']}) = {e['out']}", {"perm": e["perm"]}, e["perm"], e["out"])
    chk.traces += len(events) - nbad
    for e in events:
        chk.judged(str((e.get("adj"), e.get("perm"), e.get("edges"), e.get("start"))))


def random_program(rng, n, cyclic):
    kinds = []
    for _ in range(n):
        kinds.append(rng.choice(["struct", "struct", "tagged_enum", "alias", "unit_enum", "const"]))
    names = [f"N{idx:02d}" for idx in rng.sample(range(10, 99), n)]
    nodes = [{"name": names[i], "kind": kinds[i], "renamed": rng.random() < 0.15 and kinds[i] != "const"} for i in range(n)]
    order = list(range(n))
    rng.shuffle(order)
    rank = {v: i for i, v in enumerate(order)}
    edges = []
    for a in range(n):
        k = kinds[a]
        if k == "unit_enum":
            continue
        maxe = {"struct": 3, "tagged_enum": 3, "alias": 1, "const": 1}[k]
        for _ in range(rng.randint(0, maxe)):
            b = rng.randrange(n)
            if not cyclic and rank[b] >= rank[a]:
                continue
            if nodes[b]["kind"] == "const":
                continue
            carrier = {"struct": "field", "alias": "alias", "const": "const"}.get(k) or rng.choice(["newtype", "vfield"])
            wrappers = ["direct", "array"] if k == "const" else ["direct", "vec", "option", "mapk", "mapv", "array", "slice", "garg", "garg_unknown", "garg_nested",
                                                                    "option_vec", "vec_option", "option_mapv", "option_garg"]
            ovr = rng.choice(["scala", "typescript", "go"]) if carrier in ("field", "vfield") and rng.random() < 0.15 else "none"
            edges.append({"src": a, "dst": b, "carrier": carrier, "wrapper": rng.choice(wrappers), "ovr": ovr})
    return nodes, edges


def run(chk):
    thorough = chk.tier == "thorough"
    chk.rule = ("spec->impl: all digraphs on " + ("4" if thorough else "3") + " nodes (ascending and descending neighbour order) "
                "through the real toposort_impl; all index permutations up to " + ("7" if thorough else "5") + " through the real "
                "sort_by_indices; all two-item programs A->B over carrier x container x renamed x kind(B) in 5 languages; "
                "impl->spec: random programs of 3..12 items (DAG and cyclic) with random placements. Every event judged by TLC.")
    chk.assumptions = ["definition positions are read by the extractors (line of the main definition; start of the item's group)",
                       "an item's group = its main definition plus the helper structs typeshare derives for its struct variants"]
    res = common.run_tlc("MC_C11", cfg="MC_C11_thorough" if thorough else "MC_C11_quick", workers=8, timeout=1500, heap="8g")
    chk.add_tlc("MC_C11", res)
    chk.exhaustive = True
    graphs = [c for c in res.replays if c["mode"] == "graph"]
    perms = [c for c in res.replays if c["mode"] == "perm"]
    progs = [c for c in res.replays if c["mode"] == "prog"]
    if not (graphs and perms and progs):
        raise ToolError("missing case family")
    # (a)+(b) straight into the real private algorithms
    jobs, meta = [], []
    for c in graphs:
        for key in ("asc", "desc"):
            jobs.append({"id": len(jobs), "op": "toposort", "graph": [[x - 1 for x in row] for row in c[key]]})
            meta.append(("graph", c[key], c["predict_" + key]))
    for c in perms:
        jobs.append({"id": len(jobs), "op": "sort_by_indices", "indices": [x - 1 for x in c["perm"]]})
        meta.append(("perm", c["perm"], c["predict"]))
    events, emeta = [], []
    for r, (kind, inp, pred) in zip(common.run_driver("topsort", jobs), meta):
        if r["status"] != "ok":
            chk.mismatch(f"C11/{kind}/panic", f"{kind} {inp}: {r.get('panic')}", {"input": inp}, "no panic", r.get("panic"))
            continue
        out = [x + 1 for x in r["out"]]
        if out != pred:
            chk.model_drift(f"M_Topsort predicts {pred} for {kind} {inp}, real code gives {out}")
        events.append({"ev": "graph", "adj": inp, "order": out} if kind == "graph" else {"ev": "perm", "perm": inp, "out": out})
        emeta.append(None)
    chk.sample({"graph": graphs[len(graphs) // 2]["asc"], "model_order": graphs[len(graphs) // 2]["predict_asc"]})
    chk.sample({"perm": perms[-1]["perm"]})
    validate(chk, events, emeta, "algorithms")

    # (c) two-item programs, every placement
    programs = []
    akind = {"field": "struct", "newtype": "tagged_enum", "vfield": "tagged_enum", "alias": "alias", "const": "const"}
    predicted_missed = 0
    for c in progs:
        p = c["prog"]
        nodes = [{"name": "Aaa1", "kind": akind[p["carrier"]], "renamed": False},
                 {"name": {"upper": "Bbb2", "lower_snake": "bbb_t", "underscore": "_Bbb", "prefix_of_a": "Aaa", "extends_a": "Aaa11", "case_of_a": "AAA1"}[p.get("bname", "upper")], "kind": p["bkind"], "renamed": p["renamed"]}]
        if p.get("twin"):
            # two more items that share a Rust identifier (Ccc3 and v2::Ccc3 renamed Ccc3Twin); nothing refers to them, so which of
            # the two a bare `Ccc3` would designate (C09's business) plays no part
            nodes.append({"name": "Ccc3", "kind": p["bkind"], "renamed": False})
            nodes.append({"name": "Ccc3Twin", "rust_name": "Ccc3", "kind": p["bkind"], "renamed": False})
        programs.append((nodes, [{"src": 0, "dst": 1, "carrier": p["carrier"], "wrapper": p["wrapper"], "ovr": p["ovr"]}], c["collected"]))
        predicted_missed += 0 if c["collected"] else 1
    chk.extra["model_predicts_uncollected_placements"] = predicted_missed
    chk.sample({"program": render.program(build_program(*programs[7][:2])[0])})
    events, emeta = run_programs(chk, programs)
    validate(chk, events, emeta, "placements")

    # (d) three-item programs: two references in one item, through composed containers (MC_C11!Progs2)
    programs = []
    for c in [c for c in res.replays if c["mode"] == "prog2"]:
        nodes = [{"name": "Aaa1", "kind": akind[c["carrier"]], "renamed": False}, {"name": "Bbb2", "kind": "struct", "renamed": False}, {"name": "Ccc3", "kind": "struct", "renamed": False}]
        second = 1 if c["same_target"] else 2
        programs.append((nodes, [{"src": 0, "dst": 1, "carrier": c["carrier"], "wrapper": c["w1"], "ovr": "none", "same_variant": c["carrier"] == "vfield"},
                                 {"src": 0, "dst": second, "carrier": c["carrier"], "wrapper": c["w2"], "ovr": "none", "same_variant": c["carrier"] == "vfield"}], None))
    events, emeta = run_programs(chk, programs)
    validate(chk, events, emeta, "two-references")
    # the same programs next to generic items whose PARAMETER is named like the referenced item Bbb2: an alias that is walked before every
    # other item (Aaa0) and a struct that is walked between them (Aab1x)
    shadowed = [(nodes + [{"name": "Aaa0", "kind": "shadow_alias", "param": "Bbb2", "renamed": False},
                          {"name": "Aaa0s", "kind": "shadow_struct", "param": "Bbb2", "renamed": False}], edges, m) for nodes, edges, m in programs]
    events, emeta = run_programs(chk, shadowed)
    validate(chk, events, emeta, "two-references[next to parameters named like an item]")
    for mode in ("single", "folder"):          # ... and through the real binary, both output modes
        events, emeta = run_programs_cli(chk, programs[::2] if not thorough else programs, mode)
        validate(chk, events, emeta, "two-references[cli-" + mode + "]")

    # (e) long chains (MC_C11!ChainLens): through the real toposort_impl as a path graph, and as a program of aliases
    events, emeta, programs = [], [], []
    for c in [c for c in res.replays if c["mode"] == "chain"]:
        n = int(c["len"])
        # node i refers to node i+1; head_first: the head is node 1 (the walk starts there), leaf_first: the head is node n
        adj = [[i + 2] if i + 1 < n else [] for i in range(n)] if c["dir"] == "head_first" else [[i] if i > 0 else [] for i in range(n)]
        r = common.run_driver("topsort", [{"id": 0, "op": "toposort", "graph": [[x - 1 for x in row] for row in adj]}])[0]
        if r["status"] != "ok":
            chk.mismatch(f"C11/chain/panic", f"toposort_impl on a chain of {n}: {r.get('panic')}", {"adj": adj}, "no panic", r.get("panic"))
            continue
        events.append({"ev": "graph", "adj": adj, "order": [x + 1 for x in r["out"]]})
        emeta.append(None)
        names = [f"L{j:03}" for j in range(n)] if c["dir"] == "head_first" else [f"L{n - 1 - j:03}" for j in range(n)]
        nodes = [{"name": nm, "kind": "alias", "renamed": False} for nm in names]
        programs.append((nodes, [{"src": j, "dst": j + 1, "carrier": "alias", "wrapper": "vec", "ovr": "none"} for j in range(n - 1)], None))
    validate(chk, events, emeta, "chains")
    events, emeta = run_programs(chk, programs)
    validate(chk, events, emeta, "chain-programs")

    # impl -> spec: random larger programs
    rng = chk.rng
    programs = []
    for _ in range(1500 if thorough else 150):
        n = rng.randint(3, 12)
        nodes, edges = random_program(rng, n, cyclic=rng.random() < 0.3)
        programs.append((nodes, edges, None))
    events, emeta = run_programs(chk, programs)
    validate(chk, events, emeta, "random")


def replay(chk, rec):
    c = rec["case"]
    if "nodes" in c:
        events, emeta = run_programs(chk, [(c["nodes"], [e for e in c["edges"] if not e.get("implicit")], None)])
        keep = [(e, m) for e, m in zip(events, emeta) if m[0] == c["lang"]]
        validate(chk, [k[0] for k in keep], [k[1] for k in keep], "replay")
        chk.mismatches = {k: v for k, v in chk.mismatches.items() if k == rec["signature"]}
    elif "adj" in c:
        r = common.run_driver("topsort", [{"id": 0, "op": "toposort", "graph": [[x - 1 for x in row] for row in c["adj"]]}])[0]
        validate(chk, [{"ev": "graph", "adj": c["adj"], "order": [x + 1 for x in r["out"]]}], [None], "replay")
    elif "perm" in c:
        r = common.run_driver("topsort", [{"id": 0, "op": "sort_by_indices", "indices": [x - 1 for x in c["perm"]]}])[0]
        validate(chk, [{"ev": "perm", "perm": c["perm"], "out": [x + 1 for x in r["out"]]}], [None], "replay")
