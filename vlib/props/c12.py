"""C12: every helper name typeshare introduces into a file is defined or imported there.

P = spec/Helpers.tla (Vocabulary, Ok)
spec->impl: MC_C12 enumerates trigger type ((), u8/u16/u32/U53, OffsetDateTime, generic parameter, mapped Vec<u8>, mapped
            date type, user enum) x container chain (depth <= 2 quick / 3 thorough) x position (field, payload, alias,
            struct-variant field, generic argument) x a second trigger elsewhere in the file; generated in 6 languages;
            multi-file mode through the real binary (Swift's shared Codable.swift).
impl->spec: each generated file is an event (identifiers used, names defined/imported, generic parameters, helper
            functions referenced) judged by Trace_C12; Python files are additionally imported under a stub pydantic with
            every type hint forced - an unresolved helper name there is the same violation seen by CPython.
"""
import json
import os
import subprocess

from .. import cli, common, observe
from ..common import ToolError
from ..extract import swift as x_swift

NEEDS = ["driver", "cli"]
MAPPINGS = {
    "typescript": {"Vec<u8>": "Uint8Array", "DateAlias": "Date"},
    "python": {"Vec<u8>": "bytes", "DateAlias": "datetime"},
    "go": {"DateAlias": "time.Time"},
    "kotlin": {"DateAlias": "String"}, "swift": {"DateAlias": "Date"}, "scala": {"DateAlias": "String"},
}
TRIGGER = {"unit": "()", "u8": "u8", "u16": "u16", "u32": "u32", "U53": "U53", "datetime": "OffsetDateTime", "generic_param": "T",
           "mapped_bytes": "Vec<u8>", "mapped_date": "DateAlias", "user_enum": "Color"}


def wrap(chain, t):
    for w in reversed(chain):
        t = {"vec": f"Vec<{t}>", "option": f"Option<{t}>", "mapv": f"HashMap<String, {t}>", "array": f"[{t}; 2]", "garg": f"Gen<{t}>", "box": f"Box<{t}>"}[w]
    return t


def source(c, split=False):
    t = wrap(c["chain"], TRIGGER[c["trigger"]])
    g = "<T>" if c["trigger"] == "generic_param" else ""
    base = "#[typeshare]\npub struct Gen<X> { pub g: X }\n#[typeshare]\npub enum Color { Red, Green }\n"
    pos = c["pos"]
    # MC_C12!Names: the member's own name (f) and its neighbour's (k)
    nm = c.get("name", "plain")
    fa, f_, k_, kt = {"plain": ("", "f", "k", "u32"), "py_keyword": ("", "from", "k", "u32"), "renamed": ('#[serde(rename = "wire-name")] ', "f", "k", "u32"),
                      "kw_all": ("", "from", "pass", "u32"),
                      # the member carries a type override for ONE language (Kotlin): every other language still writes its Rust type. The
                      # neighbour is a bool, so that the member is the only user of whatever helper its type needs
                      "kotlin_override": ('#[typeshare(kotlin(type = "String"))] ', "f", "k", "bool")}[nm]
    if pos == "field":
        host = f"#[typeshare]\npub struct Host{g} {{ {fa}pub {f_}: {t}, pub {k_}: {kt} }}\n"
    elif pos == "field_default":     # the optional marker comes from serde(default), not from the type
        host = f"#[typeshare]\npub struct Host{g} {{ #[serde(default)] {fa}pub {f_}: {t}, pub {k_}: {kt} }}\n"
    elif pos == "vfield_default":
        host = f'#[typeshare]\n#[serde(tag = "t", content = "c")]\npub enum Host{g} {{ Sv {{ #[serde(default)] f: {t}, k: u32 }}, U }}\n'
    elif pos == "garg_pos":
        host = f"#[typeshare]\npub struct Host{g} {{ pub f: Gen<{t}>, pub k: u32 }}\n"
    elif pos == "payload":
        host = f'#[typeshare]\n#[serde(tag = "t", content = "c")]\npub enum Host{g} {{ Pay({t}), U }}\n'
    elif pos == "vfield":
        host = f'#[typeshare]\n#[serde(tag = "t", content = "c")]\npub enum Host{g} {{ Sv {{ {fa}{f_}: {t}, {k_}: {kt} }}, U }}\n'
    else:
        host = f"#[typeshare]\npub type Host{g} = {t};\n"
    other = ""
    if c["second"] != "none":
        g2 = "<T>" if c["second"] == "generic_param" else ""
        other = f"#[typeshare]\npub struct Other{g2} {{ pub o: Option<{TRIGGER[c['second']]}> }}\n"
    return (base + host, other) if split else base + host + other


def event_of(lang, obs, c, extra_provided=()):
    used = obs["idents_used"]
    provided = list(obs.get("helper_defs", [])) + [d["name"] for d in obs["defs"]] + list(extra_provided)
    for imp in obs["imports"]:
        provided += imp["names"]
        provided.append(imp["module"].split("/")[-1].split(".")[-1])
    typevars, funcs, requires = [], [], []
    if lang == "python":
        if "T" in used and (c["trigger"] == "generic_param" or c["second"] == "generic_param"):
            typevars = ["T"]
        funcs = [n for n in used if n.startswith(("serialize_", "deserialize_", "parse_"))]
    # TypeScript: ReviverFunc / ReplacerFunc are what typeshare brings in for a SPECIAL Rust type that a configured mapping renders as a
    # type with a custom JSON translation ("Vec<u8>" = "Uint8Array"): wherever that type stands in the output (field, payload, alias,
    # nested), the file defines both helpers. Not demanded: a USER type mapped to Date (no translation exists; an earlier version of this
    # check demanded the helpers there - a false alarm, removed) and the built-in OffsetDateTime -> Date, whose reviver is keyed by FIELD
    # names and is emitted for whole-field uses only.
    if lang == "typescript" and "mapped_bytes" in (c["trigger"], c["second"]):
        requires = ["ReviverFunc", "ReplacerFunc"]
    # identifiers of the mapping targets that this case really uses (the user's own text)
    import re as _re
    user_names = []
    for trig, rust in (("mapped_date", "DateAlias"), ("mapped_bytes", "Vec<u8>")):
        if trig in (c["trigger"], c["second"]) and rust in MAPPINGS.get(lang, {}):
            user_names += _re.findall(r"[A-Za-z_]\w*", MAPPINGS[lang][rust])
    return {"lang": lang, "used": used, "provided": provided, "typevars": typevars, "functions_used": funcs, "requires": requires,
            "user_names": sorted(set(user_names))}


def missing(ev):
    voc = {"swift": {"CodableVoid"}, "scala": {"UByte", "UShort", "UInt", "ULong"}, "go": {"time", "json"},
           "python": {"List", "Dict", "Optional", "Union", "Literal", "Generic", "TypeVar", "Annotated", "Any", "BaseModel", "Field", "ConfigDict",
                      "BeforeValidator", "PlainSerializer", "Enum", "datetime"}}.get(ev["lang"], set())
    prov = set(ev["provided"])
    own = {"datetime"} if set(ev["functions_used"]) & {"parse_rfc3339", "serialize_datetime_data"} else set()
    users = set(ev.get("user_names", [])) - own
    return sorted((((set(ev["used"]) & voc) - users) | set(ev["typevars"]) | set(ev["functions_used"]) | set(ev["requires"])) - prov)


def run(chk):
    thorough = chk.tier == "thorough"
    chk.rule = ("spec->impl: trigger x container chain (<= " + ("3" if thorough else "2") + ") x position x second trigger (MC_C12), 6 languages, single-file through the "
                "library; multi-file (two crates, either order) through the binary; impl->spec: every file judged by Trace_C12; Python files imported under a stub "
                "pydantic with all type hints forced. distinct = (language, mode, case).")
    chk.assumptions = ["identifiers used / names defined or imported are collected by the extractors (comments, strings and import lines excluded)",
                       "the helper vocabulary per language is Helpers!Vocabulary; Go package qualifiers count as uses of the package name"]
    res = common.run_tlc("MC_C12", cfg="MC_C12_thorough" if thorough else "MC_C12_quick", workers=4, timeout=900, heap="8g")
    chk.add_tlc("MC_C12", res)
    chk.exhaustive = True
    cases = [c for c in res.replays if c["mode"] == "single"]
    multi = [c for c in res.replays if c["mode"] == "multi"]
    if not cases:
        raise ToolError("no cases")
    if not thorough:
        # the second trigger matters when it shares machinery with the first: keep a third of the pairs in quick
        cases = [c for i, c in enumerate(cases) if c["second"] == "none" or i % 3 == 0]
    chk.sample({"case": cases[len(cases) // 2], "source": source(cases[len(cases) // 2])})
    srcs = [source(c) for c in cases]
    cfgs = {l: {"type_mappings": MAPPINGS[l]} for l in common.LANGS}
    results = observe.generate(srcs, cfgs=cfgs, mixed=False)
    events, meta, pyfiles = [], [], []
    work = common.scratch("c12")
    for ci, (c, per) in enumerate(zip(cases, results)):
        for lang in common.LANGS:
            r = per[lang]
            if r["status"] == "error" and not all(e["msg"].startswith("generate:") for e in r["errors"]):
                # not a backend's refusal (generics in Go, ...): the program itself was not accepted - nothing can be observed
                chk.refused(f"{lang}/{c['trigger']}/{c.get('name', 'plain')}", f"{lang}: C12 program rejected: {str(r['errors'])[:200]} (case {c})", {"case": c, "lang": lang})
                continue
            if r["status"] in ("panic", "abort", "hang", "error"):
                continue          # refused by the backend or crashed: other properties' business
            if r["status"] == "unreadable":
                chk.extra.setdefault("unreadable_outputs", {}).setdefault(lang, 0)
                chk.extra["unreadable_outputs"][lang] += 1
                if lang != "python":
                    continue
            if r["status"] == "ok":
                events.append(event_of(lang, r["obs"], c))
                meta.append((lang, "single", c))
            if lang == "python":
                p = os.path.join(work, f"p{ci}.py")
                open(p, "w").write(r["text"])
                pyfiles.append((p, c))
    # Python under CPython + stub pydantic
    pyres = {}
    for part in common.chunks([p for p, _ in pyfiles], 400):
        out = subprocess.run(["python3", "-m", "vlib.pyload"] + part, cwd=common.ROOT, capture_output=True, text=True)
        for line in out.stdout.splitlines():
            rec = json.loads(line)
            pyres[rec["file"]] = rec
    voc_py = {"List", "Dict", "Optional", "Union", "Literal", "Generic", "TypeVar", "Annotated", "Any", "BaseModel", "Field", "ConfigDict", "BeforeValidator",
              "PlainSerializer", "Enum", "datetime", "T"}
    other_failures = {}
    for p, c in pyfiles:
        rec = pyres.get(p)
        if not rec:
            raise ToolError(f"pyload gave no verdict for {p}")
        chk.judged(("python", "cpython", str(c)))
        if rec["status"] in ("import", "hints") and (rec.get("name") in voc_py or (rec.get("name") or "").startswith(("serialize_", "deserialize_", "parse_"))):
            chk.mismatch(f"C12/python/{c['trigger'] if rec['name'] not in ('T',) else 'generic_param'}/cpython-unresolved:{rec['name']}",
                         f"python: importing the generated file fails: {rec['error']} (case {c})", {"case": c, "lang": "python"}, "name defined or imported", rec["error"])
        elif rec["status"] != "ok":
            other_failures[rec["status"]] = other_failures.get(rec["status"], 0) + 1
    chk.extra["python_load_failures_left_to_C10_C11"] = other_failures
    # multi-file mode through the binary: the trigger crate first / last in crate-name order
    mcases = multi if thorough else [dict(c, mode="multi") for c in cases if c["second"] == "none" and len(c["chain"]) <= 1 and c["trigger"] in ("unit", "u8", "datetime", "generic_param")]
    import concurrent.futures as cf

    def do_multi(args):
        k, c = args
        out_ev = []
        # the other crate: needs nothing (first / last), needs the same helpers itself (both), or holds nothing but a user alias and
        # comes first (alias_first): every module defines or imports what IT uses, whatever the modules before it did
        for order in ("first", "last", "both", "alias_first"):
            for lang in (["swift", "scala", "python", "go"] if thorough else ["swift", "python", "scala"]):
                d = os.path.join(work, f"m{k}{order}{lang}")
                a, b = ("zzz", "aaa") if order in ("last", "alias_first") else ("aaa", "zzz")
                other = {"both": source(c), "alias_first": "#[typeshare]\npub type OnlyAlias = Vec<String>;\n"}.get(order, "#[typeshare]\npub struct Plain { pub p: String }\n")
                cli.make_tree(d, {f"{a}/src/lib.rs": source(c), f"{b}/src/lib.rs": other})
                open(os.path.join(d, "typeshare.toml"), "w").write("".join(f"[{l}.type_mappings]\n" + "".join(f'"{x}" = "{y}"\n' for x, y in m.items()) for l, m in MAPPINGS.items()))
                args_ = ["-l", lang, "-c", os.path.join(d, "typeshare.toml"), "-d", os.path.join(d, "out"), d]
                args_ += {"scala": ["--scala-package", "com.x"], "go": ["--go-package", "p"]}.get(lang, [])
                r = cli.run_cli(args_, timeout=20)
                if r["exit"] != "ok":
                    continue
                shared = []
                cod = os.path.join(d, "out", "Codable.swift")
                if os.path.exists(cod):
                    try:
                        shared = x_swift.extract(open(cod).read(), strict_keywords=False).get("helper_defs", [])
                    except Exception:  # noqa
                        shared = []
                for fn in sorted(os.listdir(os.path.join(d, "out"))):
                    if fn == "Codable.swift":
                        continue
                    try:
                        obs = observe.extract(lang, open(os.path.join(d, "out", fn)).read())
                    except Exception:  # noqa
                        continue
                    out_ev.append((event_of(lang, obs, c, shared), (lang, f"multi-{order}", c)))
        return out_ev

    with cf.ThreadPoolExecutor(max_workers=12) as ex:
        for lst in ex.map(do_multi, enumerate(mcases)):
            for ev, m in lst:
                events.append(ev)
                meta.append(m)
    nbad = 0
    for part in common.chunks(list(range(len(events))), 20000):
        ok, matched, tres = common.trace_validate("Trace_C12", [events[i] for i in part], timeout=1200, heap="8g")
        chk.add_tlc("Trace_C12", tres)
        if matched != len(part):
            raise ToolError(f"Trace_C12 consumed {matched}/{len(part)}")
        for b in tres.bad:
            ev = events[part[b - 1]]
            lang, mode, c = meta[part[b - 1]]
            nbad += 1
            for name in missing(ev) or ["?"]:
                depth = len(c["chain"])
                chk.mismatch(f"C12/{lang}/{mode.split('-')[0]}/{name}/{c['pos'] if depth == 0 else 'anypos'}/depth{min(depth, 2)}{'+' if depth >= 2 else ''}/used-undefined",
                             f"{lang} ({mode}): `{name}` is used but neither defined nor imported; case {c}", {"case": c, "lang": lang, "mode": mode},
                             "defined or imported", f"missing {name}")
    chk.traces += len(events) - nbad
    chk.extra["trace_events"] = len(events)
    for ev, m in zip(events, meta):
        chk.judged((m[0], m[1], str(m[2])))


def replay(chk, rec):
    c = rec["case"]["case"]
    lang = rec["case"]["lang"]
    r = observe.generate([source(c)], langs=[lang], cfgs={lang: {"type_mappings": MAPPINGS[lang]}}, mixed=False)[0][lang]
    if r["status"] == "ok":
        ev = event_of(lang, r["obs"], c)
        ok, matched, tres = common.trace_validate("Trace_C12", [ev])
        if tres.bad:
            chk.mismatch(rec["signature"], rec["what"], rec["case"], rec["expected"], missing(ev))
