"""C14: multi-file mode partitions types by crate and imports cross-crate references.

P = spec/Workspace.tla (FileName, PartitionOk, ImportsOk) + same definitions as single-file mode
spec->impl: MC_C14 enumerates a consumer crate that references a provider type through every use / path form (single,
            grouped, nested with self, glob, qualified path, crate::/super::/self:: paths, use of the crate root, a
            qualified generic with a qualified argument, use .. as) x provider directory name (plain, dashed, digit) x
            depth of the consumer file under src x target carries serde(rename) x a same-named type in a third crate;
            each workspace is run with the real binary in folder mode and in single-file mode for 6 languages.
impl->spec: each folder run is an event (per file: definitions, user types used, imports; required placement;
            single-file definitions) judged by Trace_C14.
"""
import os

from .. import cli, common, observe
from ..common import ToolError

NEEDS = ["cli"]
LANG_ARGS = {"typescript": [], "kotlin": ["--java-package", "com.x"], "swift": [], "scala": ["--scala-package", "com.x"],
             "go": ["--go-package", "p"], "python": []}


def workspace(c):
    """-> (files, types: name -> crate role, designated: name -> role)"""
    pcrate = c["dir"].replace("-", "_")
    ren = '#[serde(rename = "TargetRenamed")]\n' if c["renamed"] else ""
    prov = f"#[typeshare]\n{ren}pub struct Target {{ pub t: u32 }}\n#[typeshare]\npub struct Other {{ pub o: u32, pub unit: () }}\n#[typeshare]\npub struct Gen<X> {{ pub g: X }}\n"
    files = {f"{c['dir']}/src/lib.rs": "pub mod m;\n", f"{c['dir']}/src/m.rs": prov}
    third = "#[typeshare]\npub struct Third { pub z: u32 }\n"
    if c["dup"]:
        ren3 = '#[serde(rename = "ThirdTarget")]\n' if c.get("dup_renamed") else ""
        third += f"#[typeshare]\n{ren3}pub struct Target {{ pub from_third: bool }}\n"
    files["third/src/lib.rs"] = third
    form = c["form"]
    ty = "Target"
    local = ""
    uses = {
        "use_single": f"use {pcrate}::m::Target;\n",
        "use_group": f"use {pcrate}::m::{{Target, Other}};\n",
        "use_nested_self": f"use {pcrate}::m::{{self, Target}};\n",
        # a type FOLLOWED by leaves that are not types (a function, `self`, a nested path to a function) in the same group
        "use_group_then_fn": f"use {pcrate}::m::{{Target, helper_fn}};\n",
        "use_group_then_self": f"use {pcrate}::m::{{Target, self}};\n",
        "use_group_then_nested_fn": f"use {pcrate}::{{m::Target, m::util::helper_fn, m::Other}};\n",
        "use_deep_group": f"use {pcrate}::{{m::{{Target, Other}}, m}};\n",
        "use_glob": f"use {pcrate}::m::*;\n",
        # through a crate of the workspace that re-exports the type and has typeshared types of its own, but does not define Target
        "use_via_facade": "use facade::Target;\n",
        "use_alias": f"use {pcrate}::m::Target as Renamed;\nuse {pcrate}::m::Target;\n",
        "qualified": "",
        "generic_qualified": "",
        "use_crate": "use crate::local::Target;\n",
        "crate_path": "", "super_path": "", "self_path": "",
    }[form]
    if form == "qualified":
        ty = f"{pcrate}::m::Target"
    elif form == "generic_qualified":
        ty = f"{pcrate}::m::Gen<{pcrate}::m::Target>"
    elif form == "crate_path":
        ty = "crate::local::Target"
    elif form == "super_path":
        ty = "super::local::Target"
    elif form == "self_path":
        ty = "self::local::Target"
    same_crate = form in ("crate_path", "super_path", "self_path", "use_crate")
    # MC_C14!Shapes: the consumer's ONLY references to the type
    shape = c.get("shape", "plain_and_vec")
    members = {"plain_and_vec": f"pub r: {ty}, pub list: Vec<{ty}>", "map_key": f"pub r: HashMap<{ty}, String>", "map_val": f"pub r: HashMap<String, {ty}>",
               "gen_first": f"pub r: Pair<{ty}, String>", "gen_last": f"pub r: Pair<String, {ty}>",
               "gen_nested_first": f"pub r: Vec<Pair<Option<{ty}>, Vec<u32>>>",
               # the only reference carries a type override for ONE language (Swift): every other language still writes - and imports - the type
               "swift_override": f'#[typeshare(swift(type = "Date"))] pub r: {ty}'}[shape]
    consumer = uses + f"#[typeshare]\npub struct Consumer {{ {members} }}\n"
    if shape.startswith("gen_"):
        consumer += "#[typeshare]\npub struct Pair<A, B> { pub a: A, pub b: B }\n"
    if c.get("shadow"):
        consumer += "#[typeshare]\npub struct Wrapper<Target> { pub w: Target, pub more: Vec<Target> }\n"
    path = {"lib": "consumer/src/lib.rs", "deep": "consumer/src/a/b.rs", "deeper": "consumer/src/x/y/z/w.rs"}[c["depth"]]
    files[path] = consumer
    if c.get("second_file"):
        # a second source file of the consumer crate, bringing in a type of the THIRD crate the same way
        use2 = {"use_glob": "use third::*;\n", "qualified": ""}.get(form, "use third::Third;\n")
        ty2 = "third::Third" if form == "qualified" else "Third"
        files["consumer/src/more.rs"] = use2 + f"#[typeshare]\npub struct Consumer2 {{ pub z: {ty2}, pub zs: Option<{ty2}> }}\n"
    if form == "use_via_facade":
        files["facade/src/lib.rs"] = f"pub use {pcrate}::m::Target;\n#[typeshare]\npub struct FacadeOwn {{ pub f: u32 }}\n"
    if same_crate:
        files["consumer/src/local.rs"] = f"#[typeshare]\n{ren}pub struct Target {{ pub local: u32 }}\n"
    return files, same_crate


def used_names(obs):
    from .c09 import leaves
    out = []
    for d in obs["defs"]:
        for m in d.get("members", []):
            leaves(m["ty"], out)
        for v in d.get("variants", []):
            if v.get("ty"):
                leaves(v["ty"], out)
            for m in v.get("members", []) or []:
                leaves(m["ty"], out)
        if d.get("target"):
            leaves(d["target"], out)
    return sorted(set(out))


def run_workspace(work, idx, c, exp_files, lang):
    files, same_crate = workspace(c)
    prefix = ["--kotlin-prefix", "Pre"] if lang == "kotlin+prefix" else []
    lang = lang.split("+")[0]
    d = os.path.join(work, f"w{idx}{lang}{len(prefix)}")
    # MC_C14!RootPath: the workspace may lie below directories that are called src themselves
    ws = os.path.join(d, *{"plain": ["ws"], "under_src": ["src", "ws"], "under_src_twice": ["src", "tmp", "src", "ws"], "cwd_dot": ["ws"], "cwd_dot_src": ["ws"]}[c.get("root", "plain")])
    cli.make_tree(ws, files)
    out = os.path.join(d, "out")
    roots, cwd = [ws], None
    if c.get("root") in ("cwd_dot", "cwd_dot_src"):
        # MC_C14!Roots: typeshare is run from INSIDE the consumer crate: its own sources are `.` (or `./src`), the other crates `../<crate>`
        cwd = os.path.join(ws, "consumer")
        others = sorted({f.split("/")[0] for f in files} - {"consumer"})
        roots = ["." if c["root"] == "cwd_dot" else "./src"] + [os.path.join("..", o) for o in others]
    r = cli.run_cli(["-l", lang] + LANG_ARGS[lang] + prefix + ["-d", out] + roots, timeout=20, cwd=cwd)
    single = os.path.join(d, "single." + common.EXT[lang])
    r1 = cli.run_cli(["-l", lang] + LANG_ARGS[lang] + prefix + ["-o", single] + roots, timeout=20, cwd=cwd)
    return c, lang, files, same_crate, r, r1, out, single


def run(chk):
    thorough = chk.tier == "thorough"
    chk.rule = ("spec->impl: use/path form x provider directory name x consumer file depth x renamed target x same-named type in a third crate (MC_C14); each "
                "workspace run with the real binary in folder mode and single-file mode, 6 languages; impl->spec: per run, the definitions / used types / imports of every "
                "generated file, the required placement and the single-file definitions are judged by Trace_C14. distinct = (language, case).")
    chk.assumptions = ["definitions, used user types and import statements are read back by the extractors; a TypeScript import from \"./x\" and a Kotlin import "
                       "pkg.x.T both designate the generated file of crate x",
                       "when two crates define the same name, the use statement / qualified path of the source designates which one must be imported"]
    res = common.run_tlc("MC_C14", cfg="MC_C14_thorough" if thorough else "MC_C14_quick", workers=2, timeout=300)
    chk.add_tlc("MC_C14", res)
    chk.exhaustive = True
    cases = res.replays
    if not cases:
        raise ToolError("no cases")
    mid = cases[len(cases) // 2]
    chk.sample({"case": mid["case"], "required_files": mid["files"]["swift"], "workspace": workspace(mid["case"])[0]})
    work = common.scratch("c14")
    import concurrent.futures as cf
    jobs = [(i, c, lang) for i, c in enumerate(cases) for lang in common.LANGS + ["kotlin+prefix"]]
    events, meta = [], []
    with cf.ThreadPoolExecutor(max_workers=12) as ex:
        results = list(ex.map(lambda a: run_workspace(work, a[0], a[1]["case"], a[1]["files"], a[2]), jobs))
    for (i, cc, lang_v), (c, lang, files, same_crate, r, r1, out, single) in zip(jobs, results):
        pre = "Pre" if lang_v.endswith("+prefix") else ""
        if r["exit"] in ("panic", "timeout") or r1["exit"] in ("panic", "timeout"):
            continue
        if r["exit"] != "ok" or r1["exit"] != "ok":
            chk.refused(f"{lang}/{c['form']}", f"{lang}: typeshare failed on workspace {c}: {r['stderr'][-200:].strip()} {r1['stderr'][-100:].strip()}", {"case": c, "lang": lang})
            continue
        exp = cc["files"][lang]
        tname = pre + ("TargetRenamed" if c["renamed"] else "Target")
        fobs, unreadable, helpers_folder = [], False, []
        for fn in sorted(os.listdir(out)):
            if fn == "Codable.swift":
                try:
                    helpers_folder += observe.extract(lang, open(os.path.join(out, fn)).read()).get("helper_defs", [])
                except Exception:  # noqa
                    pass
                continue
            try:
                o = observe.extract(lang, open(os.path.join(out, fn)).read())
            except Exception as e:  # noqa
                unreadable = True
                break
            imports = []
            for imp in o["imports"]:
                if lang == "typescript" and imp["module"].startswith("./"):
                    imports += [{"file": imp["module"][2:] + ".ts", "name": n} for n in imp["names"]]
                elif lang == "kotlin" and imp["module"].startswith("com.x."):
                    imports += [{"file": imp["module"].split(".")[-1] + ".kt", "name": n} for n in imp["names"]]
            helpers_folder += o.get("helper_defs", [])
            fobs.append({"file": fn, "defs": [d["name"] for d in o["defs"]], "used": used_names(o), "imports": imports})
        if unreadable:
            chk.extra["unreadable_outputs"] = chk.extra.get("unreadable_outputs", 0) + 1
            continue
        try:
            so = observe.extract(lang, open(single).read())
        except Exception:  # noqa
            chk.extra["unreadable_outputs"] = chk.extra.get("unreadable_outputs", 0) + 1
            continue
        expected = ([{"name": pre + "Consumer2", "file": exp["consumer"]}] if c.get("second_file") else []) + ([{"name": pre + "Wrapper", "file": exp["consumer"]}] if c.get("shadow") else []) + ([{"name": pre + "Pair", "file": exp["consumer"]}] if c.get("shape", "").startswith("gen_") else []) + [{"name": pre + "Consumer", "file": exp["consumer"]}, {"name": pre + "Third", "file": exp["third"]}, {"name": pre + "Other", "file": exp["provider"]}]
        clash = c["dup"] and not c.get("dup_renamed")          # a renamed third-crate type has another name in the output
        if c.get("dup_renamed"):
            expected.append({"name": pre + "ThirdTarget", "file": exp["third"]})
        if not clash and not same_crate:
            expected.append({"name": tname, "file": exp["provider"]})
        designated = {}
        if clash or same_crate:
            designated[tname] = exp["consumer"] if same_crate else exp["provider"]
        if same_crate:
            designated = {tname: exp["consumer"]}          # designated as the consumer crate's own type: no import at all
        events.append({"lang": lang, "files": fobs, "expected": expected, "single_defs": [d["name"] for d in so["defs"]], "designated": designated,
                       "helpers_single": sorted(set(so.get("helper_defs", []))), "helpers_folder": sorted(set(helpers_folder))})
        meta.append((lang_v, c, fobs, expected))
    ok, matched, tres = common.trace_validate("Trace_C14", events, timeout=900)
    chk.add_tlc("Trace_C14", tres)
    if matched != len(events):
        raise ToolError(f"Trace_C14 consumed {matched}/{len(events)}")
    for b in tres.bad:
        e = events[b - 1]
        lang, c, fobs, expected = meta[b - 1]
        kinds = []
        alld = [n for f in fobs for n in f["defs"]]
        for x in expected:
            homes = [f["file"] for f in fobs if x["name"] in f["defs"]]
            if homes != [x["file"]]:
                kinds.append("wrong-file" if homes else "missing-def")
        if sorted(alld) != sorted(e["single_defs"]):
            kinds.append("defs!=single-file")
        if e["helpers_single"] != e["helpers_folder"]:
            kinds.append("helper-defs!=single-file")
        if lang.split("+")[0] in ("typescript", "kotlin"):
            for f in fobs:
                for n in set(f["used"]) - set(f["defs"]):
                    definers = [g["file"] for g in fobs if n in g["defs"] and g is not f]
                    imps = [i["file"] for i in f["imports"] if i["name"] == n]
                    if definers and not imps:
                        kinds.append("missing-import")
                    elif definers and not set(imps) & set(definers):
                        kinds.append("import-from-wrong-module")
                    elif definers and n in e["designated"] and e["designated"][n] not in imps:
                        kinds.append("import-from-wrong-module")
                for i in f["imports"]:
                    if not any(g["file"] == i["file"] and i["name"] in g["defs"] for g in fobs):
                        kinds.append("import-of-undefined")
                    if e["designated"].get(i["name"]) == f["file"] and i["name"] in f["defs"]:
                        kinds.append("own-type-imported-from-elsewhere")
        for kind in sorted(set(kinds)) or ["unclassified"]:
            chk.mismatch(f"C14/{lang}/{'' if c.get('root', 'plain') == 'plain' else 'root=' + c['root'] + '/'}{c['form']}{'+shadowing-generic-parameter' if c.get('shadow') else ''}{'' if c.get('shape', 'plain_and_vec') == 'plain_and_vec' else '+only-reference=' + c['shape']}{'+second-file-importing-another-crate' if c.get('second_file') else ''}/{'renamed' if c['renamed'] else 'plain'}/{('dup-renamed' if c.get('dup_renamed') else 'dup') if c['dup'] else 'nodup'}/{kind}",
                         f"{lang}: {kind} for workspace {c}: files {fobs}", {"case": c, "lang": lang}, "Workspace!PartitionOk /\\ ImportsOk", fobs)
    chk.traces += len(events) - len(tres.bad)
    chk.extra["trace_events"] = len(events)
    for e, m in zip(events, meta):
        chk.judged((m[0], str(m[1])))


def replay(chk, rec):
    run(chk)
    chk.mismatches = {k: v for k, v in chk.mismatches.items() if k == rec["signature"]}
