"""C20: CLI options override typeshare.toml; generated config files round-trip.

P  = spec/Config.tla (Effective, RunConforms, GenConfigConforms, RoundTrips)
M  = MC_C20!MOverride (override_configuration), checked equal to P by TLC on the whole matrix
spec->impl: MC_C20 enumerates the full {absent,present}^2 matrix of the five dual settings (1024 cells) x config
            discovery (-c flag; typeshare.toml in cwd / parent / grandparent); each cell is run with the real binary
            for every language that exposes one of the settings, plus -g, reload of the generated file and a second
            -g onto the existing file.
impl->spec: every run is an event (options, file, language, what the generated code / TOML shows) judged by
            Trace_C20; file-only tables (type_mappings, decorators, constraints, acronyms, no_pointer_slice) ride
            along in every file and must show up unchanged.
"""
import os
import tomllib

from .. import cli, common
from ..common import ToolError
from ..extract import go as x_go, kt as x_kt, scala as x_scala, swift as x_swift, ts as x_ts

NEEDS = ["cli"]
SETTINGS = ["swift_prefix", "kotlin_prefix", "java_package", "scala_package", "go_package"]
OPT = {"swift_prefix": "--swift-prefix", "kotlin_prefix": "--kotlin-prefix", "java_package": "--java-package",
       "scala_package": "--scala-package", "go_package": "--go-package"}
TOML_KEY = {"swift_prefix": ("swift", "prefix"), "kotlin_prefix": ("kotlin", "prefix"), "java_package": ("kotlin", "package"),
            "scala_package": ("scala", "package"), "go_package": ("go", "package")}
EXPOSES = {"swift": ["swift_prefix"], "kotlin": ["kotlin_prefix", "java_package"], "scala": ["scala_package"], "go": ["go_package"]}
SRC = ("#[typeshare]\npub struct Foo { pub user_id: u32, pub m: Mapped, pub list: Option<Vec<u32>>, pub home_url: String, pub m2: Mapped2, pub unit: (),\n"
       "    pub id2: u32, pub url_2: String, pub by_account: HashMap<AccountId, u32>, pub page: Gen<AccountId> }\n"
       "#[typeshare]\npub struct Gen<T> { pub v: T }\n#[typeshare]\npub struct AccountId { pub v: u32 }\n"
       # generic items one of whose parameters ALSO carries constraints of its own: the configured defaults apply to every parameter
       '#[typeshare(swiftGenericConstraints = "A: Equatable")]\npub struct Ann<A, B> { pub a: A, pub b: B }\n'
       '#[typeshare(swiftGenericConstraints = "T: Equatable")]\n#[serde(tag = "t", content = "c")]\npub enum Look<T> { Hit { v: T }, Miss }\n')
# MC_C20!TableProfiles: the file-only tables written into every configuration file of a cell
PROFILES = {
    "basic": {
        "swift": {"type_mappings": {"Mapped": "SwiftMapped"}, "default_decorators": ["Sendable"], "default_generic_constraints": ["Hashable"]},
        "kotlin": {"type_mappings": {"Mapped": "KotlinMapped"}},
        "scala": {"type_mappings": {"Mapped": "ScalaMapped"}},
        "typescript": {"type_mappings": {"Mapped": "TsMapped"}},
        "go": {"type_mappings": {"Mapped": "GoMapped"}, "uppercase_acronyms": ["ID"], "no_pointer_slice": True},
        "python": {"type_mappings": {"Mapped": "PyMapped"}},
    },
    # lists with several entries, the same entry in more than one list, two mappings
    "overlap": {
        "swift": {"type_mappings": {"Mapped": "SwiftMapped", "Mapped2": "SwiftMapped"}, "default_decorators": ["Sendable", "Hashable"],
                  "default_generic_constraints": ["Sendable", "Hashable"], "codablevoid_constraints": ["Hashable", "Equatable"]},
        "kotlin": {"type_mappings": {"Mapped": "KotlinMapped", "Mapped2": "Second"}},
        "scala": {"type_mappings": {"Mapped": "ScalaMapped", "Mapped2": "Second"}},
        "typescript": {"type_mappings": {"Mapped": "TsMapped", "Mapped2": "TsMapped"}},
        # (the target of the second mapping ends in a word the acronym list re-spells: a mapping target is the user's name, applied unchanged)
        "go": {"type_mappings": {"Mapped": "GoMapped", "Mapped2": "SecondId"}, "uppercase_acronyms": ["URL", "ID"], "no_pointer_slice": False},
        "python": {"type_mappings": {"Mapped": "PyMapped"}},
    },
    # a mapping for a type that is used WITH generic arguments the backend could not (or would otherwise) translate: the mapped name
    # replaces the whole reference, arguments included - nothing about the arguments is looked at
    "generic_mapped": {
        "swift": {"type_mappings": {"Mapped": "SwiftMapped", "Stamped": "SwiftStamp"}},
        "kotlin": {"type_mappings": {"Mapped": "KotlinMapped", "Stamped": "KotlinStamp"}},
        "scala": {"type_mappings": {"Mapped": "ScalaMapped", "Stamped": "ScalaStamp"}},
        # ("Vec<u8>" = "Uint8Array": a special type mapped onto a type with a custom JSON translation, used only as an alias target -
        # applying the mapping includes the reviver / replacer helpers)
        # ("HashMap<String,String>": a mapping keyed by a container INSTANCE, in the spelling the lookup uses - no blank after the comma -,
        # used as an alias target; TypeScript, Go and Python look container instances up)
        "typescript": {"type_mappings": {"Mapped": "TsMapped", "Stamped": "TsStamp", "Vec<u8>": "Uint8Array", "HashMap<String,String>": "TsLabels"}},
        "go": {"type_mappings": {"Mapped": "GoMapped", "Stamped": "GoStamp", "HashMap<String,String>": "GoLabels"}},
        "python": {"type_mappings": {"Mapped": "PyMapped", "HashMap<String,String>": "PyLabels"}},
    },
    # one entry lists where the single entry is also the other list's entry; mapping onto the Rust name of another field's type
    "same": {
        "swift": {"type_mappings": {"Mapped2": "Mapped"}, "default_decorators": ["Equatable"], "default_generic_constraints": ["Equatable"],
                  "codablevoid_constraints": ["Equatable"]},
        "kotlin": {"type_mappings": {"Mapped2": "Mapped"}},
        "scala": {"type_mappings": {"Mapped2": "Mapped"}},
        "typescript": {"type_mappings": {"Mapped2": "Mapped"}},
        "go": {"type_mappings": {"Mapped2": "Mapped"}, "uppercase_acronyms": ["URL"]},
        "python": {},
    },
}
TABLES = PROFILES["basic"]


def concrete(setting, v):
    """abstract value -> text used on the command line / in the file (packages must be dotted)"""
    if v == "":
        return ""
    return ("com." + v) if setting.endswith("package") and setting != "go_package" else v


def abstract(setting, text):
    if text is None:
        return ""
    return text[4:] if setting.endswith("package") and setting != "go_package" and text.startswith("com.") else text


def toml_text(file_vals, with_tables=True, profile="basic"):
    tables = {lang: dict(t) for lang, t in PROFILES[profile].items() if t} if with_tables else {}
    for s, v in file_vals.items():
        if v:
            sec, key = TOML_KEY[s]
            tables.setdefault(sec, {})[key] = concrete(s, v)

    def fmt(v):
        if isinstance(v, bool):
            return "true" if v else "false"
        if isinstance(v, list):
            return "[" + ", ".join(f'"{x}"' for x in v) + "]"
        return f'"{v}"'
    out = []
    for sec, kv in tables.items():
        scal = {k: v for k, v in kv.items() if not isinstance(v, dict)}
        out.append(f"[{sec}]\n" + "".join(f"{k} = {fmt(v)}\n" for k, v in scal.items()))
        for k, v in kv.items():
            if isinstance(v, dict):
                out.append(f"[{sec}.{k}]\n" + "".join(f'"{a}" = "{b}"\n' for a, b in v.items()))
    return "\n".join(out)


def prefix_as_used(o, prefix, known):
    """the prefix read from the definition of Foo, qualified when another place that takes the prefix shows something else: a definition
    whose name does not start with it, or a reference to a type of the run (member type, payload, helper type of a struct variant) that
    names no definition"""
    from .c09 import leaves
    # the types of the program that are not typeshared (they are there to be mapped by the profiles that map them)
    known = set(known) | {pre + k for k in ("Mapped", "Mapped2", "Stamped") for pre in ("", prefix)}
    names = {d["name"] for d in o["defs"]}
    params = {g for d in o["defs"] for g in (d.get("generics") or [])} | {g for d in o["defs"] for v in d.get("variants", []) for g in (v.get("generics") or [])}
    odd = sorted(n for n in names if not n.startswith(prefix) and n not in known)
    refs = []
    for d in o["defs"]:
        for m in d.get("members") or []:
            refs += leaves(m.get("ty"), [])
        for v in d.get("variants") or []:
            refs += leaves(v.get("ty"), []) if isinstance(v.get("ty"), dict) else []
            for m in v.get("members") or []:
                refs += leaves(m.get("ty"), [])
        if d.get("kind") == "alias":
            refs += leaves(d.get("target"), [])
    odd += sorted({r for r in refs if r not in names and r not in params and r not in known})
    return prefix if not odd else f"{prefix} (but not at: {', '.join(odd)})"


def observe(lang, text, profile="basic"):
    """generated code -> what it shows of the dual settings, and of every file-only table of the profile: for a list, the
    configured entries that the governed place shows (in configured order); for a mapping, the type written for the field"""
    obs, tobs = {}, {}
    t = PROFILES[profile][lang]
    x = {"swift": x_swift, "kotlin": x_kt, "scala": x_scala, "go": x_go, "typescript": x_ts}[lang]
    texts = text if isinstance(text, list) else [text]          # folder mode: the module file and (Swift) the shared helper file
    o = x.extract(texts[0])
    for more in texts[1:]:
        o2 = x.extract(more)
        o["defs"] += o2["defs"]
        o.setdefault("helper_inherits", {}).update(o2.get("helper_inherits", {}))
    foo = [d for d in o["defs"] if d["name"].endswith("Foo")][0]
    fld = {"Mapped": "m", "Mapped2": "m2", "Stamped": "st"}
    tobs["type_mappings"] = {k: [m["ty"].get("n") for m in foo["members"] if m["key"] == fld[k]][0] for k in t.get("type_mappings", {}) if k in fld}
    if "Vec<u8>" in t.get("type_mappings", {}):
        # read from the alias Digest = Vec<u8>; a target with a custom JSON translation counts as applied when the helpers are there too
        dg = [d for d in o["defs"] if d["name"] == "Digest"]
        name = ((dg[0].get("target") or {}).get("n") if dg else None) or "<not applied>"
        helpers = {"ReviverFunc", "ReplacerFunc"} <= set(o.get("helper_defs", [])) | {d["name"] for d in o["defs"]} and ("new " + str(name)) in texts[0]
        tobs["type_mappings"]["Vec<u8>"] = name if helpers else f"{name} (without its reviver / replacer helpers)"
    if "HashMap<String,String>" in t.get("type_mappings", {}):
        lm = [d for d in o["defs"] if d["name"] == "LabelMap"]
        tgt = (lm[0].get("target") or {}) if lm else {}
        tobs["type_mappings"]["HashMap<String,String>"] = tgt.get("n") or f"<not applied: the alias target is a {tgt.get('k', 'missing definition')}>"
    if lang == "swift":
        obs["swift_prefix"] = prefix_as_used(o, foo["name"][:-3], {"CodableVoid"} | set(t.get("type_mappings", {}).values()))
        gen = [d for d in o["defs"] if d["name"].endswith("Gen")][0]
        void = o.get("helper_inherits", {}).get("CodableVoid")
        tobs["default_decorators"] = [d for d in t.get("default_decorators", []) if d in foo.get("inherits", [])]
        # every generic parameter of every generic item (with and without constraints of its own, the derived helper type of Look::Hit too)
        places = [gen.get("generic_constraints", {}).get("T", [])]
        for suffix, params in (("Ann", ("A", "B")), ("Look", ("T",)), ("LookHitInner", ("T",))):
            for d in [d for d in o["defs"] if d["name"].endswith(suffix)][:1]:
                places += [d.get("generic_constraints", {}).get(p_, []) for p_ in params]
        tobs["default_generic_constraints"] = [c for c in t.get("default_generic_constraints", []) if all(c in pl for pl in places)]
        if "codablevoid_constraints" in t:
            tobs["codablevoid_constraints"] = [c for c in t["codablevoid_constraints"] if void and c in void]
    elif lang == "kotlin":
        obs["kotlin_prefix"] = prefix_as_used(o, foo["name"][:-3], set(t.get("type_mappings", {}).values()))
        obs["java_package"] = abstract("java_package", o["package"])
    elif lang == "scala":
        obs["scala_package"] = abstract("scala_package", o["package"] or "")
    elif lang == "go":
        obs["go_package"] = o["package"] or ""
        idents = [m["ident"] for m in foo["members"]]
        names = [d["name"] for d in o["defs"]]
        by = {m["key"]: m["ty"] for m in foo["members"]}
        # every place where the word occurs: at the end of an identifier, before a digit, in a type's own name, and where that type
        # is referred to as a map key and as a generic argument
        places = {"ID": ["UserID" in idents, "ID2" in idents, "AccountID" in names, by.get("by_account", {}).get("key", {}).get("n") == "AccountID",
                         [a.get("n") for a in by.get("page", {}).get("args", [])] == ["AccountID"]],
                  "URL": ["HomeURL" in idents, "URL2" in idents]}
        tobs["uppercase_acronyms"] = [a if all(places[a]) else f"{a}:not-at-places-{[i for i, okp in enumerate(places[a]) if not okp]}" for a in t.get("uppercase_acronyms", [])]
        if "no_pointer_slice" in t:
            lst = [m for m in foo["members"] if m["key"] == "list"][0]
            tobs["no_pointer_slice"] = not lst["pointer"]
    # only the tables the profile writes are part of the comparison
    tobs = {k: v for k, v in tobs.items() if k in t}
    return obs, tobs


def texp(lang, profile="basic"):
    """the file-only tables as written into the configuration file (the requirement is: applied unchanged)"""
    return {k: v for k, v in PROFILES[profile][lang].items()}


def full(d):
    return {s: d.get(s, "") for s in SETTINGS}


def run_case(work, idx, c):
    """one matrix cell -> events"""
    events = []
    root = os.path.join(work, f"c{idx}")
    src = os.path.join(root, "a", "b", "proj")
    # profile generic_mapped: Foo also has a member of the mapped generic type, applied to arguments no backend but Go / TypeScript / Python translates
    cli.make_tree(src, {"src/lib.rs": SRC if c.get("tables", "basic") != "generic_mapped" else SRC.replace("pub unit: (),", "pub unit: (), pub st: Stamped<OffsetDateTime, Vec<OffsetDateTime>>,") + "#[typeshare]\npub type Digest = Vec<u8>;\n#[typeshare]\npub type LabelMap = HashMap<String, String>;\n"})
    disc = c["disc"]
    cwd = {"flag": os.path.join(root, "elsewhere"), "cwd": root, "parent": os.path.join(root, "a"), "grandparent": os.path.join(root, "a", "b"),
           "flag_over_cwd": os.path.join(root, "elsewhere"), "flag_over_parent": os.path.join(root, "elsewhere", "sub"),
           "cwd_over_parent": os.path.join(root, "a"), "parent_over_grandparent": os.path.join(root, "a", "b"), "cwd_over_all": os.path.join(root, "a", "b")}[disc]
    os.makedirs(cwd, exist_ok=True)
    by_flag = disc.startswith("flag")
    # where the configuration file (the one that carries c["file"]) lies; MC_C20!Shape
    real_dir = {"cwd_over_parent": os.path.join(root, "a"), "parent_over_grandparent": os.path.join(root, "a"), "cwd_over_all": os.path.join(root, "a", "b")}.get(disc, root)
    cfg_path = os.path.join(root, "conf", "custom.toml") if by_flag else os.path.join(real_dir, "typeshare.toml")
    os.makedirs(os.path.dirname(cfg_path), exist_ok=True)
    profile = c.get("tables", "basic")
    open(cfg_path, "w").write(toml_text(c["file"], profile=profile))
    if c.get("decoy"):
        # different typeshare.toml files that are NOT the configuration (discovery alone would find them / they lie further up);
        # every setting has another value there
        decoy_dirs = {"cwd_over_parent": [root], "parent_over_grandparent": [root], "cwd_over_all": [os.path.join(root, "a"), root]}.get(disc, [os.path.join(root, "elsewhere")])
        for k, dd in enumerate(decoy_dirs):
            open(os.path.join(dd, "typeshare.toml"), "w").write(toml_text({s: f"decoy{k}" + s.replace("_", "") for s in SETTINGS}, with_tables=False))
    opts = []
    for s in SETTINGS:
        if c["cli"][s] == "<given-empty>":
            opts += [OPT[s], ""]                      # the option is given, with an empty value (Config!GivenEmpty)
        elif c["cli"][s]:
            opts += [OPT[s], concrete(s, c["cli"][s])]
    eff = c["effective"]
    for lang in ("swift", "kotlin", "scala", "go", "typescript"):
        if lang == "scala" and not eff["scala_package"]:
            continue   # no package at all: outside this property (C07 covers it)
        if lang == "go" and not eff["go_package"]:
            continue   # typeshare refuses Go without a package
        out = os.path.join(root, "out." + common.EXT[lang])
        args = ["-l", lang] + (["-c", cfg_path] if by_flag else []) + opts + ["-o", out, src]
        r = cli.run_cli(args, cwd=cwd, timeout=20)
        if r["exit"] != "ok":
            events.append(({"ev": "run", "cli": full(c["cli"]), "file": full(c["file"]), "lang": lang, "obs": full({s2: "<run failed>" for s2 in EXPOSES.get(lang, [])}),
                            "texp": texp(lang, c.get("tables", "basic")), "tobs": {"run": "failed"}}, {"kind": "run", "lang": lang, "disc": disc, "cli": c["cli"], "file": c["file"], "tables": c.get("tables", "basic")}))
            continue
        obs, tobs = observe(lang, open(out).read(), profile)
        events.append(({"ev": "run", "cli": full(c["cli"]), "file": full(c["file"]), "lang": lang, "obs": full(obs),
                        "texp": texp(lang, profile), "tobs": tobs}, {"kind": "run", "lang": lang, "disc": disc, "cli": c["cli"], "file": c["file"], "tables": profile}))
    # the same settings in folder mode INTO A LOCATION AN EARLIER RUN WITH ANOTHER CONFIGURATION FILE HAS FILLED: what the
    # files show is the configuration of this run (Swift: the module file and the shared Codable.swift)
    if profile not in ("basic", "generic_mapped") and eff is not None:          # (generic_mapped: the earlier, basic configuration cannot generate that source)
        fdir = os.path.join(root, "folder_out")
        first_cfg = os.path.join(root, "conf", "earlier.toml")
        open(first_cfg, "w").write(toml_text(c["file"], profile="basic"))
        r0 = cli.run_cli(["-l", "swift", "-c", first_cfg] + opts + ["-d", fdir, src], cwd=cwd, timeout=20)
        r = cli.run_cli(["-l", "swift"] + (["-c", cfg_path] if by_flag else []) + opts + ["-d", fdir, src], cwd=cwd, timeout=20)
        if r0["exit"] != "ok" or r["exit"] != "ok":
            raise ToolError(f"typeshare failed in a C20 folder run: {r0['stderr'][-200:]} {r['stderr'][-200:]}")
        texts = [open(os.path.join(fdir, f)).read() for f in sorted(os.listdir(fdir), key=lambda f: f == "Codable.swift")]
        obs, tobs = observe("swift", texts, profile)
        events.append(({"ev": "run", "cli": full(c["cli"]), "file": full(c["file"]), "lang": "swift", "obs": full(obs),
                        "texp": texp("swift", profile), "tobs": tobs}, {"kind": "run", "lang": "swift+folder-after-earlier-run", "disc": disc, "cli": c["cli"], "file": c["file"], "tables": profile}))
    # -g with the same options, into a directory without any ancestor configuration
    gdir = os.path.join(root, "gen")
    os.makedirs(gdir)
    gpath = os.path.join(gdir, "typeshare.toml")
    r = cli.run_cli(["-g"] + opts + ["."], cwd=gdir, timeout=20)
    if r["exit"] != "ok" or not os.path.exists(gpath):
        events.append(({"ev": "gen", "cli": full(c["cli"]), "written": full({s: "<not written>" for s in SETTINGS})},
                       {"kind": "gen", "disc": disc, "cli": c["cli"], "file": {}, "detail": r["stderr"][-200:]}))
        return events
    data = tomllib.load(open(gpath, "rb"))
    written = {s: abstract(s, data.get(TOML_KEY[s][0], {}).get(TOML_KEY[s][1], "")) for s in SETTINGS}
    events.append(({"ev": "gen", "cli": full(c["cli"]), "written": written}, {"kind": "gen", "disc": disc, "cli": c["cli"], "file": {}}))
    for lang in ("swift", "kotlin", "scala", "go"):
        if (lang == "scala" and not written["scala_package"]) or (lang == "go" and not written["go_package"]):
            continue
        if profile == "generic_mapped" and lang != "go":
            continue          # the generated file has no type mappings: the source of this profile cannot be generated under it
        out = os.path.join(root, "reload." + common.EXT[lang])
        r = cli.run_cli(["-l", lang, "-o", out, src], cwd=gdir, timeout=20)     # discovered in cwd
        if r["exit"] != "ok":
            # the generated file (in the working directory) holds a package for this language: a reload that fails did not use it
            events.append(({"ev": "reload", "cli": full(c["cli"]), "written": written, "lang": lang, "obs": full({s2: "<run failed>" for s2 in EXPOSES[lang]})},
                           {"kind": "reload", "lang": lang, "disc": disc, "cli": c["cli"], "file": {}}))
            continue
        obs, _ = observe(lang, open(out).read())
        events.append(({"ev": "reload", "cli": full(c["cli"]), "written": written, "lang": lang, "obs": full(obs)},
                       {"kind": "reload", "lang": lang, "disc": disc, "cli": c["cli"], "file": {}}))
    before = open(gpath, "rb").read()
    r2 = cli.run_cli(["-g", "--swift-prefix", "Other", "."], cwd=gdir, timeout=20)
    events.append(({"ev": "nooverwrite", "failed": r2["exit"] == "error", "intact": open(gpath, "rb").read() == before},
                   {"kind": "nooverwrite", "disc": disc, "cli": c["cli"], "file": {}}))
    return events


def run(chk):
    thorough = chk.tier == "thorough"
    chk.rule = ("spec->impl: " + ("all 1024 cells x 6 discoveries (-c; cwd / parent / grandparent; -c next to a decoy typeshare.toml in cwd / parent)" if thorough else "a 1-in-4 systematic slice (every 2-setting combination covered) "
                "of the 1024 cells with -c, plus 64 cells per ancestor discovery and 64 cells of -c next to a decoy typeshare.toml in the working directory") + "; per cell: generation in swift/kotlin/scala/go/typescript, -g, "
                "reload of the generated file, second -g. Each run is an event judged by Trace_C20. distinct = (cell, discovery, run kind, language).")
    chk.assumptions = ["settings are read back from generated code by the extractors (type-name prefix, package line) and from the TOML with tomllib",
                       "package values are written as com.<value> so that Scala/Kotlin get a dotted package"]
    res = common.run_tlc("MC_C20", cfg="MC_C20_thorough" if thorough else "MC_C20_quick", workers=4, timeout=300)
    chk.add_tlc("MC_C20", res)
    cases = res.replays
    chk.exhaustive = thorough
    if not thorough:
        flag = [c for c in cases if c["disc"] == "flag" and c.get("tables", "basic") == "basic"]
        # pairwise-complete slice: keep cells whose (cli-presence, file-presence) bit vectors differ in a Gray-like stride
        keep = flag[::4] + [c for c in flag if sum(1 for s in SETTINGS if c["cli"][s]) in (0, 5) or sum(1 for s in SETTINGS if c["file"][s]) in (0, 5)]
        seen, sl = set(), []
        for c in keep:
            k = (tuple(sorted(c["cli"].items())), tuple(sorted(c["file"].items())))
            if k not in seen:
                seen.add(k)
                sl.append(c)
        for d in ("cwd", "parent", "grandparent"):
            sl += [dict(c, disc=d) for c in flag[7::16]]
        sl += [c for c in cases if c["disc"] == "flag_over_cwd"][5::16]
        for dname in ("cwd_over_parent", "cwd_over_all"):
            sl += [c for c in cases if c["disc"] == dname and c.get("tables", "basic") == "basic"][3::24]
        sl += [c for c in cases if "<given-empty>" in c["cli"].values()][3::8]
        for prof in sorted({c.get("tables", "basic") for c in cases} - {"basic"}):          # every profile gets its own slice
            sl += [c for c in cases if c.get("tables", "basic") == prof][::3]
        cases = sl
    chk.sample({"cell": {k: cases[len(cases) // 2][k] for k in ("cli", "file", "disc", "effective")}})
    work = common.scratch("c20")
    import concurrent.futures as cf
    with cf.ThreadPoolExecutor(max_workers=12) as ex:
        results = list(ex.map(lambda a: run_case(work, a[0], a[1]), enumerate(cases)))
    events = [e for r in results for e in r]
    recs = [e[0] for e in events]
    nbad = 0
    for part in common.chunks(list(range(len(recs))), 20000):
        ok, matched, tres = common.trace_validate("Trace_C20", [recs[i] for i in part], timeout=900)
        chk.add_tlc("Trace_C20", tres)
        if matched != len(part):
            raise ToolError(f"Trace_C20 consumed {matched}/{len(part)}")
        for b in tres.bad:
            rec, m = events[part[b - 1]]
            nbad += 1
            wrong = []
            if rec["ev"] == "run":
                for s in EXPOSES.get(rec["lang"], []):
                    exp = rec["cli"][s] or rec["file"][s]
                    if rec["obs"][s] != exp:
                        src = "cli" if rec["obs"][s] == rec["cli"][s] and rec["cli"][s] else "file" if rec["obs"][s] == rec["file"][s] and rec["file"][s] else "default" if not rec["obs"][s] else "other"
                        wrong.append(f"{s}/cli={'set' if rec['cli'][s] else 'absent'}/file={'set' if rec['file'][s] else 'absent'}/used={src}")
                for k, v in rec["texp"].items():
                    if rec["tobs"].get(k) != v:
                        prof = "" if m.get("tables", "basic") == "basic" else "/profile=" + m["tables"]
                        if isinstance(v, dict) and isinstance(rec["tobs"].get(k), dict):          # a mapping table: name the entries that differ
                            wrong += [f"table:{k}[{kk}]" + prof for kk in v if rec["tobs"][k].get(kk) != v[kk]]
                        else:
                            wrong.append(f"table:{k}" + prof)
            elif rec["ev"] == "gen":
                wrong = [f"{s}/cli={'set' if rec['cli'][s] else 'absent'}/written={'value' if rec['written'][s] == rec['cli'][s] else 'empty' if not rec['written'][s] else 'other'}"
                         for s in SETTINGS if rec["written"][s] != rec["cli"][s]]
            elif rec["ev"] == "reload":
                wrong = [f"{s}" for s in EXPOSES.get(rec["lang"], []) if rec["obs"][s] != rec["cli"][s]]
            else:
                wrong = [f"failed={rec['failed']}/intact={rec['intact']}"]
            for w in wrong or ["unclassified"]:
                chk.mismatch(f"C20/{m['kind']}/{m.get('lang', '-')}/{m['disc'] if m['kind'] == 'run' else '-'}/{w}",
                             f"{m['kind']} {m.get('lang', '')}: cli={m['cli']} file={m['file']} discovery={m['disc']}: {w}; record {rec}",
                             {"cell": m}, "Config!Effective", w)
    chk.traces += len(recs) - nbad
    for rec, m in events:
        chk.judged((str(m["cli"]), str(m["file"]), m["disc"], m["kind"], m.get("lang")))
    existing_files(chk)


EXISTING_BYTES = {"config": b'[swift]\nprefix = "Keep"\n', "empty": b"", "blank": b"  \n\t\n", "non_utf8": b"# caf\xe9 configuration\n[swift]\nprefix = \"Keep\"\n",
                  "not_toml": b"this is not = = toml [\n", "utf16": '[swift]\nprefix = "Keep"\n'.encode("utf-16"), "one_byte": b"#"}


def existing_files(chk):
    """MC_C20_existing: -g never overwrites what lies at the path it would write."""
    res = common.run_tlc("MC_C20_existing", cfg="MC_C20_existing", workers=2, timeout=300)
    chk.add_tlc("MC_C20_existing", res)
    if not res.replays:
        raise ToolError("MC_C20_existing produced no cases")
    work = common.scratch("c20e")
    recs, meta = [], []
    for k, c in enumerate(res.replays):
        d = os.path.join(work, f"e{k}")
        os.makedirs(os.path.join(d, "cwd", "conf", "deep"))
        path = {"default": os.path.join(d, "cwd", "typeshare.toml"), "flag": os.path.join(d, "cwd", "my-config.toml"),
                "flag_nested": os.path.join(d, "cwd", "conf", "deep", "ts.toml")}[c["target"]]
        if c["existing"] == "symlink":
            real = os.path.join(d, "elsewhere.toml")
            open(real, "wb").write(EXISTING_BYTES["config"])
            os.symlink(real, path)
        else:
            open(path, "wb").write(EXISTING_BYTES[c["existing"]])
            real = path
        before = open(real, "rb").read()
        args = ["-g", "--swift-prefix", "Other"] + ([] if c["target"] == "default" else ["-c", os.path.relpath(path, os.path.join(d, "cwd"))]) + ["."]
        r = cli.run_cli(args, cwd=os.path.join(d, "cwd"), timeout=20)
        if r["exit"] in ("panic", "timeout", "signal"):
            continue          # C07
        recs.append({"ev": "nooverwrite", "failed": r["exit"] == "error", "intact": open(real, "rb").read() == before and (c["existing"] != "symlink" or os.path.islink(path))})
        meta.append(c)
    ok, matched, tres = common.trace_validate("Trace_C20", recs, timeout=300)
    chk.add_tlc("Trace_C20[existing]", tres)
    if matched != len(recs):
        raise ToolError(f"Trace_C20 consumed {matched}/{len(recs)}")
    for b in tres.bad:
        rec, c = recs[b - 1], meta[b - 1]
        chk.mismatch(f"C20/nooverwrite/existing={c['existing']}/failed={rec['failed']}/intact={rec['intact']}",
                     f"-g onto an existing file ({c['existing']}, path named by {c['target']}): run failed={rec['failed']}, bytes intact={rec['intact']}",
                     {"existing": c}, "the run fails and the file keeps its bytes", rec)
    chk.traces += len(recs) - len(tres.bad)
    for c in meta:
        chk.judged(("existing", c["existing"], c["target"]))


def replay(chk, rec):
    run(chk)
    chk.mismatches = {k: v for k, v in chk.mismatches.items() if k == rec["signature"]}
