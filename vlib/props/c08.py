"""C08: unsupported constructs are rejected with an error, never silently mis-generated.

P = spec/Reject.tla (MustReject, Conforms)
spec->impl: MC_C08 enumerates unsupported construct x carrier position (struct field, struct-variant field, newtype
            payload, alias target, const type, serialized_as on a field / on a type) x container chain (Vec, Option,
            HashMap key/value, Box, array, slice, generic argument; length <= 1 quick / <= 3 thorough) x skip marker
            (none, serde, typeshare), plus the item-level constructs (multi-field tuple struct/variant, flatten, enums with
            missing or misplaced tag/content, non-literal consts). Each program runs through the library (error side once,
            ok-under-skip side in all 6 languages) and a stratified subset through the real binary next to a pre-existing
            output file whose bytes and mtime must survive a failing run.
impl->spec: every run is an event (case, outcome, output touched) judged by Trace_C08; random deeper chains.
"""
import os
import time

from .. import cli, common
from ..common import ToolError

NEEDS = ["driver", "cli"]

TYPE_TEXT = {"u64": "u64", "i64": "i64", "usize": "usize", "isize": "isize", "tuple2": "(u32, String)", "tuple1": "(String,)", "tuple3_nested": "Vec<(u32, (u8, u8), String)>"}
LANG_ARGS = {"typescript": [], "kotlin": ["--java-package", "com.x"], "swift": [], "scala": ["--scala-package", "com.x"],
             "go": ["--go-package", "p"], "python": []}


CONST_VALUES = {"const_neg": "-5", "const_paren": "-7"}


def wrap(chain, t):
    for w in reversed(chain):
        t = {"vec": f"Vec<{t}>", "option": f"Option<{t}>", "mapv": f"HashMap<String, {t}>", "mapk": f"HashMap<{t}, String>",
             "box": f"Box<{t}>", "array": f"[{t}; 2]", "slice": f"&'static [{t}]", "garg": f"Gen<{t}>"}[w]
    return t


def skip_attr(skip):
    return {"none": "", "serde": "#[serde(skip)]", "typeshare": "#[typeshare(skip)]"}[skip]


LAYOUTS = ["one_file", "bad_file_first", "bad_file_last", "folder_bad_crate_first", "folder_bad_crate_last"]          # MC_C08!Layouts
SUPPORT = "#[typeshare]\npub struct Gen<X> { pub g: X }\n#[typeshare]\npub struct Fine { pub ok: u32 }\n"


def source(c):
    k, car, sk = c["construct"], c["carrier"], skip_attr(c["skip"])
    if k in TYPE_TEXT:
        t = wrap(c["chain"], TYPE_TEXT[k])
        if car == "field":
            return SUPPORT + f"#[typeshare]\npub struct Host {{\n    pub keep: u32,\n    {sk}\n    pub bad: {t},\n}}\n"
        if car == "vfield":
            return SUPPORT + f'#[typeshare]\n#[serde(tag = "t", content = "c")]\npub enum Host {{\n    Keep(u32),\n    Sv {{\n        keep: u32,\n        {sk}\n        bad: {t},\n    }},\n}}\n'
        if car == "payload":
            return SUPPORT + f'#[typeshare]\n#[serde(tag = "t", content = "c")]\npub enum Host {{\n    Keep(u32),\n    {sk}\n    Bad({t}),\n}}\n'
        if car == "alias":
            return SUPPORT + f"#[typeshare]\npub type Host = {t};\n"
        if car == "const_type":
            return SUPPORT + f"#[typeshare]\npub const HOST: {t} = 5;\n"
        if car == "sas_field":
            return SUPPORT + f'#[typeshare]\npub struct Host {{\n    pub keep: u32,\n    {sk}\n    #[typeshare(serialized_as = "{t}")]\n    pub bad: Opaque,\n}}\n'
        if car == "sas_type":
            return SUPPORT + f'#[typeshare(serialized_as = "{t}")]\npub struct Host {{ inner: Opaque }}\n'
    item = {
        "multi_tuple_struct": "#[typeshare]\npub struct Host(u32, String);\n",
        "multi_tuple_struct_one_kept": "#[typeshare]\npub struct Host(String, #[serde(skip)] u32);\n",
        "multi_tuple_struct_one_kept_ts": "#[typeshare]\npub struct Host(#[typeshare(skip)] u32, String, #[serde(skip)] bool);\n",
        "multi_tuple_variant_one_kept": f'#[typeshare]\n#[serde(tag = "t", content = "c")]\npub enum Host {{\n    Keep(u32),\n    {sk}\n    Bad(#[typeshare(skip)] u32, String),\n}}\n',
        "multi_tuple_variant": f'#[typeshare]\n#[serde(tag = "t", content = "c")]\npub enum Host {{\n    Keep(u32),\n    {sk}\n    Bad(u32, String),\n}}\n',
        "flatten_field": f"#[typeshare]\npub struct Host {{\n    pub keep: u32,\n    {sk}\n    #[serde(flatten)]\n    pub bad: Fine,\n}}\n",
        "flatten_vfield": f'#[typeshare]\n#[serde(tag = "t", content = "c")]\npub enum Host {{\n    Keep(u32),\n    Sv {{\n        keep: u32,\n        {sk}\n        #[serde(flatten)]\n        bad: Fine,\n    }},\n}}\n',
        "flatten_field_sas": f'#[typeshare]\npub struct Host {{\n    pub keep: u32,\n    {sk}\n    #[serde(flatten)]\n    #[typeshare(serialized_as = "HashMap<String, String>")]\n    pub bad: Opaque,\n}}\n',
        "flatten_vfield_sas": f'#[typeshare]\n#[serde(tag = "t", content = "c")]\npub enum Host {{\n    Keep(u32),\n    Sv {{\n        keep: u32,\n        {sk}\n        #[typeshare(serialized_as = "String")]\n        #[serde(flatten)]\n        bad: Opaque,\n    }},\n}}\n',
        "flatten_field_merged": f'#[typeshare]\npub struct Host {{\n    pub keep: u32,\n    {sk}\n    #[serde(rename = "other", flatten)]\n    pub bad: Fine,\n}}\n',
        "flatten_field_second": f'#[typeshare]\npub struct Host {{\n    pub keep: u32,\n    {sk}\n    #[serde(default)]\n    /// doc\n    #[serde(flatten)]\n    pub bad: Fine,\n}}\n',
        "untagged_data_enum": "#[typeshare]\npub enum Host { A(u32), B }\n",
        "untagged_enum_struct_variant": f"#[typeshare]\npub enum Host {{\n    Idle,\n    {sk}\n    Bad {{ since: u32 }},\n}}\n",
        "untagged_enum_struct_variant_fields_skipped": f"#[typeshare]\npub enum Host {{\n    Idle,\n    {sk}\n    Bad {{ #[serde(skip)] since: u32, #[typeshare(skip)] more: bool }},\n}}\n",
        "untagged_enum_empty_struct_variant": f"#[typeshare]\npub enum Host {{\n    Idle,\n    {sk}\n    Bad {{}},\n}}\n",
        "tag_without_content": '#[typeshare]\n#[serde(tag = "t")]\npub enum Host { A(u32), B }\n',
        "content_without_tag": '#[typeshare]\n#[serde(content = "c")]\npub enum Host { A(u32), B }\n',
        "tag_on_unit_enum": '#[typeshare]\n#[serde(tag = "t")]\npub enum Host { A, B }\n',
        "content_on_unit_enum": '#[typeshare]\n#[serde(content = "c")]\npub enum Host { A, B }\n',
        "tagged_enum_only_data_variant": f'#[typeshare]\n#[serde(tag = "t", content = "c")]\npub enum Host {{\n    Keep,\n    Also,\n    {sk}\n    Bad(u32),\n}}\n',
        "const_string": '#[typeshare]\npub const HOST: &str = "text";\n',
        "const_float": "#[typeshare]\npub const HOST: f64 = 1.5;\n",
        "const_neg": "#[typeshare]\npub const HOST: i32 = -5;\n",
        "const_paren": "#[typeshare]\npub const HOST: i32 = (-(7));\n",
        "const_expr": "#[typeshare]\npub const HOST: u32 = 1 + 2;\n",
        "const_bool": "#[typeshare]\npub const HOST: bool = true;\n",
        "const_path": "#[typeshare]\npub const HOST: u32 = OTHER;\n",
        "const_cast": "#[typeshare]\npub const HOST: u32 = -1i32 as u32;\n",
        "const_not": "#[typeshare]\npub const HOST: u32 = !0;\n",
        "const_method": "#[typeshare]\npub const HOST: u32 = 5u32.pow(2);\n",
        "const_block": "#[typeshare]\npub const HOST: u32 = { 5 };\n",
        "const_if": "#[typeshare]\npub const HOST: u32 = if cfg!(test) { 1 } else { 2 };\n",
    }[k]
    return SUPPORT + item


def chain_class(chain):
    return ">".join(chain) if chain else "direct"


def signature(c, lang, what):
    return f"C08/{c['construct']}/{c['carrier']}/{chain_class(c['chain'])}/{c['skip']}/{lang}/{what}"


def run(chk):
    thorough = chk.tier == "thorough"
    chk.rule = ("spec->impl: unsupported construct x carrier x container chain (<= " + ("3" if thorough else "1") + ") x skip marker (MC_C08) + 15 item-level constructs; "
                "library runs (error side: TypeScript; ok-under-skip side: 6 languages) and CLI runs next to a pre-existing output file; impl->spec: each run "
                "judged by Trace_C08; random chains up to depth 5. distinct = (case, language, driver).")
    chk.assumptions = ["rejection happens in the parser and is language independent: the error side is run for one language through the library and for a "
                       "rotating language through the binary", "an output file counts as touched if its sha256 or mtime_ns changed or a new file appeared"]
    res = common.run_tlc("MC_C08", cfg="MC_C08_thorough" if thorough else "MC_C08_quick", workers=4, timeout=900)
    chk.add_tlc("MC_C08", res)
    chk.exhaustive = True
    cases = [c["case"] for c in res.replays]
    must = {str(c["case"]): c["must_reject"] for c in res.replays}
    if not cases:
        raise ToolError("no cases")
    rng = chk.rng
    for _ in range(1500 if thorough else 150):
        cases.append({"construct": rng.choice(["u64", "i64", "usize", "isize", "tuple2"]), "carrier": rng.choice(["field", "vfield", "payload", "alias", "sas_field", "sas_type"]),
                      "chain": [rng.choice(["vec", "option", "mapv", "mapk", "box", "array", "slice", "garg"]) for _ in range(rng.randint(2, 5))],
                      "skip": "none"})
        if cases[-1]["carrier"] in ("field", "vfield", "payload", "sas_field") and rng.random() < 0.4:
            cases[-1]["skip"] = rng.choice(["serde", "typeshare"])
    chk.sample({"case": cases[len(res.replays) // 2], "source": source(cases[len(res.replays) // 2])})
    # library runs
    jobs, jm = [], []
    for c in cases:
        langs = common.LANGS if c["skip"] != "none" else ["typescript"]
        for lang in langs:
            cfg = {"package": "com.x"} if lang in ("kotlin", "scala") else {"package": "p"} if lang == "go" else {}
            jobs.append({"id": len(jobs), "lang": lang, "files": [{"src": source(c)}], "cfg": cfg})
            jm.append((c, lang))
    events, meta = [], []
    for part_j, part_m in zip(common.chunks(jobs, 20000), common.chunks(jm, 20000)):
        for r, (c, lang) in zip(common.run_driver("gen", part_j), part_m):
            if r["status"] in ("panic", "abort", "hang"):
                continue       # C07's business
            out = r["status"]
            if out == "error" and c["skip"] != "none" and all(e["msg"].startswith("generate:") for e in r["errors"]):
                continue       # the backend refuses something else about this program (e.g. generics in Go): not a rejection of the construct
            value_ok = True
            if out == "ok" and c["construct"] in CONST_VALUES and lang == "typescript":
                from ..extract import ts as x_ts
                d = [x for x in x_ts.extract(r["outputs"][""])["defs"] if x["kind"] == "const"]
                value_ok = bool(d) and d[0]["value"] == CONST_VALUES[c["construct"]]
            events.append({"case": c, "outcome": out, "touched": False, "value_ok": value_ok})
            meta.append((c, lang, "library", r.get("errors")))
    # binary runs next to a pre-existing output file
    work = common.scratch("c08")
    step = 1 if thorough else 4
    subset = [(i, c) for i, c in enumerate(cases) if i % step == 0]
    import concurrent.futures as cf

    def cli_run(args):
        i, c = args
        lang = common.LANGS[i % 6]
        if lang in ("kotlin", "swift", "scala") and c["construct"].startswith("const"):
            lang = "typescript"
        d = os.path.join(work, f"k{i}")
        layout = LAYOUTS[(i // step) % len(LAYOUTS)]
        env = {}
        folder = layout.startswith("folder_")
        if folder and lang == "go":
            lang = "typescript"          # Go has no folder mode
        if layout == "one_file":
            cli.make_tree(d, {"src/lib.rs": source(c)})
        elif folder:       # the offending item alone in its crate; a crate of valid items is written before / after it
            src = source(c)
            assert src.startswith(SUPPORT)
            bad, good = ("aaa_bad", "zzz_good") if layout == "folder_bad_crate_first" else ("zzz_bad", "aaa_good")
            cli.make_tree(d, {f"{bad}/src/host.rs": f"use {good}::Gen;\n" + src[len(SUPPORT):], f"{good}/src/support.rs": SUPPORT})
        else:       # the offending item alone in its file; a file of valid items arrives after / before it
            src = source(c)
            assert src.startswith(SUPPORT)
            cli.make_tree(d, {"src/bad/host.rs": src[len(SUPPORT):], "src/good/support.rs": SUPPORT})
            env = {"TYPESHARE_VERIF_ORDER": ",Host,HOST,Gen" if layout == "bad_file_first" else "Gen,Host,HOST,", "TYPESHARE_VERIF_THREADS": "2"}
        out = os.path.join(d, "out")
        os.makedirs(out)
        if folder:
            # previous outputs of both crates (Swift names its files in Pascal case) and nothing else
            for cn in (bad, good):
                fn = ("".join(p.capitalize() for p in cn.split("_")) if lang == "swift" else cn) + "." + common.EXT[lang]
                open(os.path.join(out, fn), "w").write("// previous output\n")
            before = cli.snapshot(out)
            time.sleep(0.002)
            r = cli.run_cli(["-l", lang] + LANG_ARGS[lang] + ["-d", out, d], env=env, timeout=20)
            after = cli.snapshot(out)
            return c, lang + "+" + layout, r, before != after
        outfile = os.path.join(out, "out." + common.EXT[lang])
        open(outfile, "w").write("// previous output\n")
        before = cli.snapshot(out)
        time.sleep(0.002)
        r = cli.run_cli(["-l", lang] + LANG_ARGS[lang] + ["-o", outfile, os.path.join(d, "src")], env=env, timeout=20)
        after = cli.snapshot(out)
        return c, lang + ("" if layout == "one_file" else "+" + layout), r, before != after

    with cf.ThreadPoolExecutor(max_workers=12) as ex:
        for c, lang, r, touched in ex.map(cli_run, subset):
            if r["exit"] in ("panic", "timeout", "signal"):
                continue
            if r["exit"] == "error" and c["skip"] != "none" and "Parsing error" not in r["stderr"]:
                continue
            events.append({"case": c, "outcome": r["exit"], "touched": touched, "value_ok": True})
            meta.append((c, lang, "binary", r["stderr"][-200:]))
    nbad = 0
    for part in common.chunks(list(range(len(events))), 30000):
        ok, matched, tres = common.trace_validate("Trace_C08", [events[i] for i in part], timeout=900)
        chk.add_tlc("Trace_C08", tres)
        if matched != len(part):
            raise ToolError(f"Trace_C08 consumed {matched}/{len(part)}")
        for b in tres.bad:
            e = events[part[b - 1]]
            c, lang, drv, info = meta[part[b - 1]]
            nbad += 1
            sheltered = c["skip"] != "none"
            what = ("wrong-value" if e["outcome"] == "ok" and not e.get("value_ok", True) else "rejected-under-skip" if sheltered and e["outcome"] == "error" else "accepted" if not sheltered and e["outcome"] == "ok" else
                    "output-touched" if e["touched"] else f"outcome={e['outcome']}")
            chk.mismatch(signature(c, "anylang" if not sheltered else lang, what),
                         f"{drv} {lang}: {c}: outcome {e['outcome']}, touched={e['touched']} ({info})", {"case": c, "lang": lang, "driver": drv},
                         "Reject!Conforms", {"outcome": e["outcome"], "touched": e["touched"]})
    chk.traces += len(events) - nbad
    chk.extra["trace_events"] = len(events)
    for e, m in zip(events, meta):
        chk.judged((str(m[0]), m[1], m[2]))


def replay(chk, rec):
    c = rec["case"]["case"]
    lang = rec["case"]["lang"]
    cfg = {"package": "com.x"} if lang in ("kotlin", "scala") else {"package": "p"} if lang == "go" else {}
    r = common.run_driver("gen", [{"id": 0, "lang": lang, "files": [{"src": source(c)}], "cfg": cfg}])[0]
    ev = [{"case": c, "outcome": r["status"], "touched": False, "value_ok": True}]
    ok, matched, tres = common.trace_validate("Trace_C08", ev)
    if tres.bad:
        chk.mismatch(rec["signature"], rec["what"], rec["case"], rec["expected"], r["status"])
