"""C03: exactly the annotated, non-skipped items, fields and variants are generated.

P = spec/Program.tla ExpectedDefs (judged by Trace_C03)
spec->impl: MC_C03 enumerates the item under test: kind (struct, newtype struct, unit struct, unit enum, tagged enum,
            alias, const) x annotation spelling (none, #[typeshare], #[typeshare::typeshare], with arguments) x nesting
            (top level, mod, mod in mod, fn body, impl block, cfg'd mod) x which members are skipped x spelling of the
            skip marker, next to an annotated neighbour and an un-annotated decoy; generated in 6 languages.
impl->spec: the definitions found in each output (names, listed members in order, fields of each struct variant,
            leftovers) are one event judged by Trace_C03; random multi-item programs extend the enumeration.
"""
import os

from .. import common, observe
from ..common import ToolError

NEEDS = ["driver", "cli"]
ANN = {"none": "", "plain": "#[typeshare]\n", "path": "#[typeshare::typeshare]\n", "args": '#[typeshare(swift = "Equatable")]\n',
       "abs_path": "#[::typeshare::typeshare]\n", "spaced": "#[ typeshare ]\n"}
SKIP = {
    "serde_skip": ["#[serde(skip)]"], "typeshare_skip": ["#[typeshare(skip)]"], "serde_after_word": ["#[serde(default, skip)]"],
    "serde_after_kv": ['#[serde(rename = "zz", skip)]'], "typeshare_after_kv": ['#[typeshare(serialized_as = "String", skip)]'],
    "serde_before_kv": ['#[serde(skip, rename = "zz")]'], "both": ["#[serde(skip)]", "#[typeshare(skip)]"],
    "separate_attr": ["#[serde(default)]", "#[serde(skip)]"],
}


# MC_C03!Lookalikes: serde arguments that resemble a skip marker and are none (the member stays part of the wire format)
LOOKALIKE = {"none": "", "skip_serializing": "#[serde(skip_serializing)]", "skip_deserializing": "#[serde(skip_deserializing)]",
             "skip_serializing_if": '#[serde(skip_serializing_if = "is_zero")]'}


def item_src(it, ann, spelling, lookalike="none"):
    a = ANN[ann] if it["name"] == "Subject" else ("#[typeshare]\n" if it["annotated"] else "")
    la = LOOKALIKE[lookalike] if it["name"] == "Subject" else ""
    sk = lambda m: "".join(f"    {x}\n" for x in SKIP[spelling]) if m["skipped"] else (f"    {la}\n" if la else "")
    k, n = it["kind"], it.get("rust_name", it["name"])
    if it.get("rename"):
        a += f'#[serde(rename = "{it["rename"]}")]\n'
    if k == "struct":
        body = "".join(f"{sk(m)}    pub {m['name']}: u32,\n" for m in it["members"])
        return f"{a}pub struct {n} {{\n{body}}}\n"
    if k == "newtype_struct":
        return f"{a}pub struct {n}(String);\n"
    if k == "unit_struct":
        return f"{a}pub struct {n};\n"
    if k == "unit_enum":
        body = "".join(f"{sk(m)}    {m['name']},\n" for m in it["members"])
        return f"{a}pub enum {n} {{\n{body}}}\n"
    if k == "tagged_enum":
        body = ""
        for m in it["members"]:
            body += sk(m)
            if m["payload"] == "newtype":
                body += f"    {m['name']}(u32),\n"
            elif m["payload"] == "struct":
                inner = "".join(("".join(f"        {x}\n" for x in SKIP[spelling]) if f["skipped"] else (f"        {la}\n" if la else "")) + f"        {f['name']}: u32,\n" for f in m["fields"])
                body += f"    {m['name']} {{\n{inner}    }},\n"
            else:
                body += f"    {m['name']},\n"
        return f'{a}#[serde(tag = "type", content = "content")]\npub enum {n} {{\n{body}}}\n'
    if k == "alias":
        return f"{a}pub type {n} = Vec<String>;\n"
    if k == "const":
        return f"{a}pub const {n}: u32 = 7;\n"
    raise ValueError(k)


def nest(src, nesting):
    ind = lambda s: "".join("    " + l + "\n" for l in s.splitlines())
    return {"top": src, "mod1": f"pub mod outer {{\n{ind(src)}}}\n", "mod2": f"pub mod outer {{\n    pub mod inner {{\n{ind(ind(src))}    }}\n}}\n",
            "fn_body": f"pub fn somewhere() {{\n{ind(src)}}}\n", "impl_block": f"pub struct Holder;\nimpl Holder {{\n    pub fn method(&self) {{\n{ind(ind(src))}    }}\n}}\n",
            "cfg_mod": f"#[cfg(test)]\nmod tests {{\n{ind(src)}}}\n",
            # every other place where Rust allows an item: initialiser blocks, nested blocks, trait default methods, closures
            "const_block": f"const _: () = {{\n{ind(src)}}};\n",
            "const_init_value": f"pub const LIMIT: u32 = {{\n{ind(src)}    10\n}};\n",
            "static_block": f"pub static TABLE: u32 = {{\n{ind(src)}    3\n}};\n",
            "nested_blocks_in_fn": f"pub fn somewhere() {{\n    loop {{\n        unsafe {{\n{ind(ind(ind(src)))}        }}\n        break;\n    }}\n}}\n",
            "trait_default_fn": f"pub trait Provider {{\n    fn provide(&self) {{\n{ind(ind(src))}    }}\n}}\n",
            "closure_in_fn": f"pub fn somewhere() {{\n    let f = || {{\n{ind(ind(src))}    }};\n    f();\n}}\n",
            "mod_in_fn": f"pub fn somewhere() {{\n    mod hidden {{\n{ind(ind(src))}    }}\n}}\n"}[nesting]


def source(case, items):
    parts = []
    for it in items:
        s = item_src(it, case["annotation"], case["spelling"], case.get("lookalike", "none"))
        if it.get("rust_name"):          # the twin: same Rust identifier, in a module of its own
            s = "pub mod v2 {\n" + "".join("    " + l + "\n" for l in s.splitlines()) + "}\n"
        parts.append(nest(s, case["nesting"]) if it["name"] == "Subject" else s)
    return "\n".join(parts)


def observe_defs(lang, obs, items):
    """-> (defs, extras) in the vocabulary of Trace_C03"""
    by_name = {}
    helper_names = set()
    for it in items:
        if it["kind"] == "tagged_enum":
            for m in it["members"]:
                if m["payload"] == "struct":
                    helper_names.add(f"{it['name']}{m['name']}Inner")
    consts = {it["name"].lower(): it["name"] for it in items if it["kind"] == "const"}
    defs, extras = [], []
    known = {it["name"] for it in items}
    for d in obs["defs"]:
        name = d["name"]
        if d["kind"] == "const" and name.lower() in consts:
            name = consts[name.lower()]
        if name in helper_names:
            continue
        if name not in known:
            extras.append(name)
            continue
        it = [x for x in items if x["name"] == name][0]
        members, vf = [], []
        if d["kind"] == "struct":
            members = [m["key"] for m in d.get("members", [])]
        elif d["kind"] in ("enum", "union"):
            members = [v["wire"] for v in d.get("variants", [])]
            for v in d.get("variants", []):
                src_v = [m for m in it["members"] if m["name"] == v["wire"]]
                if src_v and src_v[0]["payload"] == "struct":
                    ms = observe.struct_variant_members(lang, obs, [name], v["wire"], v["wire"])
                    vf.append({"variant": v["wire"], "fields": [m["key"] for m in (ms or [])] if ms is not None else ["<helper struct missing>"]})
        defs.append({"name": name, "members": members, "variant_fields": vf})
    # un-annotated items must not leave helper structs either
    for hn in helper_names:
        owner = [it for it in items if hn.startswith(it["name"])][0]
        if not owner["annotated"] and observe.find_def(obs, hn):
            extras.append(hn)
    return defs, extras


def classify(e, items):
    exp_names = [it["name"] for it in items if it["annotated"]]
    kinds = []
    got = {}
    for d in e["defs"]:
        got[d["name"]] = got.get(d["name"], 0) + 1
    for it in items:
        if it["annotated"] and got.get(it["name"], 0) == 0:
            kinds.append(("silent-omission" if e["status"] == "ok" else "missing-def", it["kind"]))
        elif it["annotated"] and got[it["name"]] > 1:
            kinds.append(("duplicate-def", it["kind"]))
        elif not it["annotated"] and got.get(it["name"], 0):
            kinds.append(("extra-def", it["kind"]))
    if e["extras"]:
        kinds.append(("extra-def", "unknown"))
    for d in e["defs"]:
        it = [x for x in items if x["name"] == d["name"]]
        if it and it[0]["annotated"]:
            exp = [m["name"] for m in it[0]["members"] if not m["skipped"]]
            if d["members"] != exp:
                miss, extra = [x for x in exp if x not in d["members"]], [x for x in d["members"] if x not in exp]
                kinds.append(("missing-member" if miss else "extra-member" if extra else "member-order", it[0]["kind"]))
            for v in d["variant_fields"]:
                sv = [m for m in it[0]["members"] if m["name"] == v["variant"]][0]
                expf = [f["name"] for f in sv["fields"] if not f["skipped"]]
                if v["fields"] != expf:
                    kinds.append(("variant-field-" + ("missing" if any(x not in v["fields"] for x in expf) else "extra" if any(x not in expf for x in v["fields"]) else "order"), it[0]["kind"]))
            if len(d["variant_fields"]) != len([m for m in it[0]["members"] if not m["skipped"] and m["payload"] == "struct"]):
                kinds.append(("variant-helper-count", it[0]["kind"]))
    return sorted(set(kinds)) or [("unclassified", "?")]


def run_programs(chk, programs):
    """programs: [(case, items)] -> events, meta"""
    events, meta = [], []
    for mode in ("single", "multi"):
        sub = [(c, items) for c, items in programs if c.get("mode", "single") == mode]
        srcs = [source(c, items) for c, items in sub]
        results = observe.generate(srcs, multi=(mode == "multi")) if sub else []
        run_mode(chk, sub, results, srcs, events, meta)
    return events, meta


def run_mode(chk, programs, results, srcs, events, meta):
    for (case, items), per, src in zip(programs, results, srcs):
        has_const = any(it["kind"] == "const" and it["annotated"] for it in items)
        for lang in common.LANGS:
            r = per[lang]
            if lang == "go" and case.get("twin", "none") != "none" and case["kind"] != "struct":
                continue      # MC_C03!GoTwinDeferred: Go defines a renamed enum under its original name (C09's listed finding)
            if r["status"] in ("panic", "abort", "hang"):
                continue      # C07 (write_const todo!() in Kotlin/Swift is a known finding there)
            if r["status"] == "unreadable":
                chk.extra.setdefault("unreadable_outputs", {}).setdefault(lang, 0)
                chk.extra["unreadable_outputs"][lang] += 1
                continue
            if r["status"] == "error":
                subj = [it for it in items if it["name"] == "Subject"][0]
                legit = subj["kind"] == "tagged_enum" and subj["annotated"] and all(m["skipped"] or m["payload"] == "unit" for m in subj["members"])
                # an annotated item that cannot be generated must be reported: consts exist only for TypeScript, Go and Python
                if has_const and lang in ("kotlin", "swift", "scala") and all("constants are not supported" in e["msg"] for e in r["errors"]):
                    legit = True
                if not legit:
                    chk.mismatch(f"C03/{lang}/{subj['kind']}/error-on-supported-program", f"{lang}: supported program rejected: {r['errors']}",
                                 {"case": case, "items": items, "lang": lang}, "generated", r["errors"])
                continue
            defs, extras = observe_defs(lang, r["obs"], items)
            events.append({"lang": lang, "items": items, "defs": defs, "extras": extras, "status": "ok"})
            meta.append((lang, case, items, src))


PLACE_FILE = {"second_root": ("root2", "cb/src/b.rs"), "third_root": ("root3", "cb/src/b.rs"), "deep6": ("root1", "cb/src/a/b/c/d/e/f/b.rs"),
              "dir_tests": ("root1", "cb/src/tests/b.rs"), "mod_rs": ("root1", "cb/src/inner/mod.rs"), "main_rs": ("root1", "cb/src/main.rs"),
              "build_rs": ("root1", "cb/src/build.rs"), "space_name": ("root1", "cb/src/b file.rs"), "dotted_name": ("root1", "cb/src/types.v2.rs"),
              "nonascii_dir": ("root1", "cb/src/mod\u00e8les/b.rs"), "upper_dir": ("root1", "cb/src/SRC_Types/b.rs"), "no_src": ("root1", "cb/b.rs"),
              "symlink_file": ("root1", "cb/src/b.rs"),
              "sibling_prefix_root": ("root1-types", "cb/src/b.rs"), "prefix_crate_dirs": ("root1", "ca-types/src/b.rs"),
              "ann_abs_path_alone": ("root1", "cb/src/b.rs"), "ann_spaced_alone": ("root1", "cb/src/b.rs"), "ann_path_alone": ("root1", "cb/src/b.rs")}
# an annotated item that cannot be generated (a u64 field) in a file of its own, next to two good files of the same crate; the collector
# is made to receive the files in the order the place names (TYPESHARE_VERIF_ORDER): the run fails wherever the bad file arrives
# (the result of the bad file has no first type name: it is the empty name of the order list)
BAD_ORDER = {"bad_item_arrives_first": ",First,Third", "bad_item_arrives_middle": "First,,Third", "bad_item_arrives_last": "First,Third,"}
# the ungenerable part (a u64) sits in a plain field / in a field of a struct variant / in the payload of a tuple variant / in an alias
BAD_SRC = {"bad_vfield_item": '#[typeshare]\n#[serde(tag = "t", content = "c")]\npub enum Second { Progress { alpha: u32, total: u64, label: String }, Done }\n',
           "bad_payload_item": '#[typeshare]\n#[serde(tag = "t", content = "c")]\npub enum Second { Progress(u64), Done }\n',
           "bad_alias_item": "#[typeshare]\npub type Second = Vec<u64>;\n"}
for _k in list(BAD_ORDER) + list(BAD_SRC):
    PLACE_FILE[_k] = ("root1", "ca/src/bad.rs")
BAD_PLACES = set(BAD_ORDER) | set(BAD_SRC)
# second_run: the files are generated twice into the same location; what is read back is what the SECOND run left there
PLACE_FILE["second_run"] = ("root1", "cb/src/b.rs")
# the annotation of the item that is ALONE in its file, in the spellings other than #[typeshare]
PLACE_ANN = {"ann_abs_path_alone": "#[::typeshare::typeshare]", "ann_spaced_alone": "#[ typeshare ]", "ann_path_alone": "#[typeshare::typeshare]"}
# directory arguments other than the top-level directories of the tree
PLACE_ROOTS = {"prefix_crate_dirs": ["root1/ca", "root1/ca-types", "root1/cc"]}


def places(chk):
    """MC_C03_places: the real binary finds annotated items in every ordinary place of every directory argument."""
    import concurrent.futures as cf
    from .. import cli
    res = common.run_tlc("MC_C03_places", cfg="MC_C03_places", workers=2, timeout=300)
    chk.add_tlc("MC_C03_places", res)
    if not res.replays:
        raise ToolError("MC_C03_places produced no cases")
    work = common.scratch("c03p")
    st = lambda n: {"name": n, "kind": "struct", "annotated": True, "members": [{"name": "alpha", "skipped": False, "payload": "unit", "fields": []}]}
    items = [st("First"), st("Second"), st("Third")]
    args_for = {"typescript": [], "kotlin": ["--java-package", "com.x"]}

    def one(a):
        k, c = a
        d = os.path.join(work, f"p{k}")
        root, rel = PLACE_FILE[c["place"]]
        files = {"root1/ca/src/lib.rs": "#[typeshare]\npub struct First { pub alpha: u32 }\n", "root1/cc/src/lib.rs": "#[typeshare]\npub struct Third { pub alpha: u32 }\n",
                 f"{root}/{rel}": PLACE_ANN.get(c["place"], "#[typeshare]") + "\npub struct Second { pub alpha: u32 }\n"}
        env = None
        if c["place"] in BAD_PLACES:
            files = {"root1/ca/src/lib.rs": "#[typeshare]\npub struct First { pub alpha: u32 }\n", "root1/ca/src/third.rs": "#[typeshare]\npub struct Third { pub alpha: u32 }\n",
                     "root1/ca/src/bad.rs": BAD_SRC.get(c["place"], "#[typeshare]\npub struct Second { pub alpha: u64 }\n")}
            if c["place"] in BAD_ORDER:
                env = {"TYPESHARE_VERIF_ORDER": BAD_ORDER[c["place"]], "TYPESHARE_VERIF_THREADS": "2"}
        if root == "root3":
            files["root2/cz/src/lib.rs"] = "pub struct NotShared;\n"
        if c["place"] == "symlink_file":          # b.rs is a symbolic link to a regular file that lies outside every scanned directory
            real = files.pop(f"{root}/{rel}")
            cli.make_tree(d, dict(files, **{"outside/shared_real.rs": real}))
            os.makedirs(os.path.dirname(os.path.join(d, root, rel)), exist_ok=True)
            os.symlink(os.path.join(d, "outside", "shared_real.rs"), os.path.join(d, root, rel))
            files[f"{root}/{rel}"] = real
        else:
            cli.make_tree(d, files)
        roots = PLACE_ROOTS.get(c["place"]) or sorted({f.split("/")[0] for f in files})
        out = os.path.join(d, "out")
        os.makedirs(out)
        dest = ["-o", os.path.join(out, "out." + common.EXT[c["lang"]])] if c["mode"] == "single" else ["-d", out]
        r = cli.run_cli(["-l", c["lang"]] + args_for[c["lang"]] + dest + [os.path.join(d, x) for x in roots], timeout=20, env=env)
        if c["place"] == "second_run" and r["exit"] == "ok":
            r = cli.run_cli(["-l", c["lang"]] + args_for[c["lang"]] + dest + [os.path.join(d, x) for x in roots], timeout=20, env=env)
        texts = [open(os.path.join(out, f)).read() for f in sorted(os.listdir(out))] if r["exit"] == "ok" else []
        return c, r, texts

    events, meta = [], []
    with cf.ThreadPoolExecutor(max_workers=8) as ex:
        for c, r, texts in ex.map(one, list(enumerate(res.replays))):
            if r["exit"] in ("panic", "timeout", "signal"):
                continue          # C07
            defs = []
            if r["exit"] == "ok":
                for t in texts:
                    try:
                        o = observe.extract(c["lang"], t)
                    except Exception:  # noqa
                        continue
                    defs += [{"name": d["name"], "members": [m["key"] for m in d.get("members", [])], "variant_fields": []} for d in o["defs"]]
            ev = {"items": items, "defs": defs, "extras": []}
            if c["place"] in BAD_PLACES:
                ev.update(ungenerable=1, outcome=r["exit"])
            events.append(ev)
            meta.append((c, r))
    ok, matched, tres = common.trace_validate("Trace_C03", events, timeout=600)
    chk.add_tlc("Trace_C03[places]", tres)
    if matched != len(events):
        raise ToolError(f"Trace_C03 consumed {matched}/{len(events)}")
    for b in tres.bad:
        c, r = meta[b - 1]
        names = [d["name"] for d in events[b - 1]["defs"]]
        kind = "ungenerable-item-not-reported" if c["place"] in BAD_PLACES else "run-failed" if r["exit"] != "ok" else "item-not-found" if "Second" not in names else "other-items-lost-or-duplicated"
        chk.mismatch(f"C03/{c['lang']}+cli/{c['mode']}/place={c['place']}/{kind}", f"{c['lang']} {c['mode']}: annotated items First, Second ({c['place']}), Third -> "
                     f"definitions {names} (exit {r['exit']}: {r['stderr'][-160:].strip()})", {"place": c}, "one definition per annotated item", names)
    chk.traces += len(events) - len(tres.bad)
    for (c, r) in meta:
        chk.judged(("place", c["place"], c["mode"], c["lang"]))
    chk.extra["places_runs"] = len(events)


WALK_SEGDIR = {"plain": "p{k}", "deep": "d{k}/x/y/z", "hidden_dir": ".h{k}", "tools_typeshare": "tt{k}/tools/typeshare", "tools_other": "to{k}/tools/other",
               "other_typeshare": "ot{k}/other/typeshare", "dotignore": "ign{k}", "gitignore": "gi{k}", "link_dir": "lnk{k}", "dir_named_rs": "dn{k}/src/inner.rs",
               "named_target": "nt{k}/target", "named_target_deep": "ntd{k}/src/target/triple", "named_node_modules": "nn{k}/node_modules/pkg", "named_vendor": "nv{k}/vendor",
               "named_build": "nb{k}/build"}
WALK_FNAME = {"plain": "f.rs", "hidden_file": ".f.rs", "upper_ext": "F.RS", "bak": "f.rs.bak", "no_ext": "f", "link_file": "f.rs"}


def walk(chk):
    """MC_Walk / Walk.tla: the directory walk of the real binary, every place x option pair, one tree per option pair and output mode."""
    import re
    from .. import cli
    res = common.run_tlc("MC_Walk", cfg="MC_Walk", workers=2, timeout=300)
    chk.add_tlc("MC_Walk", res)
    if not res.replays:
        raise ToolError("MC_Walk produced no cases")
    # outside /verif: the scratch directory of the other checks lies in a git work tree, whose .gitignore files would count for every run
    import tempfile
    work = tempfile.mkdtemp(prefix="verif_c03w_")
    common._SCRATCH.append(work)
    segs, fnames = sorted(WALK_SEGDIR), sorted(WALK_FNAME)
    events, meta = [], []
    for follow in (False, True):
        for git in (False, True):
            cases = [c for c in res.replays if c["place"]["follow"] == follow and c["place"]["git"] == git]
            for mode in ("single", "multi"):
                d = os.path.join(work, f"w{int(follow)}{int(git)}{mode}")
                markers = {}
                for c in cases:
                    pl = c["place"]
                    k = fnames.index(pl["fname"])
                    marker = f"W{pl['root']}x{segs.index(pl['seg'])}x{k}"
                    markers[marker] = c
                    root = os.path.join(d, f"r{pl['root']}")
                    text = f"#[typeshare]\npub struct {marker} {{ pub w: u32 }}\n"
                    segdir = WALK_SEGDIR[pl["seg"]].format(k=k)
                    if pl["seg"] == "link_dir":          # the directory argument holds a symbolic link to a directory that lies outside every argument
                        real = os.path.join(d, "outside", f"real{pl['root']}_{k}")
                        os.makedirs(os.path.join(real, "src"), exist_ok=True)
                        os.makedirs(root, exist_ok=True)
                        if not os.path.islink(os.path.join(root, segdir)):
                            os.symlink(real, os.path.join(root, segdir))
                        fdir = os.path.join(real, "src")
                    else:
                        fdir = os.path.join(root, segdir) if pl["seg"] == "dir_named_rs" else os.path.join(root, segdir, "src")
                        os.makedirs(fdir, exist_ok=True)
                    fpath = os.path.join(fdir, WALK_FNAME[pl["fname"]])
                    if pl["fname"] == "link_file":
                        os.makedirs(os.path.join(d, "outside", "files"), exist_ok=True)
                        open(os.path.join(d, "outside", "files", marker + ".rs"), "w").write(text)
                        os.symlink(os.path.join(d, "outside", "files", marker + ".rs"), fpath)
                    else:
                        open(fpath, "w").write(text)
                for r in (1, 2):
                    root = os.path.join(d, f"r{r}")
                    open(os.path.join(root, ".ignore"), "w").write("ign*/\n")
                    open(os.path.join(root, ".gitignore"), "w").write("gi*/\n")
                    if git:
                        os.makedirs(os.path.join(root, ".git"), exist_ok=True)
                out = os.path.join(d, "out")
                os.makedirs(out)
                dest = ["-o", os.path.join(out, "out.ts")] if mode == "single" else ["-d", out]
                r = cli.run_cli(["-l", "typescript"] + (["-L"] if follow else []) + dest + [os.path.join(d, "r1"), os.path.join(d, "r2")], timeout=60)
                if r["exit"] in ("panic", "timeout", "signal"):
                    continue          # C07
                if r["exit"] != "ok":
                    chk.refused(f"walk/{mode}", f"typeshare failed on the walk tree (follow={follow}, git={git}, {mode}): {r['stderr'][-200:].strip()}", {"walk": True})
                    continue
                text = "".join(open(os.path.join(out, f)).read() for f in sorted(os.listdir(out)))
                found = set(re.findall(r"\bW[12]x\d+x\d+\b", text))
                for marker, c in sorted(markers.items()):
                    pl = c["place"]
                    events.append({"seg": pl["seg"], "fname": pl["fname"], "follow": follow, "git": git, "read": marker in found})
                    meta.append((c, mode))
                    if (marker in found) != c["predict"]:
                        chk.model_drift(f"Walk!Reads predicts read={c['predict']} for place {pl} ({mode}), the binary read={marker in found}")
    ok, matched, tres = common.trace_validate("Trace_Walk", events, timeout=300)
    chk.add_tlc("Trace_Walk", tres)
    if matched != len(events):
        raise ToolError(f"Trace_Walk consumed {matched}/{len(events)}")
    for b in tres.bad:
        e = events[b - 1]
        c, mode = meta[b - 1]
        chk.mismatch(f"C03/typescript+cli/{mode}/walk/seg={e['seg']}/file={e['fname']}/follow={e['follow']}/{'not-read' if not e['read'] else 'read-but-must-not'}",
                     f"walk: file {WALK_FNAME[e['fname']]} below {WALK_SEGDIR[e['seg']]} (directory argument {c['place']['root']}, follow-links={e['follow']}, git={e['git']}, {mode}): "
                     f"read={e['read']}, demanded {c['demand']}", {"walk": True, "place": c["place"]}, c["demand"], e["read"])
    chk.traces += len(events) - len(tres.bad)
    for e, (c, mode) in zip(events, meta):
        chk.judged(("walk", mode, str(c["place"])))
    chk.extra["walk_events"] = len(events)


def run(chk):
    thorough = chk.tier == "thorough"
    chk.rule = ("spec->impl: item kind x annotation spelling x nesting x skipped-member set x skip spelling (MC_C03) with an annotated neighbour and an "
                "un-annotated decoy, in 6 languages; impl->spec: definitions/members/variant fields/leftovers of each output judged by Trace_C03; random "
                "programs of 2..7 items. distinct = (language, case).")
    chk.assumptions = ["members are identified by their JSON key / wire string (no renames are used in these programs)",
                       "helper structs <Enum><Variant>Inner are attributed to their enum; consts are matched case-insensitively (TS/Python upper-case them)"]
    res = common.run_tlc("MC_C03", cfg="MC_C03_thorough" if thorough else "MC_C03_quick", workers=4, timeout=900)
    chk.add_tlc("MC_C03", res)
    chk.exhaustive = True
    programs = [(c["case"], c["items"]) for c in res.replays]
    if not programs:
        raise ToolError("no cases")
    mid = programs[len(programs) // 2]
    chk.sample({"case": mid[0], "source": source(*mid), "expected": res.replays[len(programs) // 2]["expected"]})
    rng = chk.rng
    kinds = ["struct", "newtype_struct", "unit_struct", "unit_enum", "tagged_enum", "alias", "const"]
    for _ in range(2000 if thorough else 200):
        n = rng.randint(2, 7)
        items = []
        for j in range(n):
            k = rng.choice(kinds)
            name = ["Subject", "Neighbour", "Third", "Fourth", "Fifth", "Sixth", "Seventh"][j]
            ms = []
            if k in ("struct", "unit_enum", "tagged_enum"):
                for q in range(rng.randint(1, 4)):
                    mn = (["alpha", "beta", "gamma", "delta"] if k == "struct" else ["Alpha", "Beta", "Gamma", "Delta"])[q]
                    pay = rng.choice(["unit", "newtype", "struct"]) if k == "tagged_enum" else "unit"
                    fs = [{"name": f"inner_{x}", "skipped": rng.random() < 0.3} for x in "abc"[:rng.randint(1, 3)]] if pay == "struct" else []
                    ms.append({"name": mn, "skipped": rng.random() < 0.3, "payload": pay, "fields": fs})
                if k == "tagged_enum" and all(m["skipped"] or m["payload"] == "unit" for m in ms):
                    ms[0] = dict(ms[0], skipped=False, payload="newtype", fields=[])
            items.append({"name": name, "kind": k, "annotated": rng.random() < 0.7, "members": ms})
        case = {"annotation": rng.choice(["plain", "path", "args"]) if items[0]["annotated"] else "none", "nesting": rng.choice(["top", "mod1", "mod2", "fn_body", "const_block", "static_block", "trait_default_fn", "closure_in_fn"]),
                "spelling": rng.choice(list(SKIP)), "kind": items[0]["kind"], "skips": "random", "mode": rng.choice(["single", "multi"])}
        if not any(it["annotated"] for it in items):
            items[1]["annotated"] = True
        programs.append((case, items))
    events, meta = run_programs(chk, programs)
    nbad = 0
    for part in common.chunks(list(range(len(events))), 20000):
        ok, matched, tres = common.trace_validate("Trace_C03", [events[i] for i in part], timeout=1200)
        chk.add_tlc("Trace_C03", tres)
        if matched != len(part):
            raise ToolError(f"Trace_C03 consumed {matched}/{len(part)}")
        for b in tres.bad:
            lang, case, items, src = meta[part[b - 1]]
            e = events[part[b - 1]]
            nbad += 1
            for kind, ik in classify(e, items):
                chk.mismatch(f"C03/{lang}{'+folder' if case.get('mode') == 'multi' else ''}/{ik}/{case['nesting'] if kind in ('silent-omission', 'missing-def') else 'anynest'}/"
                             f"{case['spelling'] if 'member' in kind or 'field' in kind else 'anyspelling'}/{kind}",
                             f"{lang}: {kind} ({ik}) for case {case}: defs {e['defs']} extras {e['extras']}", {"case": case, "items": items, "lang": lang},
                             "Program!ExpectedDefs", e["defs"])
    chk.traces += len(events) - nbad
    chk.extra["trace_events"] = len(events)
    for e, m in zip(events, meta):
        chk.judged((m[0], str(m[1]), str([(it["name"], it["kind"], it["annotated"]) for it in m[2]])))
    places(chk)
    walk(chk)


def replay(chk, rec):
    c = rec["case"]
    if c.get("walk"):
        walk(chk)
        chk.mismatches = {k: v for k, v in chk.mismatches.items() if k == rec["signature"]}
        return
    if "place" in c:
        places(chk)
        chk.mismatches = {k: v for k, v in chk.mismatches.items() if k == rec["signature"]}
        return
    events, meta = run_programs(chk, [(c["case"], c["items"])])
    keep = [(e, m) for e, m in zip(events, meta) if m[0] == c["lang"]]
    if keep:
        ok, matched, tres = common.trace_validate("Trace_C03", [k[0] for k in keep])
        for b in tres.bad:
            chk.mismatch(rec["signature"], rec["what"], c, rec["expected"], keep[b - 1][0]["defs"])
    chk.mismatches = {k: v for k, v in chk.mismatches.items() if k == rec["signature"]}
