"""C02: enum wire encoding (variant names, tag and content keys) equals serde's.

P = spec/SerdeAttrs.tla VariantWire (+ Trace_C02!Ok for the facets each language carries)
spec->impl: MC_C02 enumerates unit / adjacently tagged enums: variant identifier x per-variant rename x payload kind x
            rename_all x tag/content pair x plain/recursive/generic, with the wire strings P requires; each case is
            generated in 6 languages and every occurrence of each wire string / key is read back.
impl->spec: random enums with dictionary variant names (1..6 variants, mixed kinds), judged by Trace_C02.
"""
import os

from .. import common, observe
from ..common import ToolError

from .. import compose

NEEDS = ["driver"]


def source(enum, variants, rule, tag, content, flavour="plain", spelling="merged"):
    """variants: [(ident, rename|None, kind)]. spelling (MC_C02!Spellings): how the container arguments are spread over #[serde(..)]
    attributes - serde merges all of them: merged (one list) / split (tag and content first, rename_all in a second attribute) /
    split_rev (rename_all first) / apart (an unrelated #[serde(..)] and a doc comment first, each argument in its own attribute)"""
    name = "Subject"
    if "+" in flavour:
        flavour, spelling = flavour.split("+")
    gen = "<T>" if flavour == "generic" else ""
    attrs = []
    tc = [f'tag = "{tag}"', f'content = "{content}"'] if enum == "tagged" else []
    ra = [f'rename_all = "{rule}"'] if rule != "none" else []
    if spelling == "merged":
        groups = [tc + ra]
    elif spelling == "split":
        groups = [tc or ["deny_unknown_fields"], ra]
    elif spelling == "split_rev":
        groups = [ra, tc or ["deny_unknown_fields"]]
    elif spelling == "after_list":
        # a nested-LIST argument stands before the arguments that matter, in the same attribute
        groups = [['bound(deserialize = "")'] + tc + ra]
    elif spelling == "between_lists":
        groups = [tc[:1] + ['bound(serialize = "", deserialize = "")'] + tc[1:] + ['rename(deserialize = "LegacySubject")'] + ra]
    else:
        groups = [["deny_unknown_fields"]] + [[x] for x in tc] + [ra]
        attrs.append("/// doc")
    for g in groups:
        if g:
            attrs.append(f"#[serde({', '.join(g)})]")
    body = ""
    for ident, ren, kind in variants:
        if "@" in kind:          # MC_C02!Marks: a one-directional serde flag on the variant
            kind, mark = kind.split("@")
            body += f"    #[serde({mark})]\n"
        if ren is not None:
            body += '    #[serde(rename = "%s")]\n' % ren.replace("\\", "\\\\").replace('"', '\\"')
        if kind == "unit":
            body += f"    {ident},\n"
        elif kind == "newtype_opt":          # an optional payload: the decoders get a branch for `content: null`
            body += f"    {ident}(Option<String>),\n"
        elif kind == "newtype":
            ty = {"Rec": f"Box<{name}{gen}>", "GenV": "T"}.get(ident, "u32")
            body += f"    {ident}({ty}),\n"
        else:
            body += f"    {ident} {{ first_field: u32, second: Option<String> }},\n"
    return f"#[typeshare]\n" + "".join(a + "\n" for a in attrs) + f"pub enum {name}{gen} {{\n{body}}}\n"


RENAME_TEXT = {"$a_quote_b": '$a"b', "empty": ""}          # constants of MC_C02!RenameOf whose name is not the text itself


TOK = {"<e>": "é", "<E>": "É", "<a>": "ä", "<A>": "Ä"}          # spec/Chars.tla: tokens for non-ASCII letters


def real(s):
    for k, v in TOK.items():
        s = s.replace(k, v)
    return s


def case_variants(c):
    vs = [(real(c["ident"]), None if c["rename"] == "none" else RENAME_TEXT.get(c["rename"], c["rename"]), c["kind"] + ("@" + c["mark"] if c.get("mark", "none") != "none" else "")),
          ("Other", None, "unit")]
    if c["enum"] == "tagged":
        vs.append(("Last", None, "newtype"))
        if c["flavour"].startswith("recursive"):
            vs.append(("Rec", None, "newtype"))
        if c["flavour"].startswith("generic"):
            vs.append(("GenV", None, "newtype"))
    return vs


def observe_enum(lang, obs):
    d = observe.find_def(obs, "Subject")
    if not d or d["kind"] not in ("enum", "union"):
        return None
    wires = []
    for v in d["variants"]:
        ws = set(v.get("wires") or [v["wire"]])
        wires.append(v["wire"] if len(ws) == 1 else "|".join(sorted(ws)))     # disagreeing occurrences never equal P's string
    return {"wires": wires, "tag_obs": d.get("tag_keys", []), "content_obs": d.get("content_keys", []), "kind": d["kind"]}


def vclass(ident):
    if ident.isupper() and len(ident) > 1:
        return "ALLCAPS"
    caps = sum(1 for ch in ident if ch.isupper())
    runs = any(ident[i].isupper() and ident[i + 1].isupper() for i in range(len(ident) - 1))
    return "acronym-run" if runs else "digit" if any(ch.isdigit() for ch in ident) else "single-word" if caps == 1 else "camel"


def signature(lang, enum, rule, variants, o, tag, content, what):
    return f"C02/{lang}/{enum}/{rule}/{what}"


def judge(chk, lang, enum, rule, variants, tag, content, o, exp_wires, case_desc):
    chk.judged((lang, str(case_desc)))
    rec = {"lang": lang, "enum": enum, "rule": rule, "variants": variants, "tag": tag, "content": content}
    if o is None:
        chk.mismatch(f"C02/{lang}/{enum}/missing-def", f"{lang}: enum not found in the output for {case_desc}", rec, exp_wires, None)
        return
    if len(o["wires"]) != len(exp_wires):
        chk.mismatch(f"C02/{lang}/{enum}/case-count", f"{lang}: {len(o['wires'])} cases for {len(exp_wires)} variants ({case_desc})", rec, exp_wires, o["wires"])
        return
    for (ident, ren, kind), w, e in zip(variants, o["wires"], exp_wires):
        if w != e:
            chk.mismatch(f"C02/{lang}/{enum}/{rule}/{vclass(ident)}/{'renamed' if ren else 'no-rename'}/{kind}/wire!=serde",
                         f"{lang}: variant {ident} ({kind}, rename={ren}, rename_all={rule}): wire `{w}`, serde `{e}`", rec, e, w)
    if enum == "tagged":
        for t in o["tag_obs"]:
            if t != tag:
                chk.mismatch(f"C02/{lang}/tagged/tag-key", f"{lang}: tag key occurrence `{t}`, serde tag = `{tag}` ({case_desc})", rec, tag, o["tag_obs"])
        for t in o["content_obs"]:
            if t != content:
                chk.mismatch(f"C02/{lang}/tagged/content-key", f"{lang}: content key occurrence `{t}`, serde content = `{content}` ({case_desc})", rec, content, o["content_obs"])
        if lang in ("typescript", "swift", "go", "python") and not o["tag_obs"]:
            chk.mismatch(f"C02/{lang}/tagged/tag-key-absent", f"{lang}: no tag key in the output ({case_desc})", rec, tag, [])


def run_batch(chk, batch, judge_now):
    """batch: [(enum, variants, rule, tag, content, flavour, exp_wires|None, desc)] -> events"""
    srcs = [source(b[0], b[1], b[2], b[3], b[4], b[5]) for b in batch]
    results = observe.generate(srcs)
    # the same programs once more for Go with the file-only option uppercase_acronyms (it re-spells Go identifiers such as
    # UserID; the wire strings and tag / content keys must not change)
    acr = observe.generate(srcs, langs=["go"], cfgs={"go": {"uppercase_acronyms": ["ID", "URL", "API"]}})
    events, meta = [], []
    for b, per, per_acr in zip(batch, results, acr):
        enum, variants, rule, tag, content, flavour, exp, desc = b
        per = dict(per, **{"go+acronyms": per_acr["go"]})
        for lang in common.LANGS + ["go+acronyms"]:
            r = per[lang]
            if r["status"] in ("panic", "abort", "hang"):
                continue
            if r["status"] == "unreadable":
                chk.extra.setdefault("unreadable_outputs", {}).setdefault(lang, 0)
                chk.extra["unreadable_outputs"][lang] += 1
                continue
            if r["status"] == "error":
                if all(e["msg"].startswith("generate:") for e in r["errors"]):
                    continue          # the backend refuses (e.g. generics in Go)
                spelling = flavour.split("+")[1] if "+" in flavour else "merged"
                if spelling != "merged":
                    # the same enum written with its container arguments in ONE #[serde(..)] list is accepted (that spelling is part of
                    # every run): serde merges the attributes, so this is the same enum and P defines its wire strings
                    chk.mismatch(f"C02/{lang}/{enum}/spelling={spelling}/input-refused", f"{lang}: enum with its serde arguments spread over several attributes "
                                 f"({spelling}) is refused: {r['errors'][0]['msg'][:120]}", {"lang": lang, "enum": enum, "rule": rule, "variants": variants, "tag": tag,
                                 "content": content, "spelling": spelling}, "the wire strings of SerdeAttrs!VariantWire", "refused")
                    continue
                chk.refused(f"{lang}/{enum}", f"{lang}: enum case rejected: {str(r['errors'])[:200]}", {"lang": lang, "enum": enum, "rule": rule, "variants": variants, "tag": tag, "content": content})
                continue
            o = observe_enum(lang.split("+")[0], r["obs"])
            if judge_now:
                judge(chk, lang, enum, rule, variants, tag, content, o, exp, desc)
            if o is not None:
                events.append({"lang": lang.split("+")[0], "enum": enum, "rule": rule, "tag": tag, "content": content,
                               "variants": [{"ident": list(v[0]), "rename": ["<none>"] if v[1] is None else list(v[1])} for v in variants],
                               "wires": [list(w) for w in o["wires"]], "tag_obs": o["tag_obs"], "content_obs": o["content_obs"],
                               "has_payload": any(v[2].split("@")[0] != "unit" for v in variants)})
                meta.append((lang, enum, rule, variants, tag, content, o, desc))
    return events, meta


def run(chk):
    thorough = chk.tier == "thorough"
    chk.rule = ("spec->impl: unit and adjacently tagged enums: variant identifier (single letter, word, camel, digit, acronym run) x per-variant rename "
                "(none, plain, dashed) x payload (unit, newtype, struct) x 8 rename_all rules + none x tag/content pairs x plain/recursive/generic "
                "(MC_C02) in 6 languages; impl->spec: random enums of 1..6 dictionary-named variants judged by Trace_C02. distinct = (language, case).")
    chk.assumptions = ["wire strings and every occurrence of tag/content keys are collected by the extractors (Swift: ContainerCodingKeys + every forKey:, "
                       "Go: carrier struct tag + Unmarshal/Marshal inner struct tags, Python: tag/content field of every variant class)",
                       "Kotlin and Scala carry no tag key: judged on variant names and the content key only"]
    res = common.run_tlc("MC_C02", cfg="MC_C02_thorough" if thorough else "MC_C02_quick", workers=4, timeout=900)
    chk.add_tlc("MC_C02", res)
    chk.exhaustive = True
    batch = []
    for c in res.replays:
        k = c["case"]
        vs = case_variants(k) + [(x["ident"], x["rename"], "newtype" if j % 2 else "unit") for j, x in enumerate(c.get("colliding", []))]
        batch.append((k["enum"], vs, k["rule"], c["tag"], c["content"], k["flavour"] + "+" + k.get("spelling", "merged"), [real(w) for w in c["wires"]], k))
    if not batch:
        raise ToolError("no cases")
    mid = batch[len(batch) // 2]
    chk.sample({"case": mid[7], "required_wires": mid[6], "source": source(*mid[:6])})
    run_batch(chk, batch, True)
    chk.traces += len(batch)

    rng = chk.rng
    words = [l.strip() for l in open(os.path.join(common.ROOT, "data", "dictionary_variants.txt")) if l.strip()]
    words = [w for w in words if w[0].isupper() and w not in ("Self",)]
    rules = ["none", "lowercase", "UPPERCASE", "PascalCase", "camelCase", "snake_case", "SCREAMING_SNAKE_CASE", "kebab-case", "SCREAMING-KEBAB-CASE"]
    rbatch = []
    for _ in range(3000 if thorough else 300):
        enum = rng.choice(["unit", "tagged", "tagged"])
        n = rng.randint(1, 6)
        idents = rng.sample(words, n)
        vs = []
        for idt in idents:
            ren = None
            if rng.random() < 0.25:
                ren = rng.choice("abcxyzABC_") + "".join(rng.choice("abcXYZ09_-") for _ in range(rng.randint(0, 6)))
            vs.append((idt, ren, "unit" if enum == "unit" else rng.choice(["unit", "newtype", "struct"])))
        if enum == "tagged" and all(v[2] == "unit" for v in vs):
            vs[0] = (vs[0][0], vs[0][1], "newtype")
        tag, content = rng.choice([("type", "content"), ("t", "c"), ("kind", "payload"), ("tagKey", "content_key")])
        rbatch.append((enum, vs, rng.choice(rules), tag, content, "plain+" + rng.choice(["merged", "merged", "split", "split_rev", "apart"]), None, None))
    silent = common.Check(chk.pid, chk.tier, chk.seed)
    events, meta = run_batch(silent, rbatch, False)
    nbad = 0
    for part in common.chunks(list(range(len(events))), 20000):
        ok, matched, tres = common.trace_validate("Trace_C02", [events[i] for i in part], timeout=900)
        chk.add_tlc("Trace_C02", tres)
        if matched != len(part):
            raise ToolError(f"Trace_C02 consumed {matched}/{len(part)}")
        for b in tres.bad:
            lang, enum, rule, variants, tag, content, o, desc = meta[part[b - 1]]
            nbad += 1
            # classify with the same vocabulary as the direct judge (the verdict is TLC's; this only names it)
            sub = common.Check(chk.pid, chk.tier, chk.seed)
            e = events[part[b - 1]]
            chk.mismatch(f"C02/{lang}/{enum}/{rule}/trace-rejected/{'+'.join(sorted({vclass(v[0]) for v in variants}))}",
                         f"{lang}: Trace_C02 rejects enum {variants} rule={rule} tag={tag} content={content}: wires {o['wires']} tags {o['tag_obs']} contents {o['content_obs']}",
                         {"lang": lang, "enum": enum, "rule": rule, "variants": variants, "tag": tag, "content": content}, "Trace_C02!Ok", o)
    chk.traces += len(events) - nbad
    chk.extra["trace_events"] = len(events)
    for e, m in zip(events, meta):
        chk.judged((m[0], "t", str(m[3]), m[2]))
    compose.run(chk, "wires")
    compose.run_variants(chk, "wires")


def replay(chk, rec):
    if any(k in rec.get("case", {}) for k in ("compose", "members", "variants")):
        return compose.replay(chk, rec, "wires")
    c = rec["case"]
    variants = [tuple(v) for v in c["variants"]]
    silent = common.Check(chk.pid, chk.tier, chk.seed)
    events, meta = run_batch(silent, [(c["enum"], variants, c["rule"], c["tag"], c["content"], "plain", None, None)], False)
    keep = [(e, m) for e, m in zip(events, meta) if m[0] == c["lang"]]
    if not keep:
        chk.mismatch(rec["signature"], rec["what"], c, rec["expected"], "enum not found")
        return
    ok, matched, tres = common.trace_validate("Trace_C02", [k[0] for k in keep])
    for b in tres.bad:
        chk.mismatch(rec["signature"], rec["what"], c, rec["expected"], keep[b - 1][1][6])
