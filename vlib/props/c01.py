"""C01: field wire names in generated types equal serde's JSON keys.

P = spec/SerdeAttrs.tla FieldWire / RuleForField (on top of SerdeCase.tla)
spec->impl: MC_C01 enumerates container kind x identifier x serde(rename) x rename_all x enum-level rule x attribute
            spelling with the required keys; each case is generated in all 6 languages (and with a prefix for
            Swift/Kotlin) and the key bound to every member is read back.
impl->spec: dictionary field names with random renames and rules; every observed member is an event judged by
            Trace_C01.
"""
import os

from .. import common, observe
from ..common import ToolError

from .. import compose

NEEDS = ["driver"]
KEYWORDS = set("as break const continue crate else enum extern false fn for if impl in let loop match mod move mut pub ref return "
               "self Self static struct super trait true type unsafe use where while async await dyn abstract become box do final "
               "macro override priv typeof unsized virtual yield try gen".split())


SNAKE_FAMILY = ("snake_case", "SCREAMING_SNAKE_CASE", "kebab-case", "SCREAMING-KEBAB-CASE")


TOK = {"<e>": "é", "<E>": "É", "<a>": "ä", "<A>": "Ä"}          # spec/Chars.tla: tokens for non-ASCII letters


def real(s):
    """spec token string -> real text"""
    for k, v in TOK.items():
        s = s.replace(k, v)
    return s


def rust_ident(name):
    name = real(name)
    return name if name.startswith("r#") else ("r#" + name if name in KEYWORDS else name)


def field_attrs(rename, spelling):
    if rename == "empty":          # MC_C01!RenameOf("empty"): serde(rename = "")
        rename = ""
    elif rename in (None, "none", ""):
        return {"merged": [], "split": ["#[serde(default)]"], "reversed": ['#[serde(alias = "zz")]'], "after_list": ['#[serde(bound(deserialize = ""))]'],
                "extra": ["/// doc", '#[cfg(feature = "f")]']}.get(spelling, [])
    if rename in (None, "none"):
        raise ValueError(rename)
    r = f'rename = "{rename}"'
    return {"merged": [f"#[serde({r})]"],
            "split": ["#[serde(default)]", f"#[serde({r})]"],
            "reversed": [f'#[serde(alias = "zz", {r})]'],
            "after_list": [f'#[serde(bound(deserialize = ""), {r})]'],          # a nested-list argument before the rename, in the same attribute
            "extra": ["/// doc", f'#[serde(skip_serializing_if = "Option::is_none", {r})]', "#[allow(dead_code)]"]}[spelling]


LAYOUTS = {"two": ["S", "N"], "then_word": ["S", "N", "tail"], "word_first": ["head", "S", "N"], "subject_last": ["N", "S"],
           "word_last_only": ["S", "tail"], "between_words": ["head", "S", "tail"]}


def source(case):
    ident = rust_ident(case["ident"])
    fa = field_attrs(case["rename"], case["spelling"])
    # MC_C01!Decors
    fa = fa + {"none": [], "ts_readonly": ["#[typeshare(typescript(readonly))]"], "ts_date": ['#[typeshare(typescript(type = "Date"))]'],
               "type_override": ['#[typeshare(typescript(type = "bigint"), swift(type = "Int"), kotlin(type = "Int"), go(type = "uint"), scala(type = "Short"), python(type = "int"))]']}[case.get("decor", "none")]
    subject = "".join(f"        {a}\n" for a in fa) + f"        {ident}: Option<u32>,\n"
    member = {"S": subject, "N": "        plain_one: String,\n", "head": "        head: bool,\n", "tail": "        tail: bool,\n"}
    fields = "".join(member[m] for m in LAYOUTS[case.get("layout", "two")])          # MC_C01!LayoutOf
    rule = case["rule"]
    if case["kind"] == "struct":
        stacked = "#[serde(deny_unknown_fields)]\n" if case["spelling"] in ("split", "extra") else ""
        ra = f'{stacked}#[serde(rename_all = "{rule}")]\n' if rule != "none" else ""
        if case["spelling"] == "after_list" and rule != "none":
            ra = f'#[serde(bound(deserialize = ""), rename_all = "{rule}")]\n'
        return f"#[typeshare]\n{ra}pub struct Cont {{\n{fields}}}\n"
    er = case.get("enum_rule", "none")
    extra = f', rename_all = "{er}"' if er != "none" else ""
    if case.get("enum_fields_rule", "none") != "none":
        extra += ', rename_all_fields = "%s"' % case["enum_fields_rule"]
    vstacked = '    #[serde(alias = "V")]\n' if case["spelling"] in ("split", "extra") else ""
    va = f'{vstacked}    #[serde(rename_all = "{rule}")]\n' if rule != "none" else ""
    if case["spelling"] == "after_list" and rule != "none":
        va = f'    #[serde(bound(deserialize = ""), rename_all = "{rule}")]\n'
    # MC_C01!Siblings: a second struct variant, before / after the variant under test, with / without a rule of its own
    sib = case.get("sibling", "none")
    sr = case.get("sibling_rule", "none")
    dec = (f'    #[serde(rename_all = "{sr}")]\n' if sr != "none" else "") + "    Dec {\n        dec_word: u32,\n    },\n"
    return (f'#[typeshare]\n#[serde(tag = "type", content = "content"{extra})]\npub enum Cont {{\n    Unit,\n{dec if sib == "ruled_before" else ""}{va}    Var {{\n{fields}    }},\n'
            f'{dec if sib in ("ruled_after", "plain_after") else ""}}}\n')


def members_of(lang, obs, case, prefix=""):
    if case["kind"] == "struct":
        d = observe.find_def(obs, prefix + "Cont")
        return d.get("members") if d else None
    return observe.struct_variant_members(lang, obs, [prefix + "Cont", "Cont"], "Var", "Var" if case.get("sibling", "none") != "none" else None)


def ident_class(name):
    n = name[2:] if name.startswith("r#") else name
    if name.startswith("r#"):
        return "raw"
    if n in KEYWORDS or n in ("class", "default"):
        return "keyword"
    if "<" in n or not n.isascii():
        return "non-ascii"
    if n.endswith("_") or n.startswith("_"):
        return "edge-underscore"
    if n != n.lower():
        return "has-uppercase"
    return "plain"


def rename_class(r):
    if r in (None, "none", ""):
        return "none"
    return "empty" if r == "empty" else "dashed" if "-" in r else "keyword" if r in ("class", "default", "type") else "dollar" if "$" in r else "plain"


def signature(lang, case, kind, which="field"):
    return (f"C01/{lang}/{case['kind']}/{ident_class(case['ident'])}/{rename_class(case['rename'])}/{case['rule']}/"
            f"{'enum-rule' if case.get('enum_rule', 'none') != 'none' else 'fields-rule' if case.get('enum_fields_rule', 'none') != 'none' else 'no-enum-rule'}/{which}/{kind}")


def judge_obs(chk, lang, case, members, expected_keys, prefix=""):
    if members is None:
        chk.mismatch(signature(lang, case, "container-missing"), f"{lang}: container of case {case} not found in the output", {"case": case, "lang": lang, "prefix": prefix}, expected_keys, None)
        return
    keys = [m["key"] for m in members]
    if lang == "scala" and any("-" in k for k in expected_keys):
        return   # Scala carries no key binding: dashed keys are outside the property
    if lang.startswith("go") and case.get("rename") == "empty":
        return   # a Go struct tag cannot name the empty key (`json:""` means "use the field name"): outside what Go output can carry
    chk.judged((lang, prefix, str(case)))
    if len(keys) != len(expected_keys):
        chk.mismatch(signature(lang, case, "member-count"), f"{lang}: members {keys}, required {expected_keys}", {"case": case, "lang": lang, "prefix": prefix}, expected_keys, keys)
        return
    names = {"S": "field", "N": "neighbour", "head": "neighbour", "tail": "neighbour"}
    for which, (k, e) in zip([names[m] for m in LAYOUTS[case.get("layout", "two")]], zip(keys, expected_keys)):
        if k != e:
            sig = signature(lang, case, "key!=serde", which)
            # the layout is named only when it is necessary: the same case in the plain two-member layout (judged first) conforms
            if case.get("layout", "two") != "two" and sig not in chk.mismatches:
                sig += "/layout=" + case["layout"]
            if case.get("sibling", "none") != "none" and sig not in chk.mismatches:
                sig += "/sibling=" + case["sibling"]
            chk.mismatch(sig, f"{lang}: {which} of {case}: JSON key `{k}`, serde uses `{e}`",
                         {"case": case, "lang": lang, "prefix": prefix}, e, k)


def run_cases(chk, cases, prefix_cfgs):
    """cases: [(case, expected_keys|None)] -> events for Trace_C01"""
    events, meta = [], []
    srcs = [source(c) for c, _ in cases]
    for tag, cfgs in prefix_cfgs:
        prefix = "" if tag.startswith("@") else tag
        langs = common.LANGS if not tag else ["go"] if tag == "@acronyms" else ["swift", "kotlin"]
        results = observe.generate(srcs, langs=langs, cfgs=cfgs)
        for (case, exp), per in zip(cases, results):
            for lang0 in langs:
                r = per[lang0]
                lang = lang0 + ("+acronyms" if tag == "@acronyms" else "")
                if r["status"] in ("panic", "abort", "hang"):
                    continue     # C07's business
                if r["status"] == "unreadable":
                    chk.extra.setdefault("unreadable_outputs", {}).setdefault(lang, 0)
                    chk.extra["unreadable_outputs"][lang] += 1
                    continue     # C10's business (invalid output), not a key verdict
                if r["status"] == "error":
                    chk.refused(f"{lang}/{case['kind']}", f"{lang}: case {case} rejected by typeshare: {str(r['errors'])[:200]}", {"case": case, "lang": lang, "prefix": prefix})
                    continue
                ms = members_of(lang0, r["obs"], case, prefix if lang0 in ("swift", "kotlin") else "")
                if exp is not None:
                    judge_obs(chk, lang, case, ms, exp, prefix)
                    if lang0 == "typescript" and case.get("decor") == "ts_date" and ms is not None:
                        # the member has a custom JSON translation (Date): the keys the generated reviver tests bind it once more
                        subject = exp[LAYOUTS[case.get("layout", "two")].index("S")]
                        rk = r["obs"].get("reviver_keys", [])
                        if rk != [subject]:
                            chk.mismatch(signature(lang, case, "reviver-key!=serde"), f"typescript: the reviver of {case} tests the keys {rk}, serde's key of the Date member is `{subject}`",
                                         {"case": case, "lang": lang, "prefix": prefix}, [subject], rk)
                if exp is not None and case.get("sibling", "none") != "none":
                    sm = observe.struct_variant_members(lang0, r["obs"], [(prefix if lang0 in ("swift", "kotlin") else "") + "Cont", "Cont"], "Dec", "Dec")
                    sk = [m["key"] for m in sm] if sm is not None else None
                    if sk != [case["sibling_key"]] and not (lang0 == "scala" and "-" in case["sibling_key"]):
                        chk.mismatch(signature(lang, case, "key!=serde", "sibling-variant") + "/sibling=" + case["sibling"],
                                     f"{lang}: {case}: the member of the sibling variant Dec (rule {case['sibling_rule']}) has the keys {sk}, serde uses `{case['sibling_key']}`",
                                     {"case": case, "lang": lang, "prefix": prefix}, [case["sibling_key"]], sk)
                if ms and len(ms) == 2 and case.get("layout", "two") == "two" and "<" not in case["ident"]:
                    ident = case["ident"][2:] if case["ident"].startswith("r#") else case["ident"]
                    for m, (idt, ren) in zip(ms, ((ident, case["rename"]), ("plain_one", "none"))):
                        events.append({"lang": lang0, "ident": list(idt), "rename": ["<none>"] if ren in ("none", None, "") else [] if ren == "empty" else list(ren), "rule": case["rule"], "key": list(m["key"]),
                                       "kind": case["kind"], "fields_rule": case.get("enum_fields_rule", "none") if case["kind"] == "variant" else "none"})
                        meta.append((lang, case, prefix))
    return events, meta


def run(chk):
    thorough = chk.tier == "thorough"
    chk.rule = ("spec->impl: container (struct / struct variant) x identifier (plain, raw, keyword, underscore edge) x serde(rename) (none, plain, "
                "dashed, keyword) x 8 rename_all rules + none x enum-level rename_all (must not leak into variant fields) x attribute spelling "
                "(MC_C01), generated in 6 languages, Swift/Kotlin also with a prefix; impl->spec: dictionary field names with random renames/"
                "rules judged by Trace_C01. distinct = (language, prefix, case).")
    chk.assumptions = ["`key` of a member = explicit binding if the generated code has one (quoted property, @SerialName, CodingKeys raw value, json tag, "
                       "Field(alias)), else the identifier itself - as reported by the extractors",
                       "Scala: cases whose key contains '-' are out of scope (no binding exists in Scala output)",
                       "serde(rename = \"\") on a FIELD is outside the case space (the property quantifies over renames [A-Za-z_][A-Za-z0-9_-]*; Go cannot spell an empty key, TypeScript prints no property name at all); on variants it is judged by C02"]
    res = common.run_tlc("MC_C01", cfg="MC_C01_thorough" if thorough else "MC_C01_quick", workers=4, timeout=900)
    chk.add_tlc("MC_C01", res)
    chk.exhaustive = True
    cases = sorted([(dict(c["case"], sibling_rule=c["sibling_rule"], sibling_key=c["sibling_key"]), [real(k) for k in c["keys"]]) for c in res.replays],
                   key=lambda ck: (ck[0].get("layout", "two") != "two", ck[0].get("sibling", "none") != "none"))
    if not cases:
        raise ToolError("no cases")
    chk.sample({"case": cases[len(cases) // 3][0], "required_keys": cases[len(cases) // 3][1], "source": source(cases[len(cases) // 3][0])})
    prefix_cfgs = [("", None), ("Pre", {"swift": {"prefix": "Pre"}, "kotlin": {"prefix": "Pre", "package": "com.x"}}),
                   ("@acronyms", {"go": {"uppercase_acronyms": ["ID", "URL", "API"]}})]        # MC_C01!Configs
    run_cases(chk, cases, prefix_cfgs)
    chk.traces += len(cases)

    # impl -> spec
    rng = chk.rng
    words = [l.strip() for l in open(os.path.join(common.ROOT, "data", "dictionary_fields.txt")) if l.strip()]
    words = [w for w in words if w not in ("self", "super", "crate", "Self", "_") and w.islower() or "_" in w]
    words = [w for w in words if w == w.lower()]
    rules = ["none", "lowercase", "UPPERCASE", "PascalCase", "camelCase", "snake_case", "SCREAMING_SNAKE_CASE", "kebab-case", "SCREAMING-KEBAB-CASE"]
    alpha = "abcxyzABCXYZ09_-"
    rcases = []
    for _ in range(4000 if thorough else 400):
        w = rng.choice(words)
        rule = rng.choice(rules)
        if rng.random() < 0.2 and rule not in SNAKE_FAMILY:      # MC_C01!DeferredToC16: that combination is judged by C16
            k = rng.randrange(3)
            w = w.upper() if k == 0 else "".join(p.capitalize() if i else p for i, p in enumerate(w.split("_"))) if k == 1 else w[:1].upper() + w[1:]
            if w in ("Self", "_") or not (w[0].isalpha() or w[0] == "_"):
                w = "Zed"
        ren = "none"
        if rng.random() < 0.4:
            ren = rng.choice("abcxyzABC_") + "".join(rng.choice(alpha) for _ in range(rng.randint(0, 8)))
        rcases.append(({"kind": rng.choice(["struct", "variant"]), "ident": w, "rename": ren, "rule": rule,
                        "enum_rule": rng.choice(["none", "none", "UPPERCASE", "kebab-case"]), "spelling": rng.choice(["merged", "split", "reversed", "extra"]),
                        "enum_fields_rule": rng.choice(["none", "none", "none", "camelCase", "PascalCase", "UPPERCASE"])}, None))
    silent = common.Check(chk.pid, chk.tier, chk.seed)
    events, meta = run_cases(silent, rcases, prefix_cfgs[:1])
    nbad = 0
    for part in common.chunks(list(range(len(events))), 30000):
        ok, matched, tres = common.trace_validate("Trace_C01", [events[i] for i in part], timeout=900)
        chk.add_tlc("Trace_C01", tres)
        if matched != len(part):
            raise ToolError(f"Trace_C01 consumed {matched}/{len(part)}")
        for b in tres.bad:
            lang, case, prefix = meta[part[b - 1]]
            e = events[part[b - 1]]
            nbad += 1
            chk.mismatch(signature(lang, case, "key!=serde", "field" if "".join(e["ident"]) != "plain_one" else "neighbour"),
                         f"{lang}: Trace_C01 rejects key `{''.join(e['key'])}` for `{''.join(e['ident'])}` (rename `{''.join(e['rename'])}`, rule {e['rule']})",
                         {"case": case, "lang": lang, "prefix": prefix}, "SerdeAttrs!FieldWire", "".join(e["key"]))
    chk.traces += len(events) - nbad
    chk.extra["trace_events"] = len(events)
    for e, m in zip(events, meta):
        chk.judged((m[0], "t", "".join(e["ident"]), "".join(e["rename"]), e["rule"]))
    compose.run(chk, "keys")
    compose.run_members(chk, "keys")
    compose.run_variants(chk, "keys")


def replay(chk, rec):
    if any(k in rec.get("case", {}) for k in ("compose", "members", "variants")):
        return compose.replay(chk, rec, "keys")
    c = rec["case"]
    silent = common.Check(chk.pid, chk.tier, chk.seed)
    pc = [(c.get("prefix", ""), {"swift": {"prefix": c.get("prefix", "")}, "kotlin": {"prefix": c.get("prefix", ""), "package": "com.x"}} if c.get("prefix") else None)]
    if c["lang"].endswith("+acronyms"):
        pc = [("@acronyms", {"go": {"uppercase_acronyms": ["ID", "URL", "API"]}})]
    events, meta = run_cases(silent, [(c["case"], None)], pc)
    keep = [(e, m) for e, m in zip(events, meta) if m[0] == c["lang"]]
    if not keep:
        chk.mismatch(rec["signature"], rec["what"], c, rec["expected"], "container or members not found")
        return
    ok, matched, tres = common.trace_validate("Trace_C01", [k[0] for k in keep])
    for b in tres.bad:
        chk.mismatch(rec["signature"], rec["what"], c, rec["expected"], "".join(keep[b - 1][0]["key"]))
