"""C04: a generated field is optional iff the Rust field is Option<T> or carries the bare serde(default).

P = spec/SerdeAttrs.tla Optional + spec/TypeExpr.tla (IsOpt, Conf) - judged by Trace_C04
spec->impl: MC_C04 enumerates wrapping shape (T, Option<T>, Option<Option<T>>, Box<Option<T>>, Option<Box<T>>,
            Arc<Option<Option<T>>>, &Option<T>, Vec<Option<T>>) x T (primitive, container, user type, generic parameter,
            unit, generic instance) x spelling of serde(default) (absent, bare, merged with rename, separate attribute,
            after another attribute, `default = "path"`), placed as struct field, struct-variant field, newtype payload and
            alias, generated in 6 languages.
impl->spec: every observed member (optional marker + type under it) is an event judged by Trace_C04; random trees with
            random default spellings extend the enumeration.
"""
from .. import common, typecases
from ..common import ToolError
from . import c05

from .. import compose

NEEDS = ["driver"]
DEFAULT_ATTRS = {
    "absent": None,
    "bare": ["#[serde(default)]"],
    "merged_rename": ['#[serde(rename = "f", default)]'],
    "separate": ['#[serde(alias = "ff")]', "#[serde(default)]"],
    "after_other": ["/// doc", '#[cfg(feature = "x")]', '#[serde(skip_serializing_if = "Option::is_none", default)]'],
    "path": ['#[serde(default = "some::path")]'],
}


def shape_class(tree):
    t, path = tree, []
    while t["k"] in ("option", "wrap", "ref", "path"):
        path.append("Option" if t["k"] == "option" else "ptr")
        t = t["e"]
    return ">".join(path) or "plain"


def t_class(tree):
    t = tree
    while t["k"] in ("option", "wrap", "ref", "path"):
        t = t["e"]
    return {"prim": "prim:" + t.get("n", ""), "vec": "seq", "array": "seq", "slice": "seq", "map": "map", "map3": "map", "user": "user" + ("<>" if t.get("args") else ""), "param": "param"}[t["k"]]


def run(chk):
    thorough = chk.tier == "thorough"
    chk.rule = ("spec->impl: wrapping shape x T x spelling of serde(default) (MC_C04) x {struct field, struct-variant field, newtype payload, alias} x 6 languages; "
                "impl->spec: every member's optional marker and the type under it judged by Trace_C04; random trees/spellings. distinct = (language, position, case).")
    chk.assumptions = ["the optional idiom per language is reported by the extractors (TS `?`, Kotlin `? = null`, Swift `?`, Scala Option[..] = None, Go omitempty, "
                       "Python Optional[..] with default None); for newtype payloads: TS `content?:`, pointer in Go, nullable/Option elsewhere",
                       "only the bare word `default` counts (property text); `default = \"path\"` does not make a member optional"]
    res = common.run_tlc("MC_C04", cfg="MC_C04_thorough" if thorough else "MC_C04_quick", workers=2, timeout=600)
    chk.add_tlc("MC_C04", res)
    chk.exhaustive = True
    cases = [(c["rust"], DEFAULT_ATTRS[c["case"]["default"]], c["bare"]) for c in res.replays]
    labels = [c["case"] for c in res.replays]
    if not cases:
        raise ToolError("no cases")
    chk.sample({"case": labels[len(labels) // 2], "rust": typecases.rust_text(cases[len(cases) // 2][0]), "optional_required": res.replays[len(labels) // 2]["optional"]})
    rng = chk.rng
    prims = ["bool", "String", "u8", "u32", "I54", "f64", "unit"]

    def rnd(d):
        if d == 0 or rng.random() < 0.2:
            r = rng.random()
            return {"k": "prim", "n": rng.choice(prims)} if r < 0.7 else ({"k": "user", "n": "User", "args": []} if r < 0.85 else {"k": "param", "n": "T"})
        c = rng.choice(["vec", "option", "option", "wrap", "map", "ref"])
        if c == "wrap":
            return {"k": "wrap", "w": rng.choice(["Box", "Arc", "Rc", "Cell", "RefCell", "Mutex", "RwLock"]), "e": rnd(d - 1)}
        if c == "map":
            return {"k": "map", "key": {"k": "prim", "n": "String"}, "val": rnd(d - 1)}
        return {"k": c, "e": rnd(d - 1)}
    for _ in range(1500 if thorough else 200):
        d = rng.choice(list(DEFAULT_ATTRS))
        cases.append((rnd(rng.randint(1, 4)), DEFAULT_ATTRS[d], d in ("bare", "merged_rename", "separate", "after_other")))
        labels.append({"default": d, "shape": "random", "t": "random"})
    configs = tuple(sorted(res.replays[0]["configs"]))          # MC_C04!Configs
    events, meta = typecases.run_trees(chk, cases, configs=configs)
    # the plain twin of every case: the core type (leading Options / pointers removed), no default attribute
    def core(t):
        while t["k"] in ("option", "wrap", "ref", "path"):
            t = t["e"]
        return t
    cores = {}
    for t, _, _ in cases:
        cores.setdefault(typecases.tree_key(core(t)), core(t))
    tw_events, tw_meta = typecases.run_trees(common.Check(chk.pid, chk.tier, chk.seed), [(t, None, False) for t in cores.values()], configs=configs)
    plain = {}
    for e, m in zip(tw_events, tw_meta):
        if e is not None:
            plain[(e["lang"], m[1], e["pos"], typecases.tree_key(e["rust"]))] = e["ty"]
    for i, e in enumerate(events):
        if e is None:
            continue
        key = (e["lang"], meta[i][1], e["pos"], typecases.tree_key(core(e["rust"])))
        if key not in plain:
            events[i] = None          # no twin observation for this position (reported by the twin's own batch if it matters)
            meta[i] = meta[i][:6] + ("twin-missing",) + meta[i][7:]
            continue
        e["ty_plain"] = plain[key]
    idx, rejected = c05.validate(chk, events, meta, "Trace_C04", "optional")
    for i in idx:
        e, m = events[i], meta[i]
        lab = labels[m[7]]
        chk.judged((e["lang"], m[1], e["pos"], typecases.rust_text(e["rust"]), lab.get("default")))
        if i in rejected:
            lang, cname, pos, tree, da, src, _, _ci = m
            a = typecases.abs_tree(tree)
            req = a["k"] == "opt" or e["default"]
            if e["optional"] != req:
                kind = f"optional={e['optional']}-required={req}"
            elif lang == "typescript" and a["k"] == "opt" and a["e"]["k"] == "opt" and e["ty"].get("k") != "opt":
                kind = "double-option-lost"
            else:
                kind = "type-under-marker-changed"
                if e["ty"] == e.get("ty_plain"):
                    kind = "unclassified"
            cause = ("Option+default" if a["k"] == "opt" and e["default"] else "Option" if a["k"] == "opt" else
                     "default-on-non-option" if e["default"] else "neither")
            chk.mismatch(f"C04/{lang}{'' if cname == 'base' else '+' + cname}/{pos}/{cause}/{kind}",
                         f"{lang} {pos}: `{typecases.rust_text(tree)}` with {da}: optional={e['optional']} ty={e['ty']} (required optional={req})",
                         {"tree": tree, "default_attr": da, "bare": e["default"], "lang": lang, "pos": pos, "config": cname}, f"optional={req}", f"optional={e['optional']} ty={e['ty']}")
    chk.extra["trace_events"] = len(idx)
    compose.run(chk, "optional")
    compose.run_members(chk, "optional")
    compose.run_variants(chk, "optional")


def replay(chk, rec):
    if any(k in rec.get("case", {}) for k in ("compose", "members", "variants")):
        return compose.replay(chk, rec, "optional")
    c = rec["case"]
    events, meta = typecases.run_trees(chk, [(c["tree"], c["default_attr"], c["bare"])], configs=(c.get("config", "base"),))
    keep = [(e, m) for e, m in zip(events, meta) if m[0] == c["lang"] and m[2] == c["pos"] and e is not None]
    if not keep:
        chk.mismatch(rec["signature"], rec["what"], c, rec["expected"], "position missing")
        return
    ok, matched, tres = common.trace_validate("Trace_C04", [k[0] for k in keep])
    for b in tres.bad:
        chk.mismatch(rec["signature"], rec["what"], c, rec["expected"], keep[b - 1][0])
