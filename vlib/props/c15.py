"""C15: documentation text is carried only inside comments of the generated code.

P = spec/DocText.tla (the comment/string lexer of each target language as a state machine; Safe)
M = MC_C15!Wrapped (how each backend wraps a comment entry) - TLC predicts per language which texts escape
spec->impl: MC_C15 enumerates every doc text of up to 2 (quick) / 3 (thorough) tokens over {text, newline, */, /*, //,
            triple quotes, backslash, #, back-tick, "}; each is attached - as `///` lines, as a /** */ block or as
            #[doc = ".."] - to every documentable position (type, field, variant, struct-variant field, alias, unit-enum
            variant, tagged enum) and generated in 6 languages.
impl->spec: every generated file is abstracted symbol by symbol (bytes that came from a doc comment are DOC) and
            judged by Trace_C15; the harness's own lexers must agree with the TLA+ lexers (a disagreement is a tool error).
"""
import re

from .. import common, observe
from ..common import ToolError
from ..extract import base

NEEDS = ["driver"]
TOK = {"TXT": "word", "NL": "\n", "CRLF": "\r\n", "CR": "\r", "SL": "*", "NLSL": "\n*", "NLBC": "\n*/", "BCCR": "*\r/", "BC": "*/", "BO": "/*", "LC": "//", "TDQ": '"""', "DDQ": '""', "QDQ": '""""', "PDQ": '"""""', "TSQ": "'''", "BS": "\\", "HASH": "#", "BT": "`", "DQ": '"',
       # text that SPELLS a line break without being one: character references, a backslash escape, a percent escape (a backend that
       # decodes any of them on the way turns doc text into a new line)
       "AMPNL": "&#10;", "AMPXA": "&#xA;", "BSN": "\\n", "PCTNL": "%0A", "UNL": "\\u{a}"}
POSITIONS = ["type", "field", "variant", "vfield", "alias", "uvariant", "tagged"]
MARK = re.compile(r"D\d+x")


def doc_text(doc):
    """token sequence -> text; every token is followed by a marker so that its fate can be traced"""
    # a line-break token has a word before it, so that it is never the (trimmed) beginning of the text
    return " ".join(TOK[t] + f" D{i}x" if t not in ("NL", "CRLF", "CR", "NLSL", "NLBC") else f"w{TOK[t]}D{i}x" if t in ("NL", "CRLF", "CR") else f"w{TOK[t]} D{i}x"
                    for i, t in enumerate(doc))


def attr(doc, style, indent=""):
    # MC_C15!Companies: the entry under test is the element's only doc attribute, or stands after / before another (single-line) one
    if style.endswith("_after_line"):
        return f"{indent}/// a first line\n" + attr(doc, style[:-len("_after_line")], indent)
    if style.endswith("_before_line"):
        return attr(doc, style[:-len("_before_line")], indent) + f"{indent}/// a last line\n"
    text = doc_text(doc)
    if style == "line":
        return "".join(f"{indent}/// {l}\n" for l in text.split("\n"))
    if style == "block":
        return f"{indent}/** {text} */\n"
    esc = text.replace("\\", "\\\\").replace('"', '\\"').replace("\n", "\\n").replace("\r", "\\r")
    return f'{indent}#[doc = "{esc}"]\n'


def usable(doc, style):
    style = style.replace("_after_line", "").replace("_before_line", "")
    if style == "block":       # the text must not end the Rust block comment itself, and /* must not open a nested one
        return "BC" not in doc and "BO" not in doc and "CR" not in doc and "NLBC" not in doc and "BCCR" not in doc
    if style == "line":        # a bare carriage return is not allowed in a Rust `///` comment; CR LF is an ordinary line ending
        return "CR" not in doc and "BCCR" not in doc
    return True


def source(doc, style, pos):
    a = lambda ind="": attr(doc, style, ind)
    plain = "/// plain\n"
    return (f"{a() if pos == 'type' else plain}#[typeshare]\npub struct S {{\n{a('    ') if pos == 'field' else ''}    pub f: u32,\n}}\n"
            f"{a() if pos == 'alias' else ''}#[typeshare]\npub type A = Vec<String>;\n"
            f"#[typeshare]\npub enum U {{\n{a('    ') if pos == 'uvariant' else ''}    One,\n    Two,\n}}\n"
            f"{a() if pos == 'tagged' else ''}#[typeshare]\n#[serde(tag = \"t\", content = \"c\")]\npub enum E {{\n{a('    ') if pos == 'variant' else ''}    N(u32),\n"
            f"    Sv {{\n{a('        ') if pos == 'vfield' else ''}        x: u32,\n    }},\n}}\n"
            # a documented constant (only in the programs that put the text there: three backends refuse constants altogether)
            + (f"{a()}#[typeshare]\npub const K_CONST: u32 = 3;\n" if pos == "const" else ""))


def symbols(lang, text):
    """generated file -> DocText symbols. Pure abstraction: no state, longest match first."""
    out, i, n = [], 0, len(text)
    py = lang == "python"
    while i < n:
        m = MARK.match(text, i)
        if m:
            out.append("DOC")
            i = m.end()
            continue
        two, three = text[i:i + 2], text[i:i + 3]
        if py and text[i] == "\\" and i + 1 < n:
            # a backslash takes exactly the NEXT CHARACTER with it: `\""""` is an escaped quote followed by a triple quote
            nxt = text[i + 1]
            out.append("BS")
            out.append({"\n": "NL", '"': "DQ", "'": "SQ", "\\": "BS", "#": "HASH", "`": "BT"}.get(nxt, "X"))
            i += 2
            continue
        if py and three == '"""':
            out.append("TDQ"); i += 3; continue
        if py and three == "'''":
            out.append("TSQ"); i += 3; continue
        if not py and two == "//":
            out.append("LC"); i += 2; continue
        if not py and two == "/*":
            out.append("BO"); i += 2; continue
        if not py and two == "*/":
            out.append("BC"); i += 2; continue
        if two == "\r\n":
            out.append("NL"); i += 2; continue
        c = text[i]
        s = {"\n": "NL", "\r": "CR", '"': "DQ", "'": "SQ", "\\": "BS", "#": "HASH", "`": "BT"}.get(c)
        if s:
            out.append(s)
        elif not out or out[-1] != "X":
            out.append("X")
        i += 1
    return out


def harness_verdict(lang, text):
    """independent reading with the harness lexers: is every marker inside a comment / docstring token?"""
    ext = {"typescript": "ts", "kotlin": "kt", "swift": "swift", "scala": "scala", "go": "go", "python": "py"}[lang]
    try:
        toks = base.lex(text, ext)
    except base.LexError:
        return False
    for k, t, _ in toks:
        if k in ("comment", "str3"):
            continue
        if MARK.search(t):
            return False
    return True


def run(chk):
    thorough = chk.tier == "thorough"
    chk.rule = ("spec->impl: every doc text of up to " + ("3" if thorough else "2") + " tokens (MC_C15) x style {///, /** */, #[doc]} x position {type, field, variant, "
                "struct-variant field, alias, unit-enum variant, tagged enum, constant (containment only)} x 6 languages; impl->spec: each generated file, abstracted to lexer symbols, judged by "
                "Trace_C15 (DocText!Safe). distinct = (language, style, position, text).")
    chk.assumptions = ["every doc token is followed by a marker D<i>x; a marker met outside a comment state means the text before it left the comment",
                       "the symbol abstraction is stateless (longest match); the harness lexers are used only as a cross-check of the TLA+ lexers"]
    res = common.run_tlc("MC_C15", cfg="MC_C15_thorough" if thorough else "MC_C15_quick", workers=4, timeout=600)
    chk.add_tlc("MC_C15", res)
    chk.exhaustive = True
    docs = res.replays
    if not docs:
        raise ToolError("no cases")
    chk.sample({"doc_tokens": docs[len(docs) // 2]["doc"], "model_predicts_safe": docs[len(docs) // 2]["predict_safe"], "text": doc_text(docs[len(docs) // 2]["doc"])})
    cases = []
    for d in docs:
        for style in ("line", "block", "attr") + tuple(d.get("companies", ())):
            if not usable(d["doc"], style):
                continue
            company = style.endswith("_line")
            for pos in (POSITIONS + ["const"] if (thorough or len(d["doc"]) == 1) and not company else POSITIONS[:4] + ["tagged", "const"] if not company else ["type", "field", "variant"]):
                cases.append((d, style, pos))
    srcs = [source(d["doc"], style, pos) for d, style, pos in cases]
    results = observe.generate(srcs)
    events, meta, drift = [], [], 0
    for (d, style, pos), per, src in zip(cases, results, srcs):
        for lang in common.LANGS:
            r = per[lang]
            if r["status"] in ("panic", "abort", "hang"):
                continue
            if r["status"] == "error" and pos == "const" and lang in ("kotlin", "swift", "scala"):
                continue          # these backends generate no constants at all
            if r["status"] == "error":
                chk.refused(f"{lang}/{style}", f"{lang}: documented program rejected ({style} style, {d['doc']}): {str(r['errors'])[:200]}", {"doc": d["doc"], "style": style, "pos": pos, "lang": lang})
                continue
            text = r["text"]      # available for ok and unreadable alike
            events.append({"lang": lang, "stream": symbols(lang, text)})
            meta.append((lang, style, pos, d, text))
    # MC_C15!Named: the documentation of a TYPE begins with the type's own Rust name, and a naming option of the run re-spells that name
    # (Go uppercase_acronyms: AccountId -> AccountID): whatever a backend does to the name inside the text, the text stays one comment
    ncases = [(d, style) for d in docs for style in ("block", "attr") if d.get("companies") and usable(d["doc"], style)]
    nsrcs = []
    for d, style in ncases:
        text = lambda name: attr(d["doc"], style).replace(doc_text(d["doc"]), name + " " + doc_text(d["doc"]), 1)
        nsrcs.append(f"{text('AccountId')}#[typeshare]\npub struct AccountId {{\n    pub f: u32,\n}}\n{text('UserId')}#[typeshare]\npub struct UserId(String);\n"
                     f"{text('KindId')}#[typeshare]\npub enum KindId {{\n    One,\n    Two,\n}}\n")
    for (d, style), per, src in zip(ncases, observe.generate(nsrcs, langs=["go"], cfgs={"go": {"uppercase_acronyms": ["ID"]}}) if ncases else [], nsrcs):
        r = per["go"]
        if r["status"] in ("panic", "abort", "hang") or r["status"] == "error":
            continue
        events.append({"lang": "go", "stream": symbols("go", r["text"])})
        meta.append(("go", style + "+named-after-the-type", "type", d, r["text"]))
    nbad = 0
    rejected = set()
    import concurrent.futures as cf
    parts = list(common.chunks(list(range(len(events))), 4000))
    with cf.ThreadPoolExecutor(max_workers=4) as ex:
        verdicts = list(ex.map(lambda part: common.trace_validate("Trace_C15", [events[i] for i in part], timeout=1800, heap="4g"), parts))
    for part, (ok, matched, tres) in zip(parts, verdicts):
        chk.add_tlc("Trace_C15", tres)
        if matched != len(part):
            raise ToolError(f"Trace_C15 consumed {matched}/{len(part)}")
        rejected |= {part[b - 1] for b in tres.bad}
    disagreements = 0
    for i, (ev, m) in enumerate(zip(events, meta)):
        lang, style, pos, d, text = m
        chk.judged((lang, style, pos, tuple(d["doc"])))
        hv = harness_verdict(lang, text)
        if hv != (i not in rejected):
            disagreements += 1
            if disagreements <= 3:
                common.log(f"[lexer-disagreement] {lang} {style} {pos} {d['doc']}: TLA+ safe={i not in rejected} harness safe={hv}\n{text[:400]}")
        if i in rejected:
            classes = "+".join(sorted(set(d["doc"]) - {"TXT"})) or "TXT"
            chk.mismatch(f"C15/{lang}/{style}/{pos if lang == 'python' else 'anypos'}/{classes}/escapes",
                         f"{lang}: doc text {doc_text(d['doc'])!r} ({style} style, on {pos}) leaves its comment", {"doc": d["doc"], "style": style, "pos": pos, "lang": lang},
                         "DocText!Safe", text[:600])
        if pos == "type" and style == "attr" and d["predict_safe"].get(lang) != (i not in rejected):
            drift += 1
            chk.model_drift(f"MC_C15!Wrapped predicts safe={d['predict_safe'].get(lang)} for {lang} {d['doc']}, real output safe={i not in rejected}")
    chk.traces += len(events) - len(rejected)
    chk.extra["trace_events"] = len(events)
    chk.extra["lexer_disagreements_tla_vs_harness"] = disagreements
    if disagreements > len(events) // 50:
        raise ToolError(f"the TLA+ lexers and the harness lexers disagree on {disagreements} of {len(events)} files")


def replay(chk, rec):
    c = rec["case"]
    r = observe.generate([source(c["doc"], c["style"], c["pos"])], langs=[c["lang"]])[0][c["lang"]]
    if "text" in r:
        ok, matched, tres = common.trace_validate("Trace_C15", [{"lang": c["lang"], "stream": symbols(c["lang"], r["text"])}])
        if tres.bad:
            chk.mismatch(rec["signature"], rec["what"], c, rec["expected"], r["text"][:400])
