"""C05: type expressions translate structurally, losslessly and honour type mappings.

P = spec/TypeExpr.tla (Abs, Holds/TargetPrim/RustPrim, Conf)
spec->impl: MC_C05 enumerates every Rust type expression up to depth 2 (quick) / 3 (thorough) over primitives, user
            types, generic parameters and Vec/array/slice/Option/HashMap/smart pointer/reference/path/generic
            constructors (TLC also checks structural theorems of the spec on each); each tree is placed as struct field,
            struct-variant field, newtype payload and alias target and generated in 6 languages, with and without a type
            mapping, Swift/Kotlin also with a prefix.
impl->spec: the observed target type tree of every position is an event judged by Trace_C05 (TypeExpr!Conf);
            random deeper trees (depth 4-5) extend the enumeration.
"""
from .. import common, observe, typecases
from ..common import ToolError

from .. import compose

NEEDS = ["driver"]


def leaf_pairs(a, o, mapping, out):
    if a["k"] in ("user", "prim") and a.get("n") in mapping:
        return
    if a["k"] == "prim":
        out.append((a["n"], o.get("n")))
    elif a["k"] in ("seq", "opt") and "e" in o:
        leaf_pairs(a["e"], o["e"], mapping, out)
    elif a["k"] == "map" and "key" in o:
        leaf_pairs(a["key"], o["key"], mapping, out)
        leaf_pairs(a["val"], o["val"], mapping, out)
    elif a["k"] == "user":
        for x, y in zip(a["args"], o.get("args", [])):
            leaf_pairs(x, y, mapping, out)


def name_event(e, good_pairs):
    if any(n not in e.get("rust_lens", []) for n in e.get("fixed_lens", [])):
        return "array-length"          # Trace_C05!LengthsOk
    a = typecases.abs_tree(e["rust"])
    o = e["ty"]
    if e["lang"] != "typescript":
        a, o = typecases.collapse(a), typecases.collapse(o)
    if e.get("noptr"):
        a, o = typecases.slice_opt(a), typecases.slice_opt(o)
    if e["pos"] not in ("alias", "const") and a["k"] == "opt":
        a = a["e"]
        if e["lang"] != "typescript" and o.get("k") == "opt":
            o = o["e"]
    e = dict(e, ty=o)
    loc = typecases.locate(a, e["ty"], e["mapping"])
    if loc:
        steps = loc[0].split(">")
        if loc[1].startswith("option-lost"):
            return "option-lost/under-" + (steps[-2] if len(steps) > 1 else "top")     # the container directly above the lost Option
        if loc[1] in ("generic-args-dropped", "generic-args", "mapping-ignored"):
            return loc[1] + "/under-" + (steps[-2] if len(steps) > 1 else "top")
        return f"{loc[0]}/{loc[1]}"
    pairs = []
    leaf_pairs(a, e["ty"], e["mapping"], pairs)
    bad = sorted({f"{r}->{o}" for r, o in pairs if (e["lang"], r, o) not in good_pairs})
    if bad:
        return ["prim/" + b for b in bad]
    return "name-or-prefix"


def validate(chk, events, meta, spec, label):
    idx = [i for i, e in enumerate(events) if e is not None]
    for i, e in enumerate(events):
        if e is None:
            lang, cname, pos, tree, da, src, why, _ci = meta[i]
            if why == "twin-missing":
                continue
            chk.mismatch(f"{chk.pid}/{lang}/{pos}/{cname}/position-missing/{typecases.rust_path(tree).split('>')[0]}",
                         f"{lang}: {pos} position not found in the output for {typecases.rust_text(tree)}", {"tree": tree, "lang": lang, "config": cname, "default": da}, "definition present", None)
    rejected = set()
    for part in common.chunks(idx, 40000):
        ok, matched, tres = common.trace_validate(spec, [events[i] for i in part], timeout=1800, heap="8g")
        chk.add_tlc(f"{spec}[{label}]", tres)
        if matched != len(part):
            raise ToolError(f"{spec} consumed {matched}/{len(part)}")
        rejected |= {part[b - 1] for b in tres.bad}
    chk.traces += len(idx) - len(rejected)
    return idx, rejected


def generic_orders(chk):
    """MC_C05_generics: N type parameters used by the members in every order of first mention, in a struct, in a struct variant
    (derived helper type: declaration + reference) and as arguments of a generic alias target."""
    res = common.run_tlc("MC_C05_generics", cfg="MC_C05_generics", workers=2, timeout=300)
    chk.add_tlc("MC_C05_generics", res)
    if not res.replays:
        raise ToolError("MC_C05_generics produced no cases")
    wrapt = {"direct": lambda p: {"k": "param", "n": p}, "vec": lambda p: {"k": "vec", "e": {"k": "param", "n": p}},
             "option": lambda p: {"k": "option", "e": {"k": "param", "n": p}}}
    srcs, cases = [], []
    for r in res.replays:
        c, params, members = r["case"], r["params"], r["members"]
        g = "<" + ", ".join(params) + ">"
        trees = [(m["name"], wrapt[c["wrap"]](m["param"])) for m in members if m["param"] != "-"]
        mentioned = {m["param"] for m in members}
        # a parameter the generated members do not mention is kept alive the way Rust requires it: a skipped PhantomData member
        phantom = [f"#[serde(skip)] pub ph{i}: std::marker::PhantomData<{p}>" for i, p in enumerate(params) if p not in mentioned]
        ann = "#[typeshare]" if c.get("constraint", "none") == "none" else f'#[typeshare(swiftGenericConstraints = "{params[-1]}: Equatable")]'
        if c["host"] == "struct":
            src = f"{ann}\npub struct HostG{g} {{\n" + "".join(f"    pub {n}: {typecases.rust_text(t)},\n" for n, t in trees) + "".join(f"    {x},\n" for x in phantom) + "}\n"
        elif c["host"] == "vfield":
            src = (f'{ann}\n#[serde(tag = "t", content = "c")]\npub enum HostG{g} {{\n    Sv {{\n' +
                   "".join(f"        {n}: {typecases.rust_text(t)},\n" for n, t in trees) + "".join(f"        {x.replace('pub ', '')},\n" for x in phantom) + "    },\n    Unit,\n}\n")
        elif c["host"] == "alias_vec":          # Rust accepts an alias parameter that the aliased type does not mention
            target = trees[0][1] if trees else {"k": "vec", "e": {"k": "prim", "n": "String"}}
            src = f"#[typeshare]\npub type HostG{g} = {typecases.rust_text(target)};\n"
            trees = [("alias", target)]
        elif c["host"] == "serialized_as":      # the typed-id pattern: a struct generated as String, its parameters are markers only
            target = {"k": "prim", "n": "String"}
            src = f'#[typeshare(serialized_as = "String")]\npub struct HostG{g} {{\n    raw: String,\n' + "".join(f"    {x.replace('#[serde(skip)] pub ', '')},\n" for x in phantom) + "}\n"
            trees = [("alias", target)]
        else:
            decl = "#[typeshare]\npub struct Tup" + g + " {\n" + "".join(f"    pub t{i}: {p},\n" for i, p in enumerate(params)) + "}\n"
            target = {"k": "user", "n": "Tup", "args": [t for _, t in trees]}
            src = decl + f"#[typeshare]\npub type HostG{g} = {typecases.rust_text(target)};\n"
            trees = [("alias", target)]
        # every reference to the item carries one argument per declared parameter
        src += "#[typeshare]\npub struct UsesHostG {\n    pub r: HostG<" + ", ".join(["u32", "String", "bool", "u8"][:len(params)]) + ">,\n}\n"
        srcs.append(src)
        cases.append((c, trees, params))
    results = observe.generate(srcs)
    events, meta = [], []
    # which declarations state a parameter list at all (what the output of a language can carry): alias declarations in TypeScript,
    # Kotlin, Swift and Scala; struct declarations everywhere; the declaration of a tagged enum in the same four
    carries = {"struct": set(common.LANGS), "vfield": {"typescript", "kotlin", "swift", "scala"}}
    for (c, trees, params), per, src in zip(cases, results, srcs):
        for lang in common.LANGS:
            r = per[lang]
            if r["status"] != "ok":
                continue          # refused by the backend (generics in Go), unreadable (C10) or a panic (C07)
            obs = r["obs"]
            hd = observe.find_def(obs, "HostG")
            if hd is not None and lang in carries.get(c["host"], {"typescript", "kotlin", "swift", "scala"}):
                events.append({"lang": lang, "declared": list(hd.get("generics") or []), "params": list(params)})
                meta.append((lang, f"generics:{c['host']}", "decl", None, None, src, None, 0))
            if c["host"] in ("alias_of_struct", "alias_vec", "serialized_as"):
                a = hd
                found = {"alias": a["target"]} if a and a["kind"] == "alias" else {}
            elif c["host"] == "struct":
                d = hd
                found = {m["key"]: (m["optional"], m["ty"]) for m in (d or {}).get("members", [])}
            else:
                ms = observe.struct_variant_members(lang, obs, ["HostG"], "Sv", "Sv")
                found = {m["key"]: (m["optional"], m["ty"]) for m in (ms or [])}
            for name, tree in trees:
                pos = "alias" if name == "alias" else ("field" if c["host"] == "struct" else "vfield")
                if name not in found:
                    events.append(None)
                    meta.append((lang, "generics", pos, tree, None, src, "position-missing", 0))
                    continue
                opt, ty = (None, found[name]) if name == "alias" else found[name]
                events.append({"lang": lang, "pos": pos, "rust": tree, "default": False, "optional": bool(opt), "ty": ty, "prefix": "", "mapping": {},
                               "aliases": typecases.aliases_of(obs), "vecu8": "", "noptr": False, "renames": typecases.RENAMES})
                meta.append((lang, f"generics:{c['host']}", pos, tree, None, src, None, 0))
    idx, rejected = validate(chk, events, meta, "Trace_C05", "generic-order")
    for i in idx:
        e, m = events[i], meta[i]
        if "declared" in e:
            chk.judged((e["lang"], m[1], "decl", m[5]))
            if i in rejected:
                chk.mismatch(f"C05/{m[0]}/{m[1]}/declared-parameters", f"{m[0]} ({m[1]}): the item is declared in Rust with the parameters {e['params']}, the generated "
                             f"declaration states {e['declared']}", {"src": m[5], "lang": m[0], "host": m[1]}, e["params"], e["declared"])
            continue
        chk.judged((e["lang"], m[1], e["pos"], typecases.rust_text(e["rust"]), m[5]))
        if i in rejected:
            what = name_event(e, set())
            if isinstance(what, str) and what.startswith("option-lost"):      # the listed TypeScript finding, met through a generic argument
                chk.mismatch(f"C05/{m[0]}/anypos/anycfg/{what}", f"{m[0]} ({m[1]}): `{typecases.rust_text(m[3])}` translated to {e['ty']}",
                             {"src": m[5], "lang": m[0], "host": m[1]}, "TypeExpr!Conf", e["ty"])
                continue
            chk.mismatch(f"C05/{m[0]}/{m[1]}/generic-parameter-order", f"{m[0]} ({m[1]}): `{typecases.rust_text(m[3])}` is generated as {e['ty']} once the "
                         f"arguments of the reference are substituted into the declaration", {"src": m[5], "lang": m[0], "host": m[1]}, "TypeExpr!Conf", e["ty"])
    chk.extra["generic_order_events"] = len(idx)


def user_names(chk):
    """MC_C05_names: a user type whose declared name a naming option re-spells, referenced from every position of a type expression.
    cfg.renames carries the name the declaration is OBSERVED under (the definition with the member `marker_decl`), so TypeExpr!Conf
    says: every reference uses the name of the declaration."""
    res = common.run_tlc("MC_C05_names", cfg="MC_C05_names", workers=2, timeout=300)
    chk.add_tlc("MC_C05_names", res)
    if not res.replays:
        raise ToolError("MC_C05_names produced no cases")
    S = {"k": "prim", "n": "String"}
    mk = {"direct": lambda u: u, "vec": lambda u: {"k": "vec", "e": u}, "option": lambda u: {"k": "option", "e": u},
          "map_key": lambda u: {"k": "map", "key": u, "val": S}, "map_val": lambda u: {"k": "map", "key": S, "val": u},
          "gen_only": lambda u: {"k": "user", "n": "Wrapper", "args": [u]}, "gen_first": lambda u: {"k": "user", "n": "Pair", "args": [u, S]},
          "gen_last": lambda u: {"k": "user", "n": "Pair", "args": [S, u]},
          "nested": lambda u: {"k": "vec", "e": {"k": "map", "key": u, "val": {"k": "vec", "e": u}}}}
    runs = {"none": (common.LANGS, None, ""), "serde_rename": (common.LANGS, None, ""),
            "go_acronyms": (["go"], {"go": {"uppercase_acronyms": ["ID", "URL", "API"]}}, ""),
            "prefix": (["swift", "kotlin"], {"swift": {"prefix": "Pre"}, "kotlin": {"prefix": "Pre"}}, "Pre")}
    events, meta = [], []
    for naming, (langs, cfgs, prefix) in runs.items():
        cases = [c for c in res.replays if c["naming"] == naming]
        srcs = []
        for c in cases:
            tree = mk[c["pos"]]({"k": "user", "n": c["name"], "args": []})
            ren = f'#[serde(rename = "{c["name"]}Dto")]\n' if naming == "serde_rename" else ""
            srcs.append(f"#[typeshare]\n{ren}pub struct {c['name']} {{ pub marker_decl: u32 }}\n#[typeshare]\npub struct Wrapper<T> {{ pub w: T }}\n"
                        f"#[typeshare]\npub struct Pair<A, B> {{ pub a: A, pub b: B }}\n"
                        f"#[typeshare]\npub struct Host {{\n    pub f: {typecases.rust_text(tree)},\n    pub keep: u32,\n}}\n")
        for c, src, per in zip(cases, srcs, observe.generate(srcs, langs=langs, cfgs=cfgs)):
            tree = mk[c["pos"]]({"k": "user", "n": c["name"], "args": []})
            for lang in langs:
                r = per[lang]
                if r["status"] != "ok":
                    continue          # refused by the backend, unreadable (C10) or a panic (C07)
                decl = [d for d in r["obs"]["defs"] if any(m.get("key") == "marker_decl" for m in d.get("members", []))]
                host = observe.find_def(r["obs"], prefix + "Host", "Host")
                f = [m for m in (host or {}).get("members", []) if m["key"] == "f"]
                if len(decl) != 1 or not f:
                    events.append(None)
                    meta.append((lang, f"names:{naming}", "field", tree, None, src, "position-missing", 0))
                    continue
                declared = decl[0]["name"]
                declared = declared[len(prefix):] if prefix and declared.startswith(prefix) else declared
                events.append({"lang": lang, "pos": "field", "rust": tree, "default": False, "optional": bool(f[0]["optional"]), "ty": f[0]["ty"],
                               "prefix": prefix, "mapping": {}, "aliases": typecases.aliases_of(r["obs"]), "vecu8": "", "noptr": False,
                               "renames": {c["name"]: declared}})
                meta.append((lang, f"names:{naming}", c, tree, declared, src, None, 0))
    idx, rejected = validate(chk, events, meta, "Trace_C05", "user-type-names")
    for i in idx:
        e, m = events[i], meta[i]
        chk.judged((e["lang"], m[1], m[2]["name"], m[2]["pos"]))
        if i in rejected:
            what = name_event(e, set())
            if isinstance(what, str) and what.startswith("option-lost"):
                continue                 # the listed TypeScript finding (Option under a container), judged by the main enumeration
            chk.mismatch(f"{chk.pid}/{m[0]}/{m[1]}/pos={m[2]['pos']}/reference-name!=declared-name", f"{m[0]} ({m[1]}): type {m[2]['name']} is declared as "
                         f"`{m[4]}`, a reference in position {m[2]['pos']} is written {e['ty']}", {"src": m[5], "lang": m[0], "case": m[2]}, "TypeExpr!Conf", e["ty"])
    chk.extra["user_name_events"] = len(idx)


def run(chk):
    thorough = chk.tier == "thorough"
    chk.rule = ("spec->impl: every Rust type expression to depth " + ("3" if thorough else "2") + " (MC_C05) x positions {field, struct-variant field, newtype "
                "payload, alias} x 6 languages x {no mapping, User->MappedT} (+ prefix for Swift/Kotlin); impl->spec: each observed type tree judged by "
                "Trace_C05; random trees of depth 4-5. distinct = (language, config, position, tree).")
    chk.assumptions = ["target type trees are parsed back by the extractors; which written names are primitives of a language, and their JSON category / "
                       "capacity, is the table TypeExpr!TargetPrim", "Go `int` is counted as 32 bits (the language guarantees no more)",
                       "Scala's UByte/UShort/UInt/ULong are resolved through the aliases defined in the generated file"]
    res = common.run_tlc("MC_C05", cfg="MC_C05_thorough" if thorough else "MC_C05_quick", workers=8, timeout=1800, heap="8g")
    chk.add_tlc("MC_C05", res)
    chk.exhaustive = True
    trees = [c["rust"] for c in res.replays]
    if not trees:
        raise ToolError("no trees")
    chk.sample({"rust": typecases.rust_text(trees[len(trees) // 2]), "tree": trees[len(trees) // 2], "abs": res.replays[len(trees) // 2]["abs"]})
    rng = chk.rng
    extra = []
    prims = ["bool", "char", "String", "str", "i8", "i16", "i32", "u8", "u16", "u32", "I54", "U53", "f32", "f64", "unit"]

    def rnd(d):
        if d == 0 or rng.random() < 0.15:
            r = rng.random()
            return {"k": "prim", "n": rng.choice(prims)} if r < 0.7 else ({"k": "user", "n": rng.choice(["User", "User", "Ren"]), "args": []} if r < 0.85 else {"k": "param", "n": "T"})
        c = rng.choice(["vec", "array", "slice", "option", "ref", "path", "wrap", "map", "gen"])
        if c == "wrap":
            return {"k": "wrap", "w": rng.choice(["Box", "Arc", "Rc", "Cow", "Cell", "RefCell", "Mutex", "RwLock"]), "e": rnd(d - 1)}
        if c == "map":
            return {"k": rng.choice(["map", "map", "map3"]), "key": rng.choice([{"k": "prim", "n": "String"}, {"k": "prim", "n": "u32"}, {"k": "user", "n": "User", "args": []}]), "val": rnd(d - 1)}
        if c == "gen":
            return {"k": "user", "n": "Gen", "args": [rnd(d - 1)]}
        return {"k": c, "e": rnd(d - 1)}
    for _ in range(1500 if thorough else 150):
        extra.append(rnd(rng.randint(3, 5)))
    allprims = [{"k": "prim", "n": n} for n in prims]
    cases = [(t, None, False) for t in allprims + trees + extra]
    configs = tuple(sorted(set(c for r in res.replays for c in r.get("configs", []))) or ["base", "mapped", "prefixed"])      # MC_C05!Configs
    events, meta = typecases.run_trees(chk, cases, configs=configs, siblings={typecases.rust_text(c["rust"]): c["sibling"] for c in res.replays if "sibling" in c})
    idx, rejected = validate(chk, events, meta, "Trace_C05", "types")
    good_pairs = set()
    for i in idx:
        e = events[i]
        if i not in rejected and e["rust"]["k"] == "prim":
            good_pairs.add((e["lang"], e["rust"]["n"], e["ty"].get("n")))
    for i in idx:
        e, m = events[i], meta[i]
        chk.judged((e["lang"], m[1], e["pos"], typecases.rust_text(e["rust"])))
        if i in rejected:
            lang, cname, pos, tree, da, src, _, _ci = m
            whats = name_event(e, good_pairs)
            for what in (whats if isinstance(whats, list) else [whats]):
              coarse = what.startswith(("option-lost", "prim/"))
              chk.mismatch(f"C05/{lang}/{'anypos' if coarse else pos}/{'anycfg' if coarse else cname}/{what}",
                         f"{lang} ({cname}, {pos}): `{typecases.rust_text(tree)}` translated to {e['ty']}", {"tree": tree, "lang": lang, "config": cname, "pos": pos},
                         "TypeExpr!Conf", e["ty"])
    chk.extra["trace_events"] = len(idx)
    generic_orders(chk)
    user_names(chk)
    compose.run(chk, "types")
    compose.run_members(chk, "types")
    compose.run_variants(chk, "types")
    # MC_C09_imported (shared with C09): a user type of ANOTHER crate keeps its (declared) name at its only reference, whatever the
    # shape of the type expression around it (folder output)
    from .c09 import imported
    imported(chk)


def replay(chk, rec):
    if rec.get("case", {}).get("site") == "imported":
        from .c09 import imported
        imported(chk)
        chk.mismatches = {k: v for k, v in chk.mismatches.items() if k == rec["signature"]}
        return
    if any(k in rec.get("case", {}) for k in ("compose", "members", "variants")):
        return compose.replay(chk, rec, "types")
    if "src" in rec["case"]:
        generic_orders(chk)
        user_names(chk)
        chk.mismatches = {k: v for k, v in chk.mismatches.items() if k == rec["signature"]}
        return
    c = rec["case"]
    events, meta = typecases.run_trees(chk, [(c["tree"], None, False)], configs=(c["config"],))
    keep = [(e, m) for e, m in zip(events, meta) if m[0] == c["lang"] and m[2] == c.get("pos", m[2])]
    evs = [k[0] for k in keep if k[0] is not None]
    if len(evs) < len(keep):
        chk.mismatch(rec["signature"], rec["what"], c, rec["expected"], "position missing")
    if evs:
        ok, matched, tres = common.trace_validate("Trace_C05", evs)
        for b in tres.bad:
            chk.mismatch(rec["signature"], rec["what"], c, rec["expected"], evs[b - 1]["ty"])
