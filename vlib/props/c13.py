"""C13: --target-os filtering follows the documented accept/reject rule at every level.

P = spec/TargetOs.tla (Accept), M = spec/M_TargetOsWalk.tla (the stack walk; TLC checks M = P on every case)
spec->impl: MC_C13 enumerates every cfg expression to depth 2 (quick) / 3 (thorough) plus all two-attribute
            splits, with the decision for all 16 target lists; each is attached at every level and run through
            the real parser.
impl->spec: random deeper expressions / more attributes, events judged by Trace_C13; CLI wiring runs.
"""
import os
import subprocess

from .. import common
from ..common import ToolError
from ..extract import ts as ts_extract

NEEDS = ["driver", "cli"]
TARGETS = ["a", "b", "c", "d"]
LEVELS = ["struct", "enum", "alias", "const", "variant", "field", "vfield", "file"]


def render_expr(e, trailing=False):
    """trailing: rustfmt's vertical layout leaves a comma after the last operand of any / all / not (same expression)"""
    k = e["k"]
    if k == "os":
        return f'target_os = "{e["v"]}"'
    if k == "feat":
        return 'feature = "f"'
    if k == "word":
        return "unix"
    if k == "os_other":
        return 'target_family = "a"'
    return f'{k}({", ".join(render_expr(c, trailing) for c in e["cs"])}{"," if trailing and e["cs"] else ""})'


def attrs_text(attrs, inner=False):
    """half of the attribute lists (chosen by their own text, so a replay renders the same) are written with trailing commas"""
    import hashlib
    bang = "!" if inner else ""
    flat = "".join(render_expr(e) for e in attrs)
    trailing = int(hashlib.sha1(flat.encode()).hexdigest()[:2], 16) % 2 == 0
    return "".join(f"#{bang}[cfg({render_expr(e, trailing)}{',' if trailing else ''})]\n" for e in attrs)


def source(attrs):
    """All non-file levels guarded by the same attribute list, next to unguarded siblings."""
    a = attrs_text(attrs)
    ai = a.replace("\n", " ")
    return f"""
#[typeshare]
{a}pub struct GStruct {{ pub x: u32 }}
#[typeshare]
{a}pub enum GEnum {{ A, B }}
#[typeshare]
{a}pub type GAlias = String;
#[typeshare]
{a}pub const G_CONST: u32 = 1;
#[typeshare]
{a}pub struct GTwin {{ pub from_guarded: u32 }}
#[typeshare]
#[cfg(target_os = "d")]
pub struct GTwin {{ pub from_d: u32 }}
#[typeshare]
#[cfg(any(target_os = "a", target_os = "b"))]
pub struct NHost {{ pub keep: u32, {ai} pub gnested: u32 }}
#[typeshare]
#[cfg(any(target_os = "c", not(target_os = "d")))]
pub enum NHostE {{ Keep, {ai} GNestedVariant }}
#[typeshare]
pub enum HostEnum {{ Keep, {ai} GVariant }}
#[typeshare]
pub struct HostStruct {{ pub keep: u32, {ai} pub gfield: u32 }}
#[typeshare]
#[serde(tag = "t", content = "c")]
pub enum HostTagged {{ V {{ keep: u32, {ai} gvfield: u32 }}, W(u32) }}
{a}pub mod gmod {{
    #[typeshare]
    pub struct InGuardedMod {{ pub x: u32 }}
    pub mod deeper {{
        #[typeshare]
        pub enum InGuardedModDeep {{ A, B }}
    }}
}}
pub mod gmod_inner {{
    {attrs_text(attrs, inner=True).replace(chr(10), " ")}
    #[typeshare]
    pub type InInnerGuardedMod = String;
}}
"""


def file_source(attrs):
    return attrs_text(attrs, inner=True) + "#[typeshare]\npub struct GFile { pub x: u32 }\n"


def presence(res):
    """parsed dump -> {level: kept?}"""
    pd = (res.get("parsed") or {}).get("", {})
    structs = {s["id"]["original"]: s for s in pd.get("structs", [])}
    enums = {e["id"]["original"]: e for e in pd.get("enums", [])}
    out = {
        "struct": "GStruct" in structs,
        "enum": "GEnum" in enums,
        "alias": any(a["id"]["original"] == "GAlias" for a in pd.get("aliases", [])),
        "const": any(c["id"]["original"] == "G_CONST" for c in pd.get("consts", [])),
    }
    # items WITHOUT a predicate of their own inside an inline module that carries the guard (outer attribute, nested one level deeper,
    # inner attribute): the rule speaks of files, types, variants and fields - "items without a target_os predicate are always kept"
    out["in_guarded_mod"] = "InGuardedMod" in structs
    out["in_guarded_mod_deeper"] = "InGuardedModDeep" in enums
    out["in_inner_guarded_mod"] = any(a["id"]["original"] == "InInnerGuardedMod" for a in pd.get("aliases", []))
    # two definitions of one name under different guards (the usual per-platform pattern): each is kept or dropped by its OWN guard
    twins = [s_ for s_ in pd.get("structs", []) if s_["id"]["original"] == "GTwin"]
    out["twin"] = any(f["id"]["original"] == "from_guarded" for s_ in twins for f in s_["fields"])
    out["twin2"] = any(f["id"]["original"] == "from_d" for s_ in twins for f in s_["fields"])
    # members of a host that carries a guard of its own: where the host is kept, each member is judged by ITS guard and the full target list
    if "NHost" in structs:
        out["nested_field"] = any(f["id"]["original"] == "gnested" for f in structs["NHost"]["fields"])
    if "NHostE" in enums:
        out["nested_variant"] = any(v["id"]["original"] == "GNestedVariant" for v in enums["NHostE"]["variants"])
    if "HostEnum" in enums:
        out["variant"] = any(v["id"]["original"] == "GVariant" for v in enums["HostEnum"]["variants"])
    if "HostStruct" in structs:
        out["field"] = any(f["id"]["original"] == "gfield" for f in structs["HostStruct"]["fields"])
    if "HostTagged" in enums:
        v = [v for v in enums["HostTagged"]["variants"] if v["id"]["original"] == "V"]
        if v:
            out["vfield"] = any(f["id"]["original"] == "gvfield" for f in v[0]["fields"])
    hosts_ok = all(k in out for k in ("variant", "field", "vfield")) and \
        any(v["id"]["original"] == "Keep" for v in enums["HostEnum"]["variants"]) and \
        any(f["id"]["original"] == "keep" for f in structs["HostStruct"]["fields"])
    return out, hosts_ok


def shape(attrs):
    def sh(e):
        if e["k"] in ("not", "any", "all"):
            return e["k"][0] + "(" + "".join(sorted(sh(c) for c in e["cs"])) + ")"
        return "o" if e["k"] == "os" else "x"
    return "+".join(sh(e) for e in attrs)


def tclass(attrs, T):
    def names(e, under, want):
        if e["k"] == "os":
            return {e["v"]} if under == want else set()
        if e["k"] in ("not", "any", "all"):
            s = set()
            for c in e["cs"]:
                s |= names(c, under or e["k"] == "not", want)
            return s
        return set()
    rej = set().union(*[names(e, False, True) for e in attrs])
    acc = set().union(*[names(e, False, False) for e in attrs])
    if not T:
        return "empty"
    return ("hitsRej" if rej & set(T) else "missRej" if rej else "noRej") + "/" + \
           ("hitsAcc" if acc & set(T) else "missAcc" if acc else "noAcc")


def targets_of(bit):
    return [t for i, t in enumerate(TARGETS) if bit >> i & 1]


def judge(chk, attrs, T, level, expect, kept):
    chk.judged((str(attrs), tuple(T), level))
    if kept != expect:
        chk.mismatch(f"C13/{level}/{shape(attrs)}/{tclass(attrs, T)}/kept={kept}",
                     f"{level} guarded by {attrs_text(attrs).strip()} with --target-os {T}: rule says "
                     f"{'keep' if expect else 'drop'}, typeshare {'kept' if kept else 'dropped'} it",
                     {"attrs": attrs, "targets": T, "level": level}, expect, kept)


def run_cases(chk, cases, file_every=1):
    """cases: [(attrs, keepvec or None)] -> events. Judges against keepvec when given."""
    jobs, meta = [], []
    for n, (attrs, keep) in enumerate(cases):
        src = source(attrs)
        fsrc = file_source(attrs) if n % file_every == 0 else None
        for bit in range(16):
            T = targets_of(bit)
            jobs.append({"id": len(jobs), "lang": "typescript", "dump": True, "parse_only": True, "target_os": T,
                         "files": [{"src": src}]})
            meta.append((attrs, keep, T, bit, "multi"))
            if fsrc:
                jobs.append({"id": len(jobs), "lang": "typescript", "dump": True, "parse_only": True, "target_os": T,
                             "files": [{"src": fsrc}]})
                meta.append((attrs, keep, T, bit, "file"))
    events = []
    for part_j, part_m in zip(common.chunks(jobs, 60000), common.chunks(meta, 60000)):
        for res, (attrs, keep, T, bit, kind) in zip(common.run_driver("gen", part_j), part_m):
            if res["status"] != "ok":
                raise ToolError(f"unexpected {res['status']} for cfg case {attrs}: {res.get('errors') or res.get('panic')}")
            if kind == "file":
                pd = (res.get("parsed") or {}).get("", {})
                obs = {"file": any(s["id"]["original"] == "GFile" for s in pd.get("structs", []))}
            else:
                obs, hosts_ok = presence(res)
                if not hosts_ok:
                    chk.mismatch(f"C13/host/{shape(attrs)}/unguarded-sibling-lost",
                                 f"an unguarded sibling disappeared with {attrs_text(attrs).strip()} and {T}",
                                 {"attrs": attrs, "targets": T, "level": "host"}, True, False)
            for level, kept in obs.items():
                if level == "twin2":          # the second definition carries its own guard cfg(target_os = "d")
                    own = [{"k": "os", "v": "d"}]
                    if keep is not None:
                        judge(chk, own, T, "twin-second-definition", (not T) or "d" in T, kept)
                    events.append({"attrs": own, "targets": T, "level": "twin-second-definition", "kept": kept})
                    continue
                if level.startswith("in_"):          # the item itself carries no predicate: TargetOs!Accept(<<>>, T)
                    if keep is not None:
                        judge(chk, attrs, T, level.replace("_", "-") + "/item-without-predicate", True, kept)
                    events.append({"attrs": [], "targets": T, "level": level, "kept": kept})
                    continue
                if keep is not None:
                    judge(chk, attrs, T, level, keep[bit], kept)
                events.append({"attrs": attrs, "targets": T, "level": level, "kept": kept})
    return events


def contents_source(attrs):
    a = attrs_text(attrs)
    ai = a.replace("\n", " ")
    return f"""
#[typeshare]
pub struct CInner {{ pub i: u32 }}
#[typeshare]
pub struct CHostF {{ pub keep: u32, {ai} #[serde(flatten)] pub gmember: CInner }}
#[typeshare]
pub struct CHostB {{ pub keep: u32, {ai} pub gmember: u64 }}
#[typeshare]
#[serde(tag = "t", content = "c")]
pub enum CHostV {{ Keep(u32), {ai} GBad(u32, String), Sv {{ keep: u32, {ai} #[serde(flatten)] gmember: CInner }} }}
#[typeshare]
pub enum CHostU {{ Keep, Also, {ai} GData(u32), {ai} GStruct {{ x: u32 }} }}
#[typeshare]
{a}pub struct CBig {{ pub n: u64 }}
"""


def dropped_contents(chk, cases):
    """MC_C13!Contents: a member the rule drops may be anything - also something typeshare refuses when it is kept"""
    jobs, meta = [], []
    for attrs, keep in cases:
        bits = [b for b in range(16) if not keep[b]]
        for bit in bits[:1] + bits[-1:]:
            jobs.append({"id": len(jobs), "lang": "typescript", "dump": True, "parse_only": True, "target_os": targets_of(bit), "files": [{"src": contents_source(attrs)}]})
            meta.append((attrs, targets_of(bit)))
    for res, (attrs, T) in zip(common.run_driver("gen", jobs), meta):
        chk.judged((str(attrs), tuple(T), "contents"))
        if res["status"] in ("panic", "abort", "hang"):
            continue          # C07
        if res["status"] != "ok":
            chk.mismatch(f"C13/contents/{shape(attrs)}/{tclass(attrs, T)}/dropped-member-still-judged",
                         f"members guarded by {attrs_text(attrs).strip()} are dropped for --target-os {T}, yet the run fails on what they contain: {str(res.get('errors'))[:200]}",
                         {"attrs": attrs, "targets": T, "level": "contents"}, "run succeeds without the members", res["status"])
            continue
        pd = (res.get("parsed") or {}).get("", {})
        structs = {s_["id"]["original"]: s_ for s_ in pd.get("structs", [])}
        enums = {e_["id"]["original"]: e_ for e_ in pd.get("enums", [])}
        left = [n for n in ("CHostF", "CHostB") if n in structs and any(f["id"]["original"] == "gmember" for f in structs[n]["fields"])]
        if "CBig" in structs:
            left.append("CBig")
        if "CHostV" in enums:
            left += ["CHostV::GBad" for v in enums["CHostV"]["variants"] if v["id"]["original"] == "GBad"]
            left += ["CHostV::Sv.gmember" for v in enums["CHostV"]["variants"] if v["id"]["original"] == "Sv" and any(f["id"]["original"] == "gmember" for f in v.get("fields", []))]
        # CHostU carries no serde(tag, content): without its data-carrying variants (dropped by the rule) it is an ordinary unit enum
        if "CHostU" in enums:
            left += ["CHostU::" + v["id"]["original"] for v in enums["CHostU"]["variants"] if v["id"]["original"] in ("GData", "GStruct")]
        missing = [n for n in ("CHostF", "CHostB") if n not in structs] + ([] if "CHostV" in enums else ["CHostV"]) + ([] if "CHostU" in enums else ["CHostU"])
        if left or missing:
            chk.mismatch(f"C13/contents/{shape(attrs)}/{tclass(attrs, T)}/kept=True",
                         f"guarded by {attrs_text(attrs).strip()} with --target-os {T}: the rule drops the members, typeshare kept {left} / lost the hosts {missing}",
                         {"attrs": attrs, "targets": T, "level": "contents"}, False, True)


def rand_expr(rng, depth, oses):
    if depth == 0 or rng.random() < 0.25:
        r = rng.random()
        if r < 0.7:
            return {"k": "os", "v": rng.choice(oses)}
        return {"k": rng.choice(["feat", "word", "os_other"])}
    k = rng.choice(["not", "any", "all", "any", "all"])
    n = 1 if k == "not" else rng.randint(1, 3)
    return {"k": k, "cs": [rand_expr(rng, depth - 1, oses) for _ in range(n)]}


def cli_wiring(chk, cases):
    """The same rule through the real binary: --target-os list -> ParseContext -> output file."""
    work = common.scratch("c13cli")
    n = 0
    for idx, (attrs, keep) in enumerate(cases):
        d = os.path.join(work, f"t{idx}")
        os.makedirs(os.path.join(d, "src"))
        with open(os.path.join(d, "src", "lib.rs"), "w") as f:
            f.write(source(attrs))
        for bit in (0, 1, 3, 6, 15):
            T = targets_of(bit)
            out = os.path.join(d, f"out{bit}.ts")
            cmd = [common.CLI, "-l", "typescript", "-o", out, os.path.join(d, "src")]
            if T:
                cmd += ["--target-os"] + T
            r = subprocess.run(cmd, capture_output=True, text=True, env={**os.environ, "RUST_BACKTRACE": "0"}, timeout=30)
            if r.returncode != 0:
                raise ToolError(f"typeshare CLI failed on a C13 case: {r.stderr[-500:]}")
            obs = ts_extract.extract(open(out).read())
            names = {d_["name"] for d_ in obs["defs"]}
            kept = "GStruct" in names
            judge(chk, attrs, T, "cli-struct", keep[bit], kept)
            host = [d_ for d_ in obs["defs"] if d_["name"] == "HostStruct"]
            if host:
                judge(chk, attrs, T, "cli-field", keep[bit], any(m["key"] == "gfield" for m in host[0]["members"]))
            n += 1
    chk.extra["cli_runs"] = n


def run(chk):
    thorough = chk.tier == "thorough"
    chk.rule = ("spec->impl: every cfg expression over any/all/not to depth " + ("3 over {a,b,feature}" if thorough else
                "2 over {a,b,c,feature,unix}") + " plus every split into two #[cfg] attributes (depth<=1), x all 16 target "
                "lists over {a,b,c,d}, attached as file inner attribute, on struct/enum/alias/const, variant, field and "
                "struct-variant field; impl->spec: random expressions to depth 5 with up to 3 attributes judged by Trace_C13; "
                "plus CLI runs. distinct = (attribute list, target list, level).")
    chk.assumptions = ["presence is read from ParsedData (what every backend receives); a TypeScript end-to-end subset goes "
                       "through the real binary and the extractor"]
    res = common.run_tlc("MC_C13", cfg="MC_C13_thorough" if thorough else "MC_C13_quick", workers=8, timeout=2400, heap="12g")
    chk.add_tlc("MC_C13", res)
    chk.exhaustive = True
    cases = [(c["attrs"], c["keep"]) for c in res.replays]
    if not cases:
        raise ToolError("no cases")
    drift = sum(1 for c in res.replays if c["keep"] != c["predict"])
    chk.extra["model_level_divergences_M_vs_P"] = drift
    for c in cases[:2] + cases[len(cases) // 2:len(cases) // 2 + 2]:
        chk.sample({"attrs": attrs_text(c[0]).strip(), "keep_for_target_sets_0..15": c[1]})
    if thorough:
        # all levels for a stratified slice, rotating file level; the whole set through the type levels
        run_cases(chk, cases, file_every=7)
    else:
        run_cases(chk, cases, file_every=1)
    chk.traces += len(cases) * 16
    dropped_contents(chk, cases if not thorough else cases[::5])

    rng = chk.rng
    rcases = []
    for _ in range(3000 if thorough else 250):
        na = rng.choice([1, 1, 2, 3])
        rcases.append(([rand_expr(rng, rng.randint(2, 5), TARGETS + ["e"]) for _ in range(na)], None))
    silent = common.Check(chk.pid, chk.tier, chk.seed)
    events = run_cases(silent, rcases, file_every=2)
    nbad = 0
    for part in common.chunks(events, 40000):
        ok, matched, tres = common.trace_validate("Trace_C13", part, timeout=1200)
        chk.add_tlc("Trace_C13", tres)
        if matched != len(part):
            raise ToolError(f"Trace_C13 consumed {matched}/{len(part)}")
        for b in tres.bad:
            e = part[b - 1]
            nbad += 1
            chk.mismatch(f"C13/{e['level']}/{shape(e['attrs'])}/{tclass(e['attrs'], e['targets'])}/kept={e['kept']}",
                         f"Trace_C13 rejects: {e['level']} guarded by {attrs_text(e['attrs']).strip()} with {e['targets']} kept={e['kept']}",
                         {"attrs": e["attrs"], "targets": e["targets"], "level": e["level"]}, "TargetOs!Accept", e["kept"])
    for e in events:
        chk.judged((str(e["attrs"]), tuple(e["targets"]), e["level"]))
    chk.traces += len(events) - nbad
    chk.extra["trace_events"] = len(events)
    step = max(1, len(cases) // (60 if thorough else 12))
    cli_wiring(chk, cases[::step])


def replay(chk, rec):
    c = rec["case"]
    if c.get("level") == "contents":
        bitvec = [True] * 16
        bitvec[sum(1 << i for i, t in enumerate(TARGETS) if t in c["targets"])] = False
        dropped_contents(chk, [(c["attrs"], bitvec)])
        chk.mismatches = {k: v for k, v in chk.mismatches.items() if k == rec["signature"]}
        return
    silent = common.Check(chk.pid, chk.tier, chk.seed)
    events = [e for e in run_cases(silent, [(c["attrs"], None)], file_every=1)
              if e["targets"] == c["targets"] and e["level"] == c["level"].replace("cli-struct", "struct").replace("cli-field", "field")]
    ok, matched, tres = common.trace_validate("Trace_C13", events)
    for b in tres.bad:
        chk.mismatch(rec["signature"], rec["what"], c, rec["expected"], events[b - 1]["kept"])
