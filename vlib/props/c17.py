"""C17: re-running is idempotent and the output depends only on the latest inputs.

P  = spec/Writer.tla  Idempotent (action property) + Fresh (invariant)
M  = Writer!Run: compare-then-write per path, skip-when-empty, the Swift helper file
spec->impl: MC_Writer enumerates every history of up to 3 (quick) / 5 (thorough) runs over 4 source versions (TLC also
            checks P on the model for all of them); each history is executed with the real binary into one output
            location, with the source tree swapped between runs.
impl->spec: after every run the location is snapshotted (sha256 + mtime_ns); Trace_Writer judges the whole history
            against P, with the "fresh content" taken from logged runs into empty locations.
"""
import os
import shutil
import time

from .. import cli, common
from ..common import ToolError

NEEDS = ["cli"]
LANG_ARGS = {"typescript": [], "kotlin": ["--java-package", "com.x"], "swift": [], "scala": ["--scala-package", "com.x"],
             "go": ["--go-package", "p"], "python": []}

# concrete source versions for the abstract v1..v4 of MC_Writer: a type changes and a crate loses its types (v2),
# a type moves between crates and the unit type appears (v3: Swift's shared Codable.swift), more item kinds (v4)
SOURCES = {
    "v1": {"ca/src/lib.rs": "/** Account record.\n * second line of the block comment\n */\n#[typeshare]\npub struct A { pub x: u32 }\n",
           "cb/src/lib.rs": "#[typeshare]\npub struct B { pub y: String }\n"},
    "v2": {"ca/src/lib.rs": "#[typeshare]\npub struct A2 { pub x: u32, pub z: bool }\n",
           "cb/src/lib.rs": "pub struct NotShared;\n"},
    "v3": {"ca/src/lib.rs": "#[typeshare]\npub struct A { pub x: u32, pub u: () }\n#[typeshare]\npub struct B { pub y: String }\n",
           "cb/src/lib.rs": "#[typeshare]\npub struct C { pub v: Vec<()> }\n"},
    "v4": {"ca/src/lib.rs": "#[typeshare]\npub struct A { pub x: u32 }\n#[typeshare]\npub enum E { P, Q }\n",
           "cb/src/lib.rs": "#[typeshare]\npub struct B { pub y: String }\n#[typeshare]\npub type T = Vec<B>;\n",
           "cc/src/deep/er.rs": "#[typeshare]\n#[serde(tag = \"t\", content = \"c\")]\npub enum G { N(u32), S { f: Option<()> } }\n"
                                # generic items with several parameter NAMES (whatever a backend collects per name - type variables,
                                # imports - it writes in the same order in every process)
                                "#[typeshare]\npub struct Page<Item, Cursor, Meta, Extra> { pub items: Vec<Item>, pub next: Option<Cursor>, pub meta: Meta, pub extra: Extra }\n"
                                "#[typeshare]\npub struct Wrapped<Payload> { pub payload: Payload }\n"},
}


# v5 = v1 checked out with CRLF line endings (MC_Writer!MCVersions)
SOURCES["v5"] = {p: t.replace("\n", "\r\n") for p, t in SOURCES["v1"].items()}


# v6 = v1 plus an item typeshare must reject, in the crate whose file is written second (MC_Writer!MCFails)
SOURCES["v6"] = dict(SOURCES["v1"], **{"cb/src/lib.rs": SOURCES["v1"]["cb/src/lib.rs"] + "#[typeshare]\npub struct Big { pub n: u64 }\n"})
FAILS = {"v6"}


# v7 = v3 under another configuration file (MC_Writer!MCVersions): decorators / constraints reach every module and the helper file
SOURCES["v7"] = dict(SOURCES["v3"], **{"typeshare.toml": '[swift]\ndefault_decorators = ["Sendable", "Identifiable"]\ncodablevoid_constraints = ["Hashable"]\n'
                                                         '[typescript.type_mappings]\n"u32" = "bigint"\n[python.type_mappings]\n"u32" = "float"\n'})


# v8: a workspace in which a name is ambiguous (imported through a facade crate, defined by two providers) next to an ordinary import:
# whatever the generator decides, it decides the same in every process, so a re-run finds its own output unchanged
SOURCES["v8"] = {"app/src/lib.rs": "use facade::Shared;\nuse beta::Extra;\nuse beta::Stamp;\n#[typeshare]\npub struct App { pub s: Shared, pub e: Extra, pub at: Stamp }\n",
                 "alpha/src/lib.rs": "#[typeshare]\npub struct Shared { pub a: u32 }\n",
                 "beta/src/lib.rs": "#[typeshare]\npub struct Shared { pub b: u32 }\n#[typeshare]\npub struct Extra { pub x: u32 }\n#[typeshare]\npub struct Stamp { pub t: u32 }\n",
                 "facade/src/lib.rs": "pub use alpha::Shared;\n#[typeshare]\npub struct FacadeOwn { pub f: u32 }\n",
                 # ... under a configuration whose mapping tables have several entries, one of them for a type that another crate of the
                 # workspace shares and this one imports (Stamp; the ordinary import of Extra stays unmapped): whether the import is written is decided the same way in every process
                 "typeshare.toml": "".join(f'[{l}.type_mappings]\n"Stamp" = "{t}"\n"Unused1" = "{t}"\n"Unused2" = "{t}"\n"Unused3" = "{t}"\n"Unused4" = "{t}"\n'
                                           for l, t in (("kotlin", "String"), ("typescript", "string"), ("swift", "String"), ("scala", "String"), ("go", "string"), ("python", "str")))}


# v9 = v1 plus one more type that sorts last in its output file (MC_Writer!MCExtends: v1's output is a proper prefix of v9's)
SOURCES["v9"] = dict(SOURCES["v1"], **{"ca/src/lib.rs": SOURCES["v1"]["ca/src/lib.rs"] + "#[typeshare]\npub struct Zz { pub last: bool }\n"})


# v10 = the items of v4 plus many small files, with OVERLAPPING directory arguments (the tree, one crate of it, one directory of
# that crate): the files below are delivered to the collector two and three times by the parallel walk
SOURCES["v10"] = dict(SOURCES["v4"], **{f"ca/src/m/t{i:02}.rs": f"#[typeshare]\npub struct M{i:02} {{ pub x: u32 }}\n" for i in range(30)})
ROOTS = {"v10": ["", "ca", "ca/src/m"]}


# v11 = nothing but constants, one per file, in one crate (MC_Writer!MCVersions): for the backends without constants the version fails
SOURCES["v11"] = {f"limits/src/c{i:02}.rs": f"#[typeshare]\npub const LIMIT_{i:02}: u32 = {i};\n" for i in range(12)}
FAILS_FOR = {"v11": {"swift", "kotlin", "scala"}}


def fails(v, lang):
    return v in FAILS or lang in FAILS_FOR.get(v, ())


# v12 = v3 under a configuration that changes nothing but Swift's helper file (MC_Writer!MCVersions)
SOURCES["v12"] = dict(SOURCES["v3"], **{"typeshare.toml": '[swift]\ncodablevoid_constraints = ["Hashable", "Equatable"]\n'})


# (in single-file mode v8 would put two same-named definitions into one file: the arrival-order finding listed under C06)
MULTI_ONLY = {"v8"}


class Refused(Exception):
    """a run of a supported source version failed (or a version that must be refused was accepted)"""


def set_sources(root, v):
    if os.path.isdir(root):
        shutil.rmtree(root)
    cli.make_tree(root, SOURCES[v])


def run_into(out, src, lang, mode, expect_fail=False, roots=("",)):
    args = ["-l", lang] + LANG_ARGS[lang]
    args += ["-o", os.path.join(out, "out." + common.EXT[lang])] if mode == "single" else ["-d", out]
    if os.path.exists(os.path.join(src, "typeshare.toml")):
        args += ["-c", os.path.join(src, "typeshare.toml")]
    args += [os.path.join(src, r) if r else src for r in roots]
    os.makedirs(out, exist_ok=True)
    r = cli.run_cli(args, timeout=20)
    if r["exit"] != ("error" if expect_fail else "ok"):
        raise Refused(f"typeshare {'did not fail' if expect_fail else 'failed'} ({lang}, {mode}): exit {r['exit']} {r['stderr'][-200:].strip()}")
    return {p: {"sha": s, "mtime": str(m)} for p, (s, m) in cli.snapshot(out).items()}


def path_class(p):
    return "Codable.swift" if p.endswith("Codable.swift") else "module-file"


def run(chk):
    thorough = chk.tier == "thorough"
    chk.rule = ("spec->impl: every history of up to " + ("4" if thorough else "3") + " runs over 10 source versions (MC_Writer; at most " + ("3" if thorough else "2") + " different versions per history; histories "
                "starting on an empty placeholder file too) executed with the "
                "real binary into one output location, single- and multi-file mode, " + ("6 languages" if thorough else "TypeScript and Swift") +
                "; impl->spec: snapshot (sha256, mtime_ns) after every run, judged by Trace_Writer. distinct = (language, mode, history prefix).")
    chk.assumptions = ["mtime equality is compared in ns; runs are >= 3 ms apart", "fresh content = what the same binary writes into an empty location"]
    # model level: P holds for the model of today's code; the pre-fix helper behaviour violates Idempotent
    for cfg, must_hold in (("fixed", True), ("bug", False), ("eager", False), ("prefix", False)):
        res = common.run_tlc("MC_Writer", cfg=f"MC_Writer_{cfg}", workers=2, timeout=300, allow_violation=True)
        chk.add_tlc(f"MC_Writer[{cfg}]", res)
        chk.extra.setdefault("model_results", {})[cfg] = res.violation or "Idempotent and Fresh hold for every history"
        if must_hold and res.violation:
            raise ToolError(f"Writer model violates P: {res.violation}")
    res = common.run_tlc("MC_Writer", cfg="MC_Writer_thorough" if thorough else "MC_Writer_quick", workers=2, timeout=600)
    chk.add_tlc("MC_Writer[histories]", res)
    chk.exhaustive = True
    hists = [c["history"] for c in res.replays if c["history"]]
    # a history that is a prefix of another is covered by it: run only maximal ones
    hs = set(map(tuple, hists))
    maximal = [h for h in hs if not any(len(o) > len(h) and o[:len(h)] == h for o in hs)]
    maximal.sort()
    chk.extra["maximal_histories_enumerated"] = len(maximal)
    CAP = 3000
    if thorough and len(maximal) > CAP:
        # thorough tier: every maximal history of up to 3 runs, and an evenly spread selection of the longer ones (the real binary is run
        # 4 times x 12 language / mode configurations per history: the whole set would take hours)
        short = [h for h in maximal if len(h) <= 3]
        long_ = [h for h in maximal if len(h) > 3]
        step = max(1, len(long_) // max(1, CAP - len(short)))
        maximal = sorted(short + long_[chk.seed % step::step])
        chk.exhaustive = False
        chk.extra["maximal_histories_replayed"] = len(maximal)
    chk.sample({"history": list(maximal[0])})
    chk.sample({"history": list(maximal[len(maximal) // 2])})
    langs = common.LANGS if thorough else ["typescript", "swift"]
    work = common.scratch("c17")
    import concurrent.futures as cf

    refusals = []

    def do_config(lang, mode):
        events, meta = [], []
        base = os.path.join(work, f"{lang}_{mode}")
        src = os.path.join(base, "src")
        for v in SOURCES:
            if v in MULTI_ONLY and mode != "multi":
                continue
            set_sources(src, v)
            try:
                ref = run_into(os.path.join(base, f"ref_{v}"), src, lang, mode, fails(v, lang), ROOTS.get(v, ("",)))
            except Refused as e:
                refusals.append((lang, mode, [v], str(e)))
                continue
            if fails(v, lang):
                if ref:
                    events.append({"ev": "reset"})
                    meta.append(None)
                    events.append({"ev": "run", "v": v, "failed": True, "files": ref})      # into an empty location: nothing may appear
                    meta.append({"lang": lang, "mode": mode, "history": [v]})
                continue
            events.append({"ev": "ref", "v": v, "files": {p: f["sha"] for p, f in ref.items()}})
            meta.append(None)
        hl = [h for h in maximal if mode == "multi" or not (set(h) & MULTI_ONLY)]
        for hi, h in enumerate(hl):
            out = os.path.join(base, f"h{hi}")
            events.append({"ev": "reset"})
            meta.append(None)
            for k, v in enumerate(h):
                if v == "touch":
                    # Writer!Touch: an empty placeholder at the output path (single-file mode) / at the first crate's file
                    os.makedirs(out, exist_ok=True)
                    open(os.path.join(out, ("out." if mode == "single" else "ca.") + common.EXT[lang]), "w").close()
                    events.append({"ev": "touch", "files": {p: {"sha": s_, "mtime": str(m_)} for p, (s_, m_) in cli.snapshot(out).items()}})
                    meta.append(None)
                    continue
                if v == "remove":
                    # Writer!Remove: the helper file (Swift's Codable.swift; for the other backends the first file of the location) disappears
                    present = sorted(cli.snapshot(out)) if os.path.isdir(out) else []
                    victim = ([p for p in present if p.endswith("Codable.swift")] or present[:1])
                    if victim:
                        os.remove(os.path.join(out, victim[0]))
                    events.append({"ev": "remove", "files": {p: {"sha": s_, "mtime": str(m_)} for p, (s_, m_) in cli.snapshot(out).items()}})
                    meta.append(None)
                    continue
                set_sources(src, v)
                time.sleep(0.003)
                try:
                    snap = run_into(out, src, lang, mode, fails(v, lang), ROOTS.get(v, ("",)))
                except Refused as e:
                    refusals.append((lang, mode, list(h[:k + 1]), str(e)))
                    break
                events.append({"ev": "run", "v": v, "failed": fails(v, lang), "files": snap})
                meta.append({"lang": lang, "mode": mode, "history": list(h[:k + 1])})
            shutil.rmtree(out, ignore_errors=True)
        return lang, mode, events, meta

    with cf.ThreadPoolExecutor(max_workers=8) as ex:
        # quick: Python and Kotlin only in folder mode (the backends with the most state kept across the modules of one run / with import lines)
        futs = [ex.submit(do_config, lang, mode) for lang in langs for mode in ("single", "multi")] + \
               ([] if thorough else [ex.submit(do_config, "python", "multi"), ex.submit(do_config, "kotlin", "multi")])
        configs = [f.result() for f in futs]
    for lang, mode, hist, msg in refusals[:20]:
        chk.refused(f"{lang}/{mode}/{hist[-1]}", f"{lang} {mode}: after history {hist}: {msg}", {"lang": lang, "mode": mode, "history": hist})
    for lang, mode, events, meta in configs:
        ok, matched, tres = common.trace_validate("Trace_Writer", events, timeout=900)
        chk.add_tlc(f"Trace_Writer[{lang},{mode}]", tres)
        if matched != len(events):
            raise ToolError(f"Trace_Writer consumed {matched}/{len(events)}")
        runs = [m for m in meta if m]
        chk.traces += len(runs) - len(tres.bad)
        for m in runs:
            chk.judged((lang, mode, tuple(m["history"])))
        refs = {e["v"]: e["files"] for e in events if e["ev"] == "ref"}
        for b in tres.bad:
            e, m = events[b - 1], meta[b - 1]
            prev = events[b - 2] if events[b - 2]["ev"] in ("run", "touch", "remove") else None
            kinds = []
            if e.get("failed"):
                before = prev["files"] if prev else {}
                for p in set(before) | set(e["files"]):
                    if before.get(p) != e["files"].get(p):
                        kinds.append(("touched-by-failing-run", path_class(p)))
            elif prev and prev.get("v") == e["v"]:
                for p in set(prev["files"]) | set(e["files"]):
                    a, c = prev["files"].get(p), e["files"].get(p)
                    if a != c:
                        kinds.append(("rewritten-unchanged" if a and c and a["sha"] == c["sha"] else "changed-on-rerun", path_class(p)))
            for p, sha in refs.get(e["v"], {}).items():
                if e["files"].get(p, {}).get("sha") != sha:
                    kinds.append(("stale-content", path_class(p)))
            for kind, pc in sorted(set(kinds)) or [("unclassified", "?")]:
                chk.mismatch(f"C17/{lang}/{mode}/{pc}/{kind}",
                             f"{lang} {mode}: after history {m['history']} -> {kind} ({pc})", m, "Writer!Idempotent /\\ Writer!Fresh", kind)


def replay(chk, rec):
    run(chk)
    chk.mismatches = {k: v for k, v in chk.mismatches.items() if k == rec["signature"]}
