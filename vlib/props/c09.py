"""C09: every reference to a generated type uses the name the type is defined under.

P = spec/Names.tla (DefName, RefOk, ParamOk, HelperOk)
spec->impl: MC_C09 enumerates the target type: kind (struct, generic struct, unit enum, tagged enum with struct
            variant, alias, self-recursive struct / enum) x carries serde(rename)? x prefix x a second (also possibly
            renamed) type, referenced from every position of fixed hosts: field, Vec / Option / HashMap value / HashMap
            key element, array, generic argument, alias target, newtype payload, struct-variant field, self reference;
            generated in 6 languages (prefix applies to Swift and Kotlin).
impl->spec: every reference site found in an output file is an event judged by Trace_C09 together with the file's
            definition names; plus variant-parent names (Kotlin / Scala supertypes), helper-struct uses, generic
            parameters (never prefixed or renamed).
"""
from .. import common, observe
from ..common import ToolError

NEEDS = ["driver"]


def target_src(kind, attrs, ident="Target"):
    a = "".join(x + "\n" for x in attrs)
    return _target_src(kind, a).replace("Target", ident)


def _target_src(kind, a):
    if kind == "struct":
        return f"#[typeshare]\n{a}pub struct Target {{ pub x: u32 }}\n"
    if kind == "generic_struct":
        return f"#[typeshare]\n{a}pub struct Target<T> {{ pub x: T, pub many: Vec<T> }}\n"
    if kind == "unit_enum":
        return f"#[typeshare]\n{a}pub enum Target {{ A, B }}\n"
    if kind == "tagged_enum":
        return f'#[typeshare]\n#[serde(tag = "type", content = "content")]\n{a}pub enum Target {{ N(u32), S {{ f: Second }}, U }}\n'
    if kind == "alias":
        return f"#[typeshare]\n{a}pub type Target = Vec<String>;\n"
    if kind == "generic_alias":
        return f"#[typeshare]\n{a}pub type Target<T> = Vec<T>;\n"
    if kind == "generic_enum":
        # struct variants that mention the parameter through every container: their derived helper types take the parameter
        return (f'#[typeshare]\n#[serde(tag = "type", content = "content")]\n{a}pub enum Target<T> {{ A(T), B {{ f: Vec<T> }}, U, '
                "InArray { f: [T; 2] }, InSlice { f: &'static [T] }, InOption { f: Option<T> }, InMap { f: HashMap<String, T> }, InGen { f: Gen<T> }, InNested { f: Vec<Option<[T; 2]>> } }\n")
    if kind == "unit_struct":
        return f"#[typeshare]\n{a}pub struct Target;\n"
    if kind == "newtype_struct":
        return f"#[typeshare]\n{a}pub struct Target(String);\n"
    if kind == "jvm_inline":          # a newtype that Kotlin writes as an inline value class (another definition site of that backend)
        return f'#[typeshare(kotlin = "JvmInline")]\n{a}pub struct Target(String);\n'
    if kind == "sas_struct":          # shared as an alias of another type; the container's rename_all is about its fields, not its name
        return f'#[typeshare(serialized_as = "String")]\n#[serde(rename_all = "camelCase")]\n{a}pub struct Target {{ pub inner_part: u32 }}\n'
    if kind == "sas_enum":
        return f'#[typeshare(serialized_as = "String")]\n#[serde(rename_all = "snake_case")]\n{a}pub enum Target {{ FirstOne, SecondOne }}\n'
    if kind == "recursive_struct":
        return f"#[typeshare]\n{a}pub struct Target {{ pub next: Option<Box<Target>>, pub kids: Vec<Target> }}\n"
    if kind == "recursive_enum":
        return f'#[typeshare]\n#[serde(tag = "type", content = "content")]\n{a}pub enum Target {{ Leaf(u32), Node(Box<Target>), Pair {{ l: Box<Target>, r: Vec<Target> }} }}\n'
    raise ValueError(kind)


def source(case):
    if case.get("elsewhere") == "module_twin":
        return _source(case) + '\npub mod v2 {\n    #[typeshare]\n    #[serde(rename = "TwinOfTarget")]\n    pub struct Target {\n        pub twin: bool,\n    }\n}\n'
    ident = case.get("ident", "Target")
    return _source(case).replace("Target", ident) if ident != "Target" else _source(case)


def _source(case):
    t = "Target<u32>" if case["kind"] in ("generic_struct", "generic_alias", "generic_enum") else "Target"
    ta = ['#[serde(rename = "TargetRenamed")]'] if case["renamed"] else []
    sa = '#[serde(rename = "SecondRenamed")]\n' if case["second_renamed"] else ""
    src = f"#[typeshare]\n{sa}pub struct Second {{ pub s: u32 }}\n"
    src += "#[typeshare]\npub struct Gen<X> { pub g: X }\n"
    src += target_src(case["kind"], ta)
    src += (f"#[typeshare]\npub struct Refs<P> {{\n    pub r_field: {t},\n    pub r_vec: Vec<{t}>,\n    pub r_opt: Option<{t}>,\n"
            f"    pub r_mapv: HashMap<String, {t}>,\n    pub r_mapk: HashMap<{t}, String>,\n    pub r_array: [{t}; 2],\n"
            f"    pub r_garg: Gen<{t}>,\n    pub r_nested: Vec<Option<HashMap<String, Gen<{t}>>>>,\n    pub r_param: Vec<P>,\n    pub r_second: Second,\n"
            + ("    pub r_tsec: Target<Second>,\n    pub r_tsecv: Vec<Target<Vec<Second>>>,\n" if case["kind"] == "generic_struct" else "") + "}\n")
    # generic parameters NAMED LIKE typeshared types of the run (valid Rust: the parameter shadows the type inside the item). They are
    # parameters - never prefixed, never renamed - and the items that follow still refer to the real types by their definition names
    src += "#[typeshare]\npub struct ShadowS<Second> {\n    pub sh_param: Vec<Second>,\n    pub sh_keep: u32,\n}\n"
    if case["kind"] not in ("recursive_struct", "recursive_enum"):
        src += "#[typeshare]\npub struct ShadowT<Target> {\n    pub sh_param: Option<Target>,\n    pub sh_keep: u32,\n}\n"
    src += f"#[typeshare]\npub struct ZAfterShadows {{\n    pub z_second: Second,\n    pub z_target: Vec<{t}>,\n}}\n"
    src += f"#[typeshare]\npub type RAlias = {t};\n"
    src += f"#[typeshare]\npub type RAliasVec = Vec<{t}>;\n"
    src += f'#[typeshare]\n#[serde(tag = "type", content = "content")]\npub enum RHost {{ Pay({t}), PayVec(Vec<{t}>), {case.get("svname", "Sv")} {{ f: {t}, g: Option<{t}> }}, U }}\n'
    return src


def elsewhere_files(case):
    """folder mode: another crate that defines a type with the same Rust identifier as the target"""
    e = case.get("elsewhere", "none")
    if e in ("none", "module_twin"):
        return []
    ren = '#[serde(rename = "ApiTarget")]\n' if e.startswith("same_ident_renamed") else ""
    src = f"#[typeshare]\n{ren}pub struct Target {{ pub api: bool }}\n#[typeshare]\npub struct ApiOnly {{ pub a: u32 }}\n"
    # the other crate's name sorts before (api) or after (zzz_api) the crate under test (cratex): tables keyed by the Rust identifier
    # must keep one entry PER CRATE, whichever crate is seen last
    crate = "zzz_api" if e.endswith("_later_crate") else "api"
    out = [{"src": src, "crate": crate, "path": f"{crate}/src/lib.rs", "out": crate}]
    if e.endswith("_later_crate"):
        third = '#[typeshare]\n#[serde(rename = "ThirdTarget")]\npub struct Target { pub third: bool }\n'
        out.append({"src": third, "crate": "mmm_third", "path": "mmm_third/src/lib.rs", "out": "mmm_third"})
    return out


def leaves(ty, acc):
    """all user-node names in a type tree, outermost first"""
    if not isinstance(ty, dict):
        return acc
    if ty.get("k") == "user":
        acc.append(ty["n"])
        for a in ty.get("args", []):
            leaves(a, acc)
    for k in ("e", "key", "val"):
        if k in ty:
            leaves(ty[k], acc)
    for x in ty.get("es", []):
        leaves(x, acc)
    return acc


def target_leaf(ty, others):
    """the name written where Target is referenced: the user leaf that is not one of the other known names"""
    ls = [n for n in leaves(ty, []) if n not in others]
    return ls[0] if ls else None


def sites(lang, obs, case, prefix):
    """-> [(site, ref_name, target_kind)] for every reference position found in the file"""
    out = []
    defs = [d["name"] for d in obs["defs"]]
    pre = prefix
    others = {pre + "Gen", "Gen", "P", "T", "X", "String", pre + "Second", "SecondRenamed", pre + "SecondRenamed", "Second", "CodableVoid"}
    refs = observe.find_def(obs, pre + "Refs", "Refs")
    if refs:
        for m in refs.get("members", []):
            if m["key"] == "r_param":
                out.append(("param", target_leaf(m["ty"], {"X"}), None))
            elif m["key"] == "r_second":
                out.append(("second", (leaves(m["ty"], []) or [None])[0], None))
            elif m["key"] in ("r_tsec", "r_tsecv"):
                # the (possibly renamed) generic target applied to the (possibly renamed) second type: both names are judged
                ls = leaves(m["ty"], [])
                if len(ls) >= 2:
                    out.append(("garg_host" + m["key"][6:], ls[0], None))
                    out.append(("second_as_arg_of_target" + m["key"][6:], ls[1], None))
            elif m["key"].startswith("r_"):
                out.append((m["key"][2:], target_leaf(m["ty"], others), None))
    for hn, pname in (("ShadowS", "Second"), ("ShadowT", case.get("ident", "Target"))):
        sh = observe.find_def(obs, pre + hn, hn)
        for m in (sh or {}).get("members", []):
            if m["key"] == "sh_param":
                out.append(("param", (leaves(m["ty"], []) or [None])[0], "shadow:" + pname))
    za = observe.find_def(obs, pre + "ZAfterShadows", "ZAfterShadows")
    for m in (za or {}).get("members", []):
        if m["key"] == "z_second":
            out.append(("second_after_shadow", (leaves(m["ty"], []) or [None])[0], None))
        elif m["key"] == "z_target":
            out.append(("field_after_shadow", target_leaf(m["ty"], others), None))
    for an, site in (("RAlias", "alias"), ("RAliasVec", "alias_vec")):
        a = observe.find_def(obs, pre + an, an)
        if a and a["kind"] == "alias":
            out.append((site, target_leaf(a["target"], others), None))
    h = observe.find_def(obs, pre + "RHost", "RHost")
    if h and h["kind"] == "union":
        for v in h["variants"]:
            if v["wire"] in ("Pay", "PayVec") and v.get("ty"):
                out.append(("payload" if v["wire"] == "Pay" else "payload_vec", target_leaf(v["ty"], others), None))
            if v["wire"] == case.get("svname", "Sv") and v.get("payload") == "newtype" and v.get("ty"):
                out.append(("helper", (leaves(v["ty"], []) or [None])[0], None))      # the derived helper struct, by the name it is used
            if v.get("super"):
                sup = v["super"] if isinstance(v["super"], str) else (leaves(v["super"], []) or [None])[0]
                out.append(("variant_parent_host", sup, "host"))
            if v.get("extends"):
                sup = (leaves(v["extends"], []) or [None])[0]
                out.append(("variant_parent_host", sup, "host"))
        ms = observe.struct_variant_members(lang, obs, [pre + "RHost", "RHost"], case.get("svname", "Sv"), case.get("svname", "Sv"))
        for m in ms or []:
            out.append(("vfield" if m["key"] == "f" else "vfield_opt", target_leaf(m["ty"], others), None))
    # inside the target itself: self references, its own helper, the parent of its variants
    ident = case.get("ident", "Target")
    tnames = [pre + ident + "Renamed", pre + ident, ident + "Renamed", ident]
    t = observe.find_def(obs, *tnames)
    if t:
        if case["kind"] in ("recursive_struct",):
            for m in t.get("members", []):
                out.append(("self_" + m["key"], target_leaf(m["ty"], others), None))
        if t["kind"] == "union" and case["kind"] == "generic_enum":
            # the parameter inside the struct variants of the generic target: never prefixed or renamed (ParamOk), wherever it is mentioned
            for w in ("B", "InArray", "InSlice", "InOption", "InMap", "InGen", "InNested"):
                for m in observe.struct_variant_members(lang, obs, tnames, w, w) or []:
                    if m["key"] == "f":
                        out.append(("param", target_leaf(m["ty"], {pre + "Gen", "Gen", "String"}), "T-in-" + w))
        if t["kind"] == "union":
            for v in t["variants"]:
                if case["kind"] == "recursive_enum" and v["wire"] == "Node" and v.get("ty"):
                    out.append(("self_payload", target_leaf(v["ty"], others), None))
                if v.get("payload") == "newtype" and v["wire"] in ("S", "Pair") and v.get("ty") and lang != "typescript":
                    out.append(("helper", (leaves(v["ty"], []) or [None])[0], None))
                for key in ("super", "extends"):
                    if v.get(key):
                        sup = v[key] if isinstance(v[key], str) else (leaves(v[key], []) or [None])[0]
                        out.append(("variant_parent", sup, None))
    return out, defs


def run_cases(chk, cases):
    srcs = [source(c["case"]) for c in cases]
    events, meta = [], []
    for prefix, folder in (("", False), ("Pre", False), ("", True), ("Pre", True)):
        sel = [i for i, c in enumerate(cases) if c["case"]["prefix"] == prefix and (c["case"].get("mode", "single") == "folder") == folder]
        if not sel:
            continue
        cfgs = {"swift": {"prefix": prefix}, "kotlin": {"prefix": prefix}} if prefix else None
        langs = list(common.LANGS if not prefix else ["swift", "kotlin"])
        extra = [elsewhere_files(cases[i]["case"]) for i in sel] if folder else None
        results = observe.generate([srcs[i] for i in sel], langs=langs, cfgs=cfgs, multi=folder, extra_files=extra)
        for i, per in zip(sel, results):
            c = cases[i]
            for lang in langs:
                r = per[lang]
                if r["status"] in ("panic", "abort", "hang"):
                    continue
                if r["status"] == "unreadable":
                    chk.extra.setdefault("unreadable_outputs", {}).setdefault(lang, 0)
                    chk.extra["unreadable_outputs"][lang] += 1
                    continue
                if r["status"] == "error":
                    if all(e["msg"].startswith("generate:") for e in r["errors"]):
                        chk.extra["refused_by_backend"] = chk.extra.get("refused_by_backend", 0) + 1
                        continue
                    chk.refused(f"{lang}/{c['case']['kind']}", f"{lang}: C09 program rejected: {str(r['errors'])[:200]}", {"case": c["case"], "lang": lang, "site": "any"})
                    continue
                ss, defs = sites(lang, r["obs"], c["case"], prefix)
                for site, ref, tk in ss:
                    if ref is None:
                        continue
                    ev = {"lang": lang, "site": site, "ref": ref, "defs": defs, "prefix": prefix, "param": "P",
                          "target": c["target"] if not site.startswith("second") else c["second"]}
                    if tk == "host":
                        ev["target"] = {"ident": "RHost", "rename": ""}
                    if tk and tk.startswith("T-in-"):
                        ev["param"] = "T"
                    if tk and tk.startswith("shadow:"):
                        ev["param"] = tk[7:]
                    events.append(ev)
                    meta.append((lang, c["case"], "param_named_like_a_type" if tk and tk.startswith("shadow:") else
                                 site if not (tk and tk.startswith("T-in-")) else "param_in_variant_" + tk[5:], srcs[i]))
    return events, meta


IMPORTED_SHAPES = {"plain": "{t}", "vec": "Vec<{t}>", "option": "Option<{t}>", "map_key": "HashMap<{t}, String>", "map_val": "HashMap<String, {t}>",
                   "gen_first": "Pair<{t}, String>", "gen_last": "Pair<String, {t}>", "gen_nested_first": "Vec<Pair<Option<{t}>, Vec<u32>>>",
                   "map_key_nested": "Vec<HashMap<{t}, Vec<u32>>>",
                   # the container itself is written with a crate-qualified path
                   "qualified_generic": "provider::Wrap<{t}>", "qualified_generic_nested": "Option<provider::Wrap<Vec<{t}>>>"}


def imported(chk):
    """MC_C09_imported: the target lives in a provider crate, the consumer crate names it once, in one shape of type expression
    (folder output through the library, both crates generated in one run)."""
    res = common.run_tlc("MC_C09_imported", cfg="MC_C09_imported", workers=2, timeout=300)
    chk.add_tlc("MC_C09_imported", res)
    if not res.replays:
        raise ToolError("MC_C09_imported produced no cases")
    jobs, jmeta = [], []
    for c in res.replays:
        case = c["case"]
        ren = '#[serde(rename = "TargetRenamed")]\n' if case["renamed"] else ""
        prov = f"#[typeshare]\n{ren}pub struct Target {{ pub t: u32 }}\n#[typeshare]\npub struct Other {{ pub o: u32 }}\n#[typeshare]\npub struct Wrap<T> {{ pub w: T }}\n"
        use = {"use_single": "use provider::Target;\n", "use_group": "use provider::{Other, Target};\n", "qualified": ""}[case["form"]]
        t = "provider::Target" if case["form"] == "qualified" else "Target"
        cons = (use + f"#[typeshare]\npub struct Consumer {{ pub only_ref: {IMPORTED_SHAPES[case['shape']].format(t=t)}, pub keep: u32 }}\n"
                "#[typeshare]\npub struct Pair<A, B> { pub a: A, pub b: B }\n")
        for lang in (["swift", "kotlin"] if case["prefix"] else common.LANGS):
            cfg = dict(observe.DEFAULT_CFG[lang], **({"prefix": case["prefix"]} if case["prefix"] else {}))
            jobs.append({"id": len(jobs), "lang": lang, "multi_file": True, "cfg": cfg,
                         "files": [{"src": cons, "crate": "consumer", "path": "consumer/src/lib.rs", "out": "consumer"},
                                   {"src": prov, "crate": "provider", "path": "provider/src/lib.rs", "out": "provider"}]})
            jmeta.append((lang, c, cons))
    events, meta = [], []
    for (lang, c, cons), r in zip(jmeta, common.run_driver("gen", jobs)):
        case = c["case"]
        if r["status"] in ("panic", "abort", "hang"):
            continue
        if r["status"] != "ok":
            chk.refused(f"{lang}/imported", f"{lang}: two-crate program rejected: {str(r.get('errors'))[:200]}", {"case": case, "lang": lang, "site": "imported", "src": cons})
            continue
        try:
            oc, op = observe.extract(lang, r["outputs"].get("consumer", "")), observe.extract(lang, r["outputs"].get("provider", ""))
        except Exception:  # noqa
            chk.extra.setdefault("unreadable_outputs", {}).setdefault(lang, 0)
            chk.extra["unreadable_outputs"][lang] += 1
            continue
        host = observe.find_def(oc, case["prefix"] + "Consumer", "Consumer")
        m = [x for x in (host or {}).get("members", []) if x["key"] == "only_ref"]
        ref = target_leaf(m[0]["ty"], {case["prefix"] + "Pair", "Pair", "String", case["prefix"] + "Wrap", "Wrap"}) if m else None
        if ref is None:
            continue
        events.append({"lang": lang, "site": "imported:" + case["shape"], "ref": ref, "defs": [d["name"] for d in oc["defs"]] + [d["name"] for d in op["defs"]],
                       "prefix": case["prefix"], "param": "P", "target": c["target"]})
        meta.append((lang, case, cons))
    ok, matched, tres = common.trace_validate("Trace_C09", events, timeout=600)
    chk.add_tlc("Trace_C09[imported]", tres)
    if matched != len(events):
        raise ToolError(f"Trace_C09 consumed {matched}/{len(events)}")
    for b in tres.bad:
        e = events[b - 1]
        lang, case, cons = meta[b - 1]
        exp = e["prefix"] + (e["target"]["rename"] or e["target"]["ident"])
        chk.mismatch(f"{chk.pid}/{lang}+folder/imported/{case['form']}/only-reference={case['shape']}/{'renamed' if case['renamed'] else 'plain'}/{'prefix' if e['prefix'] else 'noprefix'}/"
                     f"def={'present' if exp in e['defs'] else 'absent'}",
                     f"{lang}: the consumer crate's only reference to provider::Target ({case['shape']}) is spelled `{e['ref']}`, definition name required `{exp}`; "
                     f"definitions of the run: {e['defs']}", {"case": case, "lang": lang, "site": "imported", "src": cons}, exp, e["ref"])
    chk.traces += len(events) - len(tres.bad)
    chk.extra["imported_events"] = len(events)
    for e, m in zip(events, meta):
        chk.judged((m[0], "imported", str(m[1])))


def run(chk):
    chk.rule = ("spec->impl: target kind (struct, generic struct, unit enum, tagged enum, alias, recursive struct, recursive enum) x renamed? x second type renamed? "
                "x prefix (MC_C09); every program generated in 6 languages; impl->spec: each reference site (field, Vec/Option/map value/map key/array element, generic "
                "argument, nested chain, alias target, payload, struct-variant field, self reference, variant parent, helper struct use, generic parameter) is an "
                "event judged by Trace_C09. distinct = (language, case, site).")
    chk.assumptions = ["the name written at a reference site is read from the extractors' type trees (the user node that is not one of the fixed host names)",
                       "definition names = names of all definitions found in the same file"]
    res = common.run_tlc("MC_C09", cfg="MC_C09_thorough" if chk.tier == "thorough" else "MC_C09_quick", workers=2, timeout=300)
    chk.add_tlc("MC_C09", res)
    chk.exhaustive = True
    cases = res.replays
    if not cases:
        raise ToolError("no cases")
    chk.sample({"case": cases[len(cases) // 2]["case"], "required_name": cases[len(cases) // 2]["defname"], "source": source(cases[len(cases) // 2]["case"])})
    events, meta = run_cases(chk, cases)
    ok, matched, tres = common.trace_validate("Trace_C09", events, timeout=900)
    chk.add_tlc("Trace_C09", tres)
    if matched != len(events):
        raise ToolError(f"Trace_C09 consumed {matched}/{len(events)}")
    def sib_key(lang, case, site):
        return (lang, site, tuple(sorted((k, str(v)) for k, v in case.items() if k != "ident")))
    bad_plain = {sib_key(*meta[b - 1][:3]) for b in tres.bad if meta[b - 1][1].get("ident", "Target") == "Target"}
    # a type shared through serialized_as is generated as an alias: where the plain alias of the same case fails at the same site,
    # the failure is the alias's (one root cause, one signature)
    bad_alias = {sib_key(meta[b - 1][0], dict(meta[b - 1][1], kind="-"), meta[b - 1][2]) for b in tres.bad if meta[b - 1][1]["kind"] == "alias"}
    for b in tres.bad:
        e = events[b - 1]
        lang, case, site, src = meta[b - 1]
        # the identifier is named in the signature only when it is necessary: the same case with the plain identifier conforms
        ident_dim = "" if case.get("ident", "Target") == "Target" or sib_key(lang, case, site) in bad_plain else "/ident=" + case["ident"]
        exp = e["prefix"] + (e["target"]["rename"] or e["target"]["ident"])
        defined = exp in e["defs"]
        form = ("original" if e["ref"] == e["target"]["ident"] else "renamed-unprefixed" if e["ref"] == e["target"]["rename"] else
                "prefixed-original" if e["ref"] == e["prefix"] + e["target"]["ident"] else "expected-name" if e["ref"] == exp else "other")
        # when the DEFINITION is what is off (absent under the required name) every site shows it: one signature per item kind
        site_dim = site if defined else "anysite"
        if case.get("elsewhere") == "module_twin" and e["ref"] == e["prefix"] + "TwinOfTarget":
            # one root cause (references are resolved by bare identifier, whatever module they are written in): one signature per language
            chk.mismatch(f"C09/{lang}/module-twin/ref=name-of-the-twin-in-the-nested-module",
                         f"{lang}: {site} reference to the outer `Target` is spelled `{e['ref']}`, the name of v2::Target; required `{exp}`",
                         {"case": case, "lang": lang, "site": site}, exp, e["ref"])
            continue
        where = lang + ("+folder" if case.get("mode") == "folder" else "") + (":" + case["elsewhere"].replace("_later_crate", "") if case.get("elsewhere", "none") != "none" else "")
        if lang == "go" and form == "renamed-unprefixed" and not defined:
            where = "go"          # the listed Go findings (definition under the original name): one root cause, whatever the mode or the other crates
        kind_dim = case["kind"]
        if kind_dim in ("sas_struct", "sas_enum") and sib_key(lang, dict(case, kind="-"), site) in bad_alias:
            kind_dim = "alias"
        if kind_dim == "jvm_inline" and not lang.startswith("kotlin"):
            kind_dim = "newtype_struct"          # outside Kotlin the argument kotlin = "JvmInline" is inert: the item IS a newtype struct (one root cause)
        chk.mismatch(f"C09/{where}{ident_dim}/{kind_dim if not site.startswith('second') else 'struct'}/{site_dim}/{'renamed' if e['target'].get('rename') else 'plain'}/"
                     f"{'prefix' if e['prefix'] else 'noprefix'}/ref={form}/def={'present' if defined else 'absent'}",
                     f"{lang}: {site} reference to {e['target']} is spelled `{e['ref']}`, definition name required `{exp}`; definitions: {e['defs']}",
                     {"case": case, "lang": lang, "site": site}, exp, e["ref"])
    chk.traces += len(events) - len(tres.bad)
    chk.extra["trace_events"] = len(events)
    for e, m in zip(events, meta):
        chk.judged((m[0], str(m[1]), m[2]))
    imported(chk)
    # MC_C05_names (shared with C05): a name that a naming option of the run re-spells where it is DECLARED (Go uppercase_acronyms,
    # prefix, serde rename), referenced from 9 positions of a type expression - every reference uses the declared name
    from .c05 import user_names
    user_names(chk)


def replay(chk, rec):
    c = rec["case"]
    if "src" in c and "case" in c and isinstance(c.get("case"), dict) and "naming" in c["case"]:
        from .c05 import user_names
        user_names(chk)
        chk.mismatches = {k: v for k, v in chk.mismatches.items() if k == rec["signature"]}
        return
    if c.get("site") == "imported":
        imported(chk)
        chk.mismatches = {k: v for k, v in chk.mismatches.items() if k == rec["signature"]}
        return
    ident = c["case"].get("ident", "Target")
    cases = [{"case": c["case"], "target": {"ident": ident, "rename": ident + "Renamed" if c["case"]["renamed"] else ""},
              "second": {"ident": "Second", "rename": "SecondRenamed" if c["case"]["second_renamed"] else ""}}]
    events, meta = run_cases(chk, cases)
    keep = [(e, m) for e, m in zip(events, meta) if m[0] == c["lang"] and m[2] == c["site"]]
    if keep:
        ok, matched, tres = common.trace_validate("Trace_C09", [k[0] for k in keep])
        for b in tres.bad:
            chk.mismatch(rec["signature"], rec["what"], c, rec["expected"], keep[b - 1][0]["ref"])
