"""C19: #[typeshare] is transparent to the Rust compiler and to serde.

P = spec/Annotation.tla (Strip, Transparent)
spec->impl: MC_C19 enumerates item kind (named / tuple / unit struct, enum with unit, tuple and struct variants, union,
            generic struct with lifetime and where clause, alias, const) x arguments of the outer #[typeshare] x every subset
            of positions (field, variant, tuple-variant field, struct-variant field, union field) carrying a typeshare(...)
            helper x helper kind x surrounding doc / cfg / serde attributes, and computes the stripped twin Strip(item).
            The harness renders both, compiles them in one crate against the real `typeshare` macro and serde (rustc and
            serde are the executors), and compares serde_json of a default value and size_of.
impl->spec: each (annotated, twin) pair is an event judged by Trace_C19; a batch that does not compile is bisected so
            that every item gets its own verdict.
"""
import json
import os
import shutil
import subprocess

from .. import common
from ..common import ToolError

NEEDS = []


def attrs_text(attrs, indent=""):
    return "".join(f"{indent}{a['text']}\n" for a in attrs)


def render(item, name):
    """abstract item (as printed by TLC: annotated or stripped) -> Rust text defining `name`"""
    k = item["kind"]
    outer = attrs_text(item["attrs"])
    ms = item["members"]
    derive = "#[derive(serde::Serialize, Default, attrdump::AttrDump)]\n"
    if k == "named_struct_via_macro":
        inner = render(dict(item, kind="named_struct"), name)
        return ("macro_rules! model {\n    ($(#[$outer:meta])* pub struct $name:ident { $($(#[$fattr:meta])* pub $f:ident : $t:ty),* $(,)? }) => {\n"
                "        $(#[$outer])* pub struct $name { $($(#[$fattr])* pub $f : $t),* }\n    };\n}\nmodel! {\n" + inner + "}\n")
    if k == "named_struct":
        body = "".join(attrs_text(m["attrs"], "    ") + f"    pub {m['name']}: u32,\n" for m in ms)
        return f"{outer}{derive}pub struct {name} {{\n{body}}}\n"
    if k == "tuple_struct":
        return f"{outer}{derive}pub struct {name}(\n{attrs_text(ms[0]['attrs'], '    ')}    pub u32,\n);\n"
    if k == "unit_struct":
        return f"{outer}{derive}pub struct {name};\n"
    if k == "enum":
        body = ""
        for m in ms:
            body += attrs_text(m["attrs"], "    ")
            if m["name"] == "Unit":
                body += "    #[default]\n    Unit = 0,\n" if False else "    #[default]\n    Unit,\n"
            elif m["name"] == "Tuple":
                body += f"    Tuple(\n{attrs_text(m['fields'][0]['attrs'], '        ')}        u32,\n    ),\n"
            else:
                body += f"    Named {{\n{attrs_text(m['fields'][0]['attrs'], '        ')}        inner: u32,\n    }},\n"
        return f"{outer}{derive}pub enum {name} {{\n{body}}}\n"
    if k == "union":
        body = "".join(attrs_text(m["attrs"], "    ") + f"    pub {m['name']}: {'u32' if m['name'] == 'a' else 'f32'},\n" for m in ms)
        return f"{outer}#[derive(Clone, Copy, attrdump::AttrDump)]\npub union {name} {{\n{body}}}\n"
    if k == "generic_struct":
        body = (attrs_text(ms[0]["attrs"], "    ") + "    pub first: T,\n" + attrs_text(ms[1]["attrs"], "    ") +
                "    #[serde(skip)]\n    pub second: std::marker::PhantomData<&'a T>,\n")
        return f"{outer}{derive}pub struct {name}<'a, T: Default + Clone>\nwhere\n    T: serde::Serialize,\n{{\n{body}}}\n"
    if k in LEN_EXPR:
        # serde_derive is built on the derive-only syn and refuses these expressions by itself: builtin derives only, no serde mix
        ser = lambda attrs: [a for a in attrs if not a["text"].startswith("#[serde") and "serde(" not in a["text"]]
        return (f"{outer}#[derive(Clone, Copy, attrdump::AttrDump)]\npub struct {name} {{\n{attrs_text(ser(ms[0]['attrs']), '    ')}    pub bytes: [u8; {LEN_EXPR[k]}],\n"
                f"{attrs_text(ser(ms[1]['attrs']), '    ')}    pub tag: u32,\n}}\n")
    if k == "alias_union_path":
        return f"mod union {{ pub type Set<T> = Vec<T>; }}\n{outer}pub type {name} = union::Set<u32>;\n"
    if k == "const_union_path":
        return f"mod union {{ pub const FIVE: u32 = 5; }}\n{outer}pub const {name.upper()}: u32 = union::FIVE;\n"
    if k == "alias":
        return f"{outer}pub type {name} = Vec<u32>;\n"
    if k == "const":
        return f"{outer}pub const {name.upper()}: u32 = 5;\n"
    raise ValueError(k)


LEN_EXPR = {"struct_len_if": 'if cfg!(target_pointer_width = "64") { 8 } else { 4 }', "struct_len_block": "{ let n = 2; n * 2 }", "struct_len_index": "[4usize, 8][1]"}


def probe(kind, name):
    """(serde_json of a default value, size_of, the attributes a derive placed after #[typeshare] was handed)"""
    if kind == "union" or kind in LEN_EXPR:
        return f'(String::new(), std::mem::size_of::<{name}>(), ATTR_DUMP)'
    if kind == "generic_struct":
        return f'(serde_json::to_string(&{name}::<\'static, u32>::default()).unwrap(), std::mem::size_of::<{name}<\'static, u32>>(), ATTR_DUMP)'
    if kind in ("const", "const_union_path"):
        return f'({name.upper()}.to_string(), 0usize, "")'
    if kind in ("alias", "alias_union_path"):
        return f'(serde_json::to_string(&{name}::default()).unwrap(), std::mem::size_of::<{name}>(), "")'
    return f'(serde_json::to_string(&{name}::default()).unwrap(), std::mem::size_of::<{name}>(), ATTR_DUMP)'


def module(i, case, which):
    item = case["item"] if which == "a" else case["twin"]
    return (f"pub mod {which}{i} {{\n    #![allow(dead_code, unused_imports)]\n    use typeshare::typeshare;\n" +
            "".join("    " + l + "\n" for l in render(item, "Item").splitlines()) +
            f"    pub fn probe() -> (String, usize, &'static str) {{ {probe(case['item']['kind'], 'Item')} }}\n}}\n")


ATTRDUMP_RS = r"""
extern crate proc_macro;
use proc_macro::{Delimiter, TokenStream, TokenTree};

fn walk(ts: TokenStream, out: &mut Vec<String>) {
    let mut it = ts.into_iter().peekable();
    while let Some(t) = it.next() {
        match t {
            TokenTree::Punct(p) if p.as_char() == '#' => {
                if let Some(TokenTree::Group(g)) = it.peek() {
                    if g.delimiter() == Delimiter::Bracket {
                        out.push(g.stream().to_string());
                        it.next();
                    }
                }
            }
            TokenTree::Group(g) => walk(g.stream(), out),
            _ => {}
        }
    }
}

/// every attribute of the item, of its fields and of its variants, in source order
#[proc_macro_derive(AttrDump)]
pub fn attr_dump(input: TokenStream) -> TokenStream {
    let mut v = Vec::new();
    walk(input, &mut v);
    format!("pub const ATTR_DUMP: &str = {:?};", v.join(" ;; ")).parse().unwrap()
}
"""


def crate_dir():
    d = os.path.join(common.ROOT, "work", f"c19crate.{os.getpid()}")
    os.makedirs(os.path.join(d, "src"), exist_ok=True)
    open(os.path.join(d, "Cargo.toml"), "w").write(
        '[package]\nname = "c19probe"\nversion = "0.0.0"\nedition = "2021"\n\n[workspace]\n\n[dependencies]\n'
        f'typeshare = {{ path = "{common.REPO}/lib" }}\nserde = {{ version = "1", features = ["derive"] }}\nserde_json = "1"\nattrdump = {{ path = "attrdump" }}\n\n[profile.dev]\nopt-level = 0\ndebug = false\n')
    shutil.copy(os.path.join(common.REPO, "Cargo.lock"), os.path.join(d, "Cargo.lock"))
    # the observer of "same other attributes": a derive macro (std only) that records every attribute it is handed, in order
    os.makedirs(os.path.join(d, "attrdump", "src"), exist_ok=True)
    open(os.path.join(d, "attrdump", "Cargo.toml"), "w").write('[package]\nname = "attrdump"\nversion = "0.0.0"\nedition = "2021"\n\n[lib]\nproc-macro = true\n')
    open(os.path.join(d, "attrdump", "src", "lib.rs"), "w").write(ATTRDUMP_RS)
    common._SCRATCH.append(d)
    return d


def build_and_run(d, cases, which_sets):
    """compile the given (index, which) modules together; -> ({(i, which): (json, size)} or None, stderr)"""
    src = "#![allow(non_upper_case_globals)]\n"
    calls = []
    for i, which in which_sets:
        src += module(i, cases[i], which)
        calls.append(f'    let (j, s, a) = {which}{i}::probe(); println!("{{}}\\t{which}\\t{{}}\\t{{:?}}\\t{{}}", {i}, s, a, j);')
    src += "fn main() {\n" + "\n".join(calls) + "\n}\n"
    open(os.path.join(d, "src", "main.rs"), "w").write(src)
    env = dict(os.environ)
    env["CARGO_NET_OFFLINE"] = "true"
    env["CARGO_TARGET_DIR"] = os.path.join(common.TARGET, "c19")
    env.pop("RUSTFLAGS", None)
    r = subprocess.run(["cargo", "run", "--offline", "-q"], cwd=d, capture_output=True, text=True, env=env)
    if r.returncode != 0:
        return None, r.stderr
    out = {}
    for line in r.stdout.splitlines():
        i, which, size, attrs, js = line.split("\t", 4)
        out[(int(i), which)] = (js, int(size), attrs)
    return out, ""


def verdicts(d, cases, idxs, which, stats):
    """which of the given modules compile (bisection); -> {i: (json,size) or None}"""
    res, err = build_and_run(d, cases, [(i, which) for i in idxs])
    stats["compiles"] += 1
    if res is not None:
        return {i: res[(i, which)] for i in idxs}
    if len(idxs) == 1:
        stats.setdefault("errors", []).append(err[-400:])
        return {idxs[0]: None}
    mid = len(idxs) // 2
    out = verdicts(d, cases, idxs[:mid], which, stats)
    out.update(verdicts(d, cases, idxs[mid:], which, stats))
    if all(v is not None for v in out.values()) and not any(set(t[1]) <= set(idxs) for t in stats.get("together", []) if t[0] == which):
        # every item of the batch compiles alone (or in smaller batches), the batch does not: the items disturb each other
        stats.setdefault("together", []).append((which, list(idxs), err[-300:]))
    return out


def run(chk):
    thorough = chk.tier == "thorough"
    chk.rule = ("spec->impl: item kind x outer #[typeshare] arguments x subset of positions carrying a typeshare(..) helper x helper kind x attribute mix (MC_C19); "
                "annotated item and its stripped twin (computed by Annotation!Strip) compiled together against the real macro; impl->spec: (compiles, serde_json of "
                "a default value, size_of) of both judged by Trace_C19. distinct = case.")
    chk.assumptions = ["rustc decides 'compiles'; serde_json of Default::default() and size_of stand for 'behaves identically'",
                       "the twin is rendered from TLC's Strip(item); only typeshare attributes differ between the two texts"]
    res = common.run_tlc("MC_C19", cfg="MC_C19_thorough" if thorough else "MC_C19_quick", workers=4, timeout=600)
    chk.add_tlc("MC_C19", res)
    chk.exhaustive = True
    cases = res.replays
    if not cases:
        raise ToolError("no cases")
    mid = cases[len(cases) // 2]
    chk.sample({"case": mid["case"], "positions_with_helper": mid["at"], "annotated": render(mid["item"], "Item"), "twin": render(mid["twin"], "Item")})
    d = crate_dir()
    stats = {"compiles": 0}
    idxs = list(range(len(cases)))
    events = []
    for part in common.chunks(idxs, 400):
        tw = verdicts(d, cases, part, "b", stats)
        an = verdicts(d, cases, part, "a", stats)
        for i in part:
            a, b = an[i], tw[i]
            events.append({"case": i, "annotated_compiles": a is not None, "twin_compiles": b is not None,
                           "same_json": a is not None and b is not None and a[0] == b[0], "same_size": a is not None and b is not None and a[1] == b[1],
                           "same_attrs": a is not None and b is not None and a[2] == b[2], "attrs": [a[2] if a else "<did not compile>", b[2] if b else "<did not compile>"]})
    # "compiles exactly when the un-annotated program does" also holds for SEVERAL annotated items in one crate
    for which, batch, err in stats.get("together", []):
        if which == "a" and not any(w == "b" and set(batch) <= set(bb) for w, bb, _ in stats.get("together", [])):
            chk.mismatch("C19/several-items-in-one-crate/compiles-only-twin", f"{len(batch)} annotated items compile one by one but not together in one crate, their stripped twins do: {err[-200:]}",
                         {"case": {"together": batch[:8]}, "at": [], "annotated": "\n".join(render(cases[i]["item"], "Item") for i in batch[:2])}, "Annotation!Transparent", "does not compile together")
    chk.extra["rustc_invocations"] = stats["compiles"]
    chk.extra["compile_errors_sample"] = stats.get("errors", [])[:3]
    dead = [e["case"] for e in events if not e["twin_compiles"] and not e["annotated_compiles"]]
    if dead:
        # neither text compiles: the rendering of the harness is at fault, the comparison would be vacuous
        raise ToolError(f"{len(dead)} C19 items compile neither annotated nor stripped (first: {cases[dead[0]]['case']}): " + "\n".join(stats.get("errors", [])[:1]))
    if all(not e["twin_compiles"] for e in events):
        raise ToolError("no twin compiled: harness/crate problem\n" + "\n".join(stats.get("errors", [])[:2]))
    ok, matched, tres = common.trace_validate("Trace_C19", events, timeout=300)
    chk.add_tlc("Trace_C19", tres)
    if matched != len(events):
        raise ToolError(f"Trace_C19 consumed {matched}/{len(events)}")
    for b in tres.bad:
        e = events[b - 1]
        c = cases[e["case"]]
        at = sorted(c["at"])
        posnames = {"named_struct": {1: "field", 2: "field", 3: "field"}, "tuple_struct": {1: "tuple-field"}, "enum": {1: "variant", 2: "variant", 3: "tuple-variant-field", 4: "struct-variant-field"},
                    "union": {1: "union-field", 2: "union-field"}, "generic_struct": {1: "field", 2: "field"},
                    "named_struct_via_macro": {1: "field", 2: "field", 3: "field"}, "struct_len_if": {1: "field", 2: "field"}, "struct_len_block": {1: "field", 2: "field"}, "struct_len_index": {1: "field", 2: "field"}}.get(c["item"]["kind"], {})
        where = "+".join(sorted({posnames.get(p, "?") for p in at})) or "item-only"
        if c["item"]["kind"] == "enum" and 2 in at and 3 in at:
            where += "(same-variant)"
        kind = ("compiles-only-twin" if e["twin_compiles"] and not e["annotated_compiles"] else "compiles-only-annotated" if e["annotated_compiles"] and not e["twin_compiles"]
                else "json-differs" if not e["same_json"] else "size-differs" if not e["same_size"] else "surviving-attributes-differ")
        chk.mismatch(f"C19/{c['item']['kind']}/{where}/{c['case']['helper']}/{kind}",
                     f"{c['item']['kind']} with helper {c['case']['helper']} at {where}: {kind}", {"case": c["case"], "at": at, "annotated": render(c["item"], "Item")},
                     "Annotation!Transparent", e)
    chk.traces += len(events) - len(tres.bad)
    for e in events:
        chk.judged(e["case"])


def replay(chk, rec):
    run(chk)
    chk.mismatches = {k: v for k, v in chk.mismatches.items() if k == rec["signature"]}
