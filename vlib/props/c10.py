"""C10: generated files are syntactically well-formed in their target language.

P = spec/GrammarBase.tla (Balanced + combinators) and spec/Grammar_{ts,kt,swift,scala,go}.tla: executable grammars
    (recursive-descent recognisers, evaluated by TLC) of the declaration subset each backend emits. A reserved word
    that is not back-ticked is not an identifier. For Python the property names CPython as the judge: the event
    carries the verdicts of compile() and of importing the file under the stub pydantic.
spec->impl: MC_C10 enumerates the choice points of the printers - item kind x number of members (0..3) x naming of the
            members (plain, Swift / Python keywords, dashed keys, rename_all, leading digit, quote) x type feature x
            decoration x doc comments x configuration (prefix, packages, Swift defaults, header) - with, per case, the
            languages for which the property promises a well-formed file. Each case is rendered to Rust and generated
            with the real library.
impl->spec: every generated file becomes one event (lexer verdict + token classes) judged by Trace_C10. The
            repository's own snapshot expectation files are judged too (the property: "an expectation file can
            itself be ill-formed").
"""
import glob
import json
import os
import subprocess

from .. import common, tokclass
from ..common import ToolError
from ..extract import base

NEEDS = ["driver", "cli"]
FIELDS = {
    "plain": ["alpha", "beta_gamma", "delta"], "kw_swift": ["default", "case", "protocol"], "kw_py": ["from", "def", "pass"],
    "kw_both": ["class", "import", "is"], "kw_type": ["alpha", "beta_gamma", "delta"], "dashed": ["alpha", "beta_gamma", "delta"],
    "rename_all_kebab": ["alpha_one", "beta_two", "delta"], "rename_all_upper": ["alpha_one", "beta_two", "delta"],
    "digit": ["alpha", "beta_gamma", "delta"], "quote": ["alpha", "beta_gamma", "delta"], "single_letter": ["a", "b", "c"],
    "kw_dashed": ["default", "beta_gamma", "protocol"], "kebab_kw": ["default", "alpha_one", "case"],
    "unicode": ["alpha", "beta_gamma", "delta"],
    # not keywords as written, but keywords once a backend normalises them (snake_case drops edge underscores, lower-cases)
    "kw_py_edge": ["from_", "in_", "_return"],
    "underscore_digit": ["alpha", "beta_gamma", "delta"],
}
VARIANTS = {
    "plain": ["Alpha", "BetaGamma", "Delta"], "kw_swift": ["default", "case", "protocol"], "kw_py": ["from", "def", "pass"],
    "kw_both": ["class", "import", "is"], "kw_type": ["Alpha", "BetaGamma", "Delta"], "dashed": ["Alpha", "BetaGamma", "Delta"],
    "rename_all_kebab": ["AlphaOne", "BetaTwo", "Delta"], "rename_all_upper": ["AlphaOne", "BetaTwo", "Delta"],
    "digit": ["Alpha", "BetaGamma", "Delta"], "quote": ["Alpha", "BetaGamma", "Delta"], "single_letter": ["A", "B", "C"],
    "kw_dashed": ["default", "BetaGamma", "protocol"], "kebab_kw": ["default", "AlphaOne", "case"],
    "unicode": ["Alpha", "BetaGamma", "Delta"],
    "kw_py_edge": ["Alpha", "BetaGamma", "Delta"],
    # variant identifiers that start with an underscore followed by a digit: a case conversion that drops the underscore leaves a digit first
    "underscore_digit": ["_2FA", "_3dSecure", "_1Tap"],
}
RENAMES = {"dashed": ["alpha-one", "beta-two", "x-y-z"], "kw_dashed": [None, "beta-two", None], "digit": ["1st", "2nd", "3rd"], "quote": ['al"pha', "be'ta", 'de"l"ta'],
           # wire names with a combining mark, an emoji + variation selector, a zero-width joiner (printable text is not all there is)
           "unicode": ["nai\u0308ve", "love-\u2764\ufe0f", "x\u200dy\u00e9"]}
OVERRIDE = ('#[typeshare(swift(type = "Int"), typescript(type = "any | undefined"), kotlin(type = "Int"), go(type = "uint"), '
            'scala(type = "Short"), python(type = "int"))]')
DECO = {"none": "#[typeshare]", "swift_deco": '#[typeshare(swift = "Equatable")]', "swift_decos2": '#[typeshare(swift = "Equatable, Hashable", kotlin = "Serializable", swift = "Sendable")]',
        "kotlin_deco": '#[typeshare(kotlin = "JvmInline")]', "redacted": "#[typeshare(redacted)]",
        "constraints": '#[typeshare(swift = "Equatable", swiftGenericConstraints = "T: Equatable & Sendable, U: Hashable")]',
        "item_serialized_as": '#[typeshare(serialized_as = "String")]', "readonly": "#[typeshare]"}
CFG = {
    "default": {},
    "prefix": {"swift": {"prefix": "Pre"}, "kotlin": {"prefix": "Pre"}},
    "packages": {"kotlin": {"package": "com.example.app", "module_name": "mod"}, "scala": {"package": "com.example.app", "module_name": "types"},
                 "go": {"package": "main", "uppercase_acronyms": ["ID", "URL"], "no_pointer_slice": True}},
    "packages_single": {"kotlin": {"package": "app", "module_name": "mod"}, "scala": {"package": "app", "module_name": "types"}, "go": {"package": "app"}},
    "ts_special_mapped": {"typescript": {"type_mappings": {"OffsetDateTime": "Date", "Vec<u8>": "Uint8Array"}}, "python": {"type_mappings": {"Vec<u8>": "bytes"}}},
    "swift_defaults": {"swift": {"default_decorators": ["Sendable", "Identifiable"], "default_generic_constraints": ["Sendable"], "codablevoid_constraints": ["Equatable"]}},
    "header": {l: {"version_header": True} for l in common.LANGS},
    "folder": {},
    "folder_prefix": {"swift": {"prefix": "Pre"}, "kotlin": {"prefix": "Pre"}},
}
FOLDER_USE = "use other_crate::Imported;\nuse other_crate::sub::{Second, Third as Renamed3};\n"
FOLDER_USER = "#[typeshare]\npub struct UsesImported {\n    pub i: Imported,\n    pub many: Vec<Second>,\n    pub q: other_crate::Qualified,\n}\n"
FOLDER_OTHER = ("#[typeshare]\npub struct Imported { pub x: u32 }\n#[typeshare]\npub struct Second { pub y: u32 }\n"
                "#[typeshare]\npub struct Third { pub z: u32 }\n#[typeshare]\npub struct Qualified { pub q: u32 }\n")
HELPERS = ("#[typeshare]\npub struct Other {\n    pub o: u32,\n}\n#[typeshare]\npub struct Pair<A, B> {\n    pub a: A,\n    pub b: B,\n}\n")


def doc(c, indent, what):
    if c["doc"] == "none":
        return ""
    if c["doc"] == "all":
        return f"{indent}/// The {what}\n"
    if c["doc"] == "block":
        return f"{indent}/** The {what}: first line of a block comment\n{indent} * second line, with an adjacent word\n{indent} */\n"
    hostile = 'glob src/**/*.rs closes */ opens /* quotes """ and ends with a backslash \\'
    if c["doc"] == "hostile":
        return f"{indent}/// The {what}: {hostile}\n"
    if c["doc"] == "hostile_multi":
        return f"{indent}/// The {what}: first line\n{indent}/// {hostile}\n{indent}/// third line\n"
    return f"{indent}/// The {what}: first line\n{indent}///\n{indent}/// third line, with `code` and \"quotes\"\n"


def first_type(c):
    """-> (attribute lines, type text) of the featured member"""
    t = c["tyf"]
    name = subject_name(c)
    return {
        "prim": ([], "u32"), "option": ([], "Option<String>"), "vec_option": ([], "Vec<Option<u32>>"), "map": ([], "HashMap<String, Vec<u32>>"),
        "user": ([], "Other"), "generic": ([], "T"), "override_lang": ([OVERRIDE], "String"), "serialized_as": (['#[typeshare(serialized_as = "String")]'], "Other"),
        "unit": ([], "()"), "array": ([], "[u8; 4]"), "nested": ([], "Option<HashMap<String, Option<Vec<Other>>>>"),
        "boxed_self": ([], f"Option<Box<{name}>>"), "i64": ([], "I54"), "default_attr": (["#[serde(default)]"], "u32"),
        "datetime": ([], "OffsetDateTime"), "bytes": ([], "Vec<u8>"),
    }[t]


def subject_name(c):
    return "switch" if c["naming"] == "kw_type" else "Subject"


def member_type(c, i, generic):
    if i == 0:
        return first_type(c)
    if generic:
        return ([], "Vec<U>") if i == 1 else ([], "Option<T>")
    return ([], "String") if i == 1 else ([], "Option<bool>")


def rename_attr(c, i, variant=False):
    r = RENAMES.get(c["naming"])
    if not r or (c["naming"] in ("digit", "quote", "unicode") and not variant):      # promised for variants only
        return []
    if r[i] is None:
        return []
    return ['#[serde(rename = "%s")]' % r[i].replace('"', '\\"')]


def fields_src(c, count, indent, generic, pub=True, what="field", first=0):
    out = ""
    for j in range(count):
        attrs, ty = member_type(c, first + j, generic)
        if c["deco"] == "readonly" and j == 0:
            attrs = attrs + ["#[typeshare(typescript(readonly))]"]
        out += doc(c, indent, what)
        for a in rename_attr(c, j) + attrs:
            out += f"{indent}{a}\n"
        out += f"{indent}{'pub ' if pub else ''}{FIELDS[c['naming']][j]}: {ty},\n"
    return out


def source(c):
    k, n = c["kind"], c["n"]
    name = subject_name(c)
    generic = k in ("generic_struct", "tuple_struct_generic", "generic_alias", "generic_enum")
    g = "<T, U>" if generic else ""
    head = doc(c, "", "item") + DECO[c["deco"]] + "\n"
    ra = {"rename_all_kebab": '#[serde(rename_all = "kebab-case")]\n', "kebab_kw": '#[serde(rename_all = "kebab-case")]\n', "rename_all_upper": '#[serde(rename_all = "SCREAMING_SNAKE_CASE")]\n'}.get(c["naming"], "")
    if k in ("struct", "generic_struct"):
        body = fields_src(c, n, "    ", generic)
        src = f"{head}{ra}pub struct {name}{g} {{\n{body}}}\n"
    elif k == "unit_struct":
        src = f"{head}pub struct {name};\n"
    elif k == "newtype_struct":
        src = f"{head}pub struct {name}({first_type(c)[1]});\n"
    elif k == "tuple_struct_generic":
        inner = "Vec<T>" if c["tyf"] == "generic" else f"Pair<T, {first_type(c)[1]}>"
        src = f"{head}pub struct {name}<T>({inner});\n"
    elif k == "alias":
        src = f"{head}pub type {name} = {first_type(c)[1]};\n"
    elif k == "generic_alias":
        inner = "Vec<T>" if c["tyf"] == "generic" else f"Pair<T, {first_type(c)[1]}>"
        src = f"{head}pub type {name}<T> = {inner};\n"
    elif k == "const":
        src = f"{head}pub const {name.upper()}: u32 = 7;\n"
    elif k == "unit_enum":
        body = ""
        for i in range(n):
            body += doc(c, "    ", "variant") + "".join(f"    {a}\n" for a in rename_attr(c, i, True)) + f"    {VARIANTS[c['naming']][i]},\n"
        src = f"{head}{ra}pub enum {name} {{\n{body}}}\n"
    else:
        tag = {"enum_tag_dashed": ("my-type", "my-content"), "enum_tag_kw": ("class", "default")}.get(k, ("type", "content"))
        shapes = {"enum_newtype": ["newtype"] * 3, "enum_struct": ["struct"] * 3, "enum_mixed": ["newtype", "struct", "unit"], "generic_enum": ["newtype", "newtype", "struct"],
                  "enum_tag_dashed": ["newtype", "struct", "unit"], "enum_tag_kw": ["newtype", "struct", "unit"]}[k]
        body = ""
        for i in range(n):
            v = VARIANTS[c["naming"]][i]
            body += doc(c, "    ", "variant") + "".join(f"    {a}\n" for a in rename_attr(c, i, True))
            if shapes[i] == "unit":
                body += f"    {v},\n"
            elif shapes[i] == "newtype":
                attrs, ty = member_type(c, i, generic)
                if attrs and c["tyf"] == "serialized_as":
                    body += f"    {v}({attrs[0]} {ty}),\n"
                else:
                    body += f"    {v}({ty}),\n"
            else:
                # struct variant i carries i fields in enum_struct (0, 1, 2: the empty anonymous struct included), 2 otherwise
                cnt = i if k == "enum_struct" else 2
                sra = "    " + ra if ra else ""
                body += f"{sra}    {v} {{\n{fields_src(c, cnt, '        ', generic, pub=False, what='variant field')}    }},\n"
        src = f'{head}#[serde(tag = "{tag[0]}", content = "{tag[1]}"{", " + ra[8:-3] if ra else ""})]\npub enum {name}{g} {{\n{body}}}\n'
    return HELPERS + src


def event_for(lang, text):
    """generated text -> event for Trace_C10 (python: without the CPython verdicts, filled in by the caller)"""
    try:
        toks = tokclass.classes(lang, text) if lang != "python" else [t for k, t, _ in base.lex(text, "py") if k == "punct" and t in "()[]{}"]
        return {"lang": lang, "lex_ok": True, "tokens": toks, "strs": escaped_strings(lang, text)}
    except base.LexError as e:
        return {"lang": lang, "lex_ok": False, "tokens": [], "strs": [], "lex_error": str(e)}


def escaped_strings(lang, text):
    """bodies (as character lists, non-ASCII -> "x") of the non-raw string literals that contain a backslash: StringLit!AllOk"""
    if lang == "python":
        return []          # CPython is the judge of Python files
    out, seen = [], set()
    for k, t, _ in base.lex(text, tokclass.EXT[lang]):
        if k == "str" and "\\" in t and not t.startswith("`") and t not in seen:
            seen.add(t)
            out.append([ch if ord(ch) < 128 else "x" for ch in t[1:-1]])
    return out


def load_python(paths):
    res = {}
    for part in common.chunks(paths, 400):
        out = subprocess.run(["python3", "-m", "vlib.pyload"] + part, cwd=common.ROOT, capture_output=True, text=True)
        for line in out.stdout.splitlines():
            rec = json.loads(line)
            res[rec["file"]] = rec
    return res


def classify(ev, pyrec=None):
    if not ev["lex_ok"]:
        return "unclosed-string-or-comment"
    if ev["lang"] == "python":
        if not ev["cpython_parses"]:
            return "cpython-syntax-error"
        return "cpython-load-error" if not ev["cpython_loads"] else "?"
    if bad_escape(ev):
        return "string-escape"
    if base_balance(ev["tokens"]):
        return "unbalanced-delimiters"
    t = ev["tokens"]
    if ev["lang"] != "go" and any((a == "str" and b in ("str", "id", "num")) or (a in ("id", "num") and b == "str") for a, b in zip(t, t[1:])):
        return "juxtaposed-literals"
    return "declaration-grammar"


def bad_escape(ev):
    """naming only (the verdict is StringLit!AllOk in TLC): does some literal contain a backslash sequence of a foreign shape?"""
    import re
    pat = {"kotlin": r"\\(?:[tbnr'\"\\$]|u[0-9a-fA-F]{4})", "scala": r"\\(?:[btnfr\"'\\0-7]|u[0-9a-fA-F]{4})",
           "go": r"\\(?:[abfnrtv\\\"]|x[0-9a-fA-F]{2}|u[0-9a-fA-F]{4}|U[0-9a-fA-F]{8}|[0-7]{3})",
           "swift": r"\\(?:[0\\tnr\"'(]|u\{[0-9a-fA-F]{1,8}\})", "typescript": r"\\(?:x[0-9a-fA-F]{2}|u[0-9a-fA-F]{4}|u\{[0-9a-fA-F]{1,6}\}|[^xu])"}[ev["lang"]]
    return any("\\" in re.sub(pat, "", "".join(s)) for s in ev.get("strs", []))


def base_balance(tokens):
    stack, pairs = [], {")": "(", "]": "[", "}": "{"}
    for t in tokens:
        if t in ("(", "[", "{"):
            stack.append(t)
        elif t in pairs:
            if not stack or stack.pop() != pairs[t]:
                return True
    return bool(stack)


BASE = {"n": 2, "naming": "plain", "tyf": "prim", "deco": "none", "doc": "none", "cfg": "default"}
MEMBERLESS = ("unit_struct", "newtype_struct", "tuple_struct_generic", "alias", "generic_alias", "const")


def key_of(lang, c):
    return lang + "|" + json.dumps(c, sort_keys=True)


def judge(chk, pairs, work, tag):
    """[(lang, case)] -> {key: {"failed", "event", "text", "src"}} for the pairs typeshare accepted; refusals are counted"""
    from ..observe import DEFAULT_CFG
    jobs = []
    for lang, c in pairs:
        cfg = dict(DEFAULT_CFG[lang])
        cfg.update(CFG[c["cfg"]].get(lang, {}))
        if c["cfg"].startswith("folder"):
            jobs.append({"id": len(jobs), "lang": lang, "multi_file": True, "cfg": cfg,
                         "files": [{"src": FOLDER_USE + source(c) + FOLDER_USER, "crate": "cratex", "path": "cratex/src/lib.rs", "out": "cratex"},
                                   {"src": FOLDER_OTHER, "crate": "other_crate", "path": "other_crate/src/lib.rs", "out": "other_crate"}]})
        else:
            jobs.append({"id": len(jobs), "lang": lang, "files": [{"src": source(c)}], "cfg": cfg})
    results = []
    for part in common.chunks(jobs, 20000):
        results += common.run_driver("gen", part)
    out, events, keys, pyfiles = {}, [], [], []
    refused = chk.extra.setdefault("inputs_refused_by_typeshare", {})
    for (lang, c), job, r in zip(pairs, jobs, results):
        if r["status"] in ("panic", "abort", "hang"):
            continue          # C07
        if r["status"] != "ok":
            msg = str(r.get("errors"))[:160]
            refused[msg] = refused.get(msg, 0) + 1
            continue
        text = r["outputs"].get("cratex" if c["cfg"].startswith("folder") else "", "")
        ev = event_for(lang, text)
        if lang == "python" and c["cfg"].startswith("folder"):
            ev["folder"] = True
        if lang == "python":
            p = os.path.join(work, f"{tag}{len(events)}.py")
            open(p, "w").write(text)
            pyfiles.append((p, len(events)))
        events.append(ev)
        keys.append(key_of(lang, c))
        out[keys[-1]] = {"failed": False, "event": ev, "text": text, "src": job["files"][0]["src"], "lang": lang, "case": c}
    fill_python(chk, events, pyfiles)
    for i in validate(chk, events):
        out[keys[i]]["failed"] = True
    return out


def fill_python(chk, events, pyfiles):
    pyres = load_python([p for p, _ in pyfiles])
    for p, idx in pyfiles:
        rec = pyres.get(p)
        if not rec:
            raise ToolError(f"pyload gave no verdict for {p}")
        events[idx]["cpython_parses"] = rec["status"] != "syntax"
        loads = rec["status"] == "ok"
        if rec["status"] in ("import", "hints") and "is not defined" in (rec.get("error") or ""):
            loads = True          # undefined name: C11 (order) / C12 (helpers)
            chk.extra["python_name_errors_left_to_C11_C12"] = chk.extra.get("python_name_errors_left_to_C11_C12", 0) + 1
        events[idx]["cpython_loads"] = loads
        events[idx]["cpython_error"] = rec.get("error") or ""


def validate(chk, events):
    """-> indices (0-based) of the events Trace_C10 rejects"""
    import concurrent.futures as cf
    bad = set()
    parts = list(common.chunks(list(range(len(events))), 3000))
    with cf.ThreadPoolExecutor(max_workers=4) as ex:
        results = list(ex.map(lambda part: common.trace_validate("Trace_C10", [events[i] for i in part], timeout=1800, heap="4g"), parts))
    for part, (ok, matched, tres) in zip(parts, results):
        chk.add_tlc("Trace_C10", tres)
        if matched != len(part):
            raise ToolError(f"Trace_C10 consumed {matched}/{len(part)}")
        bad |= {part[b - 1] for b in tres.bad}
        chk.traces += len(part) - len(tres.bad)
    return bad


def siblings(c):
    """the case with one non-base dimension reset, per dimension; and the all-base case of the same kind"""
    dims = [d for d in BASE if c[d] != BASE[d] and not (d == "n" and c["kind"] in MEMBERLESS)]
    sib = {d: dict(c, **{d: BASE[d]}) for d in dims}
    base = dict(c, **{d: BASE[d] for d in dims})
    return dims, sib, base


def run(chk):
    thorough = chk.tier == "thorough"
    chk.rule = ("spec->impl: item kind x member count 0..3 x naming (plain, keywords, dashed, rename_all, digit, quote) x type feature x decoration x docs x configuration "
                "(MC_C10, with the languages in scope per case); impl->spec: every generated file (+ every snapshot expectation file of the repository) is one event "
                "(lexer verdict, token classes) judged by Trace_C10 = Balanced /\\ Grammar_<lang>!Accepts; Python by CPython compile + import under stub pydantic. "
                "distinct = (language, case).")
    chk.assumptions = ["token classes come from the harness lexers (vlib/tokclass.py); a reserved word without back-ticks is class kw:<word> and is not an identifier for the grammars",
                       "function and initialiser bodies are checked for balance only; declarations (everything that names a type, member, case or parameter) are parsed",
                       "a Python NameError at import is left to C11 (order) / C12 (helpers); every other import failure counts here",
                       "a rejected file is attributed to the dimensions whose reset to the base value makes the same kind of item well-formed (siblings are generated and judged too)"]
    res = common.run_tlc("MC_C10", cfg="MC_C10_thorough" if thorough else "MC_C10_quick", workers=4, timeout=900)
    chk.add_tlc("MC_C10", res)
    chk.exhaustive = True
    cases = res.replays
    if not cases:
        raise ToolError("no cases")
    work = common.scratch("c10")
    pairs = [(lang, rc["case"]) for rc in cases for lang in common.LANGS if lang in rc["langs"]]
    verdict = judge(chk, pairs, work, "g")
    if not verdict:
        raise ToolError("typeshare refused every C10 case")
    m = list(verdict.values())[len(verdict) // 3]
    chk.sample({"lang": m["lang"], "case": m["case"], "rust": m["src"], "generated": m["text"][:1500]})
    for v in verdict.values():
        chk.judged((v["lang"], json.dumps(v["case"], sort_keys=True)))
    # attribution: judge the siblings of every rejected case
    failing = [v for v in verdict.values() if v["failed"]]
    need = {}
    for v in failing:
        dims, sib, base = siblings(v["case"])
        for c2 in list(sib.values()) + [base]:
            k = key_of(v["lang"], c2)
            if k not in verdict:
                need[k] = (v["lang"], c2)
    if need:
        verdict.update(judge(chk, list(need.values()), work, "s"))
    fails = lambda lang, c2: verdict.get(key_of(lang, c2), {}).get("failed", False)
    for v in failing:
        lang, c = v["lang"], v["case"]
        dims, sib, base = siblings(c)
        necessary = [d for d in dims if not fails(lang, sib[d])]
        if necessary:
            feats = "+".join(f"{d}={c[d]}" for d in sorted(necessary))
        elif fails(lang, base) or not dims:
            feats = "base"
        else:
            feats = "jointly:" + "+".join(f"{d}={c[d]}" for d in sorted(dims))
        kind = classify(v["event"])
        chk.mismatch(f"C10/{lang}/{c['kind']}/{feats}/{kind}",
                     f"{lang}: output for {c} is not well-formed ({kind}) {v['event'].get('cpython_error', '') or v['event'].get('lex_error', '')}",
                     {"case": c, "lang": lang, "rust": v["src"]}, "Trace_C10!Accepts", v["text"][:1500])
    # the repository's own expectation files
    events, names, pyfiles = [], [], []
    for ext, lang in (("ts", "typescript"), ("kt", "kotlin"), ("swift", "swift"), ("scala", "scala"), ("go", "go"), ("py", "python")):
        for f in sorted(glob.glob(os.path.join(common.REPO, "core/data/tests/*/output." + ext))):
            text = open(f).read()
            if lang == "python":
                pyfiles.append((f, len(events)))
            events.append(event_for(lang, text))
            names.append((lang, f.split("/")[-2], text))
    fill_python(chk, events, pyfiles)
    for i in sorted(validate(chk, events)):
        lang, snap, text = names[i]
        kind = classify(events[i])
        chk.mismatch(f"C10/{lang}/snapshot:{snap}/{kind}", f"{lang}: expectation file core/data/tests/{snap} is not well-formed ({kind}) {events[i].get('cpython_error', '')}",
                     {"case": {"snapshot": snap}, "lang": lang, "rust": None}, "Trace_C10!Accepts", text[:1500])
    for lang, snap, _ in names:
        chk.judged((lang, "snapshot:" + snap))
    chk.extra["snapshot_files_judged"] = len(names)
    chk.extra["sibling_cases_judged_for_attribution"] = len(need)
    after_earlier_output(chk, work)


RERUN_LATER = ("/// The account\n#[typeshare]\npub struct Account {\n    pub id: u32,\n    pub name: Option<String>,\n}\n"
               '#[typeshare]\n#[serde(tag = "type", content = "content")]\npub enum Event {\n    Opened(u32),\n    Closed { at: String },\n    Idle,\n}\n')
RERUN_EARLIER = {
    "longer": RERUN_LATER + "".join(f"/// More {i}\n#[typeshare]\npub struct Extra{i} {{\n    pub first_field_{i}: Vec<Option<String>>,\n    pub second: HashMap<String, u32>,\n}}\n" for i in range(4)),
    "shorter": "#[typeshare]\npub struct Account {\n    pub id: u32,\n}\n",
    "other_kinds": "#[typeshare]\npub type Names = Vec<String>;\n#[typeshare]\npub enum Colour {\n    Red,\n    Green,\n}\n#[typeshare]\npub struct Zed {\n    pub z: Names,\n    pub c: Colour,\n}\n",
}


def after_earlier_output(chk, work):
    """MC_C10_rerun: the file the real binary leaves at a path that held the output of an earlier run is well formed"""
    from .. import cli
    res = common.run_tlc("MC_C10_rerun", cfg="MC_C10_rerun", workers=2, timeout=300)
    chk.add_tlc("MC_C10_rerun", res)
    if not res.replays:
        raise ToolError("MC_C10_rerun produced no cases")
    args_for = {"typescript": [], "kotlin": ["--java-package", "com.x"], "swift": [], "scala": ["--scala-package", "com.x"], "go": ["--go-package", "p"], "python": []}
    events, meta, pyfiles = [], [], []
    for k, c in enumerate(res.replays):
        d = os.path.join(work, f"rr{k}")
        out = os.path.join(d, "out")
        os.makedirs(out)
        dest = ["-o", os.path.join(out, "out." + common.EXT[c["lang"]])] if c["mode"] == "single" else ["-d", out]
        ok = True
        for step, text in (("earlier", RERUN_EARLIER[c["earlier"]]), ("later", RERUN_LATER)):
            cli.make_tree(os.path.join(d, step), {"cratex/src/lib.rs": text})
            r = cli.run_cli(["-l", c["lang"]] + args_for[c["lang"]] + dest + [os.path.join(d, step)], timeout=20)
            if r["exit"] in ("panic", "timeout", "signal"):
                ok = False          # C07
                break
            if r["exit"] != "ok":
                chk.refused(f"{c['lang']}/rerun", f"{c['lang']} {c['mode']}: the {step} run of a C10 rerun case failed: {r['stderr'][-200:].strip()}", {"rerun": c})
                ok = False
                break
        if not ok:
            continue
        for fn in sorted(os.listdir(out)):
            text = open(os.path.join(out, fn)).read()
            if c["lang"] == "python":
                pyfiles.append((os.path.join(out, fn), len(events)))
            events.append(event_for(c["lang"], text))
            meta.append((c, fn, text))
    fill_python(chk, events, pyfiles)
    for i in sorted(validate(chk, events)):
        c, fn, text = meta[i]
        kind = classify(events[i])
        chk.mismatch(f"C10/{c['lang']}/rerun/{c['mode']}/earlier={c['earlier']}/{kind}", f"{c['lang']} {c['mode']}: {fn}, generated into a location that held the output of an earlier run "
                     f"({c['earlier']}), is not well-formed ({kind}) {events[i].get('cpython_error', '') or events[i].get('lex_error', '')}", {"rerun": c, "lang": c["lang"]}, "Trace_C10!Accepts", text[:1500])
    for c, fn, _ in meta:
        chk.judged((c["lang"], "rerun", c["mode"], c["earlier"], fn))
    chk.extra["rerun_files_judged"] = len(meta)


def replay(chk, rec):
    c = rec["case"]
    if "rerun" in c:
        after_earlier_output(chk, common.scratch("c10r"))
        chk.mismatches = {k: v for k, v in chk.mismatches.items() if k == rec["signature"]}
        return
    if "snapshot" in c["case"]:
        run(chk)
        chk.mismatches = {k: v for k, v in chk.mismatches.items() if k == rec["signature"]}
        return
    from ..observe import DEFAULT_CFG
    lang = c["lang"]
    cfg = dict(DEFAULT_CFG[lang])
    cfg.update(CFG[c["case"]["cfg"]].get(lang, {}))
    r = common.run_driver("gen", [{"id": 0, "lang": lang, "files": [{"src": source(c["case"])}], "cfg": cfg}])[0]
    if r["status"] != "ok":
        return
    text = r["outputs"].get("", "")
    ev = event_for(lang, text)
    if lang == "python":
        work = common.scratch("c10r")
        p = os.path.join(work, "g.py")
        open(p, "w").write(text)
        pr = load_python([p])[p]
        ev["cpython_parses"] = pr["status"] != "syntax"
        ev["cpython_loads"] = pr["status"] == "ok" or "is not defined" in (pr.get("error") or "")
    ok, matched, tres = common.trace_validate("Trace_C10", [ev])
    if tres.bad:
        chk.mismatch(rec["signature"], rec["what"], c, rec["expected"], text[:1500])
