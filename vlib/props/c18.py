"""C18: I54/U53 hold exactly the integers JavaScript can represent safely.

P = spec/SafeInt.tla (limb arithmetic; bridge to true integers proved by Apalache: apalache/SafeIntLemma.tla)
spec->impl: MC_C18 enumerates every value within Radius of each power of two 2^0..2^64 in both signs with
            the required outcome of every constructor; each is executed on the real typeshare::{U53,I54}.
impl->spec: seeded random values stratified by bit length (+ comparison pairs); Trace_C18 judges the events.
"""
import os
import subprocess
import time

from .. import common
from ..common import ToolError

NEEDS = ["driver"]
B = 1 << 22


def to_int(neg, l):
    v = l[0] + l[1] * B + l[2] * B * B
    return -v if neg else v


def limbs(v):
    a = abs(v)
    return [a % B, (a // B) % B, a // (B * B)]


def tf(b):
    return "T" if b else "F"


def observe(v, r):
    """driver facts -> the observation vocabulary of SafeInt!Expect (no judgement here, only projection)."""
    sv = str(v)
    o = {}
    o["u53_try"] = tf(r["u53_try_from_u64"]) if "u53_try_from_u64" in r else "na"
    o["i54_try"] = tf(r["i54_try_from_i64"]) if "i54_try_from_i64" in r else "na"
    o["u53_de"] = tf(r.get("u53_de_int") is not None)
    o["i54_de"] = tf(r.get("i54_de_int") is not None)
    # float-shaped literal: accepted AND value unchanged counts as accepted; accepted with a changed value is
    # reported as accepted outside the range ("T" where P can only allow it in range) plus flagged below
    o["may_u53_de_float"] = tf(r.get("u53_de_float") is not None)
    o["may_i54_de_float"] = tf(r.get("i54_de_float") is not None)
    if "u53_back" in r:
        o["u53_preserved"] = tf(r["u53_back"] == sv and r["u53_display"] == sv and r["u53_json"] == sv
                                and r["u53_json_rt"] and r["u53_f64_rt"] and r["u53_eq_wide"]
                                and r["u53_usize_sat"] == sv and r["u53_ge_min"]
                                and (r.get("u53_de_int") in (None, sv)))
        for n in ("u32", "u16", "u8"):
            x = r.get("u53_to_" + n)
            o["u53_to_" + n] = "F" if x is None else ("T" if x == sv else "CHANGED")
    else:
        o["u53_preserved"] = "na"
        for n in ("u32", "u16", "u8"):
            o["u53_to_" + n] = "na"
    if "i54_back" in r:
        o["i54_preserved"] = tf(r["i54_back"] == sv and r["i54_display"] == sv and r["i54_json"] == sv
                                and r["i54_json_rt"] and r["i54_f64_rt"] and r["i54_eq_wide"] and r["i54_ge_min"]
                                and (r.get("i54_de_int") in (None, sv)))
        for n in ("i32", "i16", "i8"):
            x = r.get("i54_to_" + n)
            o["i54_to_" + n] = "F" if x is None else ("T" if x == sv else "CHANGED")
    else:
        o["i54_preserved"] = "na"
        for n in ("i32", "i16", "i8"):
            o["i54_to_" + n] = "na"
    nar = [r[k] for k in ("u53_from_u32", "u53_from_u16", "u53_from_u8") if k in r]
    o["u53_from_narrow"] = "na" if "u53_from_u32" not in r else tf(all(x == sv for x in nar))
    nar = [r[k] for k in ("i54_from_i32", "i54_from_i16", "i54_from_i8") if k in r]
    o["i54_from_narrow"] = "na" if "i54_from_i32" not in r else tf(all(x == sv for x in nar))
    for k in ("u53_de_float", "i54_de_float"):
        if r.get(k) is not None and r[k] != sv:
            o["may_" + k] = "CHANGED"
    return o


def boundary_class(v):
    a = abs(v)
    near = []
    for name, x in (("0", 0), ("2^53", 1 << 53), ("2^63", 1 << 63), ("2^64", 1 << 64), ("2^31", 1 << 31),
                    ("2^32", 1 << 32), ("2^7", 128), ("2^8", 256), ("2^15", 1 << 15), ("2^16", 1 << 16)):
        if abs(a - x) <= 2:
            near.append(name)
    cls = "near:" + ",".join(near) if near else f"bits:{a.bit_length()}"
    return ("neg/" if v < 0 else "pos/") + cls


def judge(chk, v, exp, obs):
    chk.judged(v)
    for key, e in exp.items():
        o = obs.get(key)
        if key.startswith("may_"):
            bad = (o == "CHANGED") or (o == "T" and e != "T")
        else:
            bad = o != e
        if bad:
            kind = {"T": "rejected-inside" if e == "T" else "", "F": "accepted-outside"}.get(o, "value-changed")
            if o == "F" and e == "T":
                kind = "rejected-inside"
            elif o == "T" and e == "F":
                kind = "accepted-outside"
            elif o in ("na",) or e == "na":
                kind = "applicability"
            elif o in ("CHANGED",) or key.endswith("preserved") or key.endswith("narrow"):
                kind = "value-changed"
            chk.mismatch(f"C18/{key}/{boundary_class(v)}/{kind}",
                         f"{key} for {v}: required {e}, observed {o}", {"v": str(v)}, exp, obs)


def apalache_lemma(chk):
    t = time.time()
    out = common.scratch("apalache")
    r = subprocess.run(["timeout", "300", "apalache-mc", "check", "--inv=Lemma", "--length=0", f"--out-dir={out}",
                        "SafeIntLemma.tla"], cwd=os.path.join(common.SPEC, "apalache"), capture_output=True, text=True)
    if "The outcome is: NoError" not in r.stdout:
        raise ToolError("Apalache did not discharge SafeIntLemma:\n" + r.stdout[-2000:])
    chk.extra["apalache_bridge_lemma"] = {"module": "spec/apalache/SafeIntLemma.tla", "conjuncts": 13,
                                          "outcome": "NoError", "wall_s": round(time.time() - t, 1)}


def no_panics(chk, jobs, results):
    """a conversion / comparison that panics is a verdict of its own (the safe-integer types reject with an error, they never panic); the
    job is left out of the other judgements. -> [(job, result)] of the jobs that ran to the end"""
    keep = []
    for j, r in zip(jobs, results):
        if r.get("status") == "panic":
            chk.judged(("panic", j["v"]))
            chk.mismatch(f"C18/panic/{boundary_class(int(j['v']))}", f"a constructor / conversion / comparison of the safe-integer types panics on {j['v']}"
                         + (f" (with {j['w']})" if "w" in j else "") + f": {r.get('panic', '')[:120]}", {k: j[k] for k in ("v", "w") if k in j}, "Ok or Err", "panic")
        else:
            keep.append((j, r))
    return keep


def run(chk):
    thorough = chk.tier == "thorough"
    radius = 4096 if thorough else 64
    chk.rule = (f"spec->impl: every value within {radius} of each power of two 2^0..2^64, both signs (MC_C18), each pushed "
                "through TryFrom<u64/i64>, From<narrow>, TryFrom back to narrow, serde_json integer and float-shaped "
                "literals, Display, f64 round trip, usize_from_u53_saturated, and cmp with its successor; impl->spec: "
                "random values stratified by bit length judged by Trace_C18. distinct = distinct integer values.")
    chk.assumptions = ["limb predicates <=> integer predicates: discharged by Apalache (SafeIntLemma)",
                       "decimal strings carry values between python and the driver (python ints are unbounded)"]
    apalache_lemma(chk)
    res = common.run_tlc("MC_C18", cfg="MC_C18_thorough" if thorough else "MC_C18_quick", workers=8, timeout=1500, heap="8g")
    chk.add_tlc("MC_C18", res)
    chk.exhaustive = True
    cases = res.replays
    if not cases:
        raise ToolError("no cases")
    jobs = []
    for i, c in enumerate(cases):
        jobs.append({"id": i, "v": str(to_int(c["neg"], c["l"])), "w": str(to_int(c["w_neg"], c["w_l"]))})
    for part_c, part_j in zip(common.chunks(cases, 100000), common.chunks(jobs, 100000)):
        res_j = common.run_driver("safeint", part_j)
        done = {j["id"] for j, _ in no_panics(chk, part_j, res_j)}
        for c, j, r in zip(part_c, part_j, res_j):
            if j["id"] not in done:
                continue
            v = int(j["v"])
            judge(chk, v, c["expect"], observe(v, r))
            for k in ("u53_cmp", "i54_cmp"):
                if k in r:
                    chk.judged()
                    wide = r[k + "_wide"]
                    if r[k] != c["cmp"] or wide != f"Some({c['cmp']})" or r[k[:3] + "_eq"] != (c["cmp"] == "Equal"):
                        chk.mismatch(f"C18/{k}/{boundary_class(v)}/order", f"{k}({j['v']},{j['w']}) = {r[k]}/{wide}, required {c['cmp']}",
                                     {"v": j["v"], "w": j["w"]}, c["cmp"], r[k])
    chk.traces += len(cases)
    for c in cases[:2] + cases[len(cases) // 2:len(cases) // 2 + 2]:
        chk.sample({"value": str(to_int(c["neg"], c["l"])), "expect": c["expect"], "cmp_with_successor": c["cmp"]})

    # impl -> spec: random draws stratified by bit length
    rng = chk.rng
    n = 200000 if thorough else 6000
    vals = []
    for _ in range(n):
        bits = rng.randint(0, 65)
        v = rng.getrandbits(bits) if bits else 0
        if rng.random() < 0.5:
            v = -v
        vals.append(v)
    pairs = []
    for _ in range(n // 4):
        bits = rng.randint(0, 54)
        a = rng.getrandbits(bits) * rng.choice((1, -1))
        b = a + rng.choice((0, 1, -1, rng.getrandbits(rng.randint(1, 54))))
        pairs.append((a, b))
    # a safe value against wide values OUTSIDE the safe range, on both sides (the mixed comparison impls)
    edges = [2 ** 53 - 1, 2 ** 53, 2 ** 53 + 1, 2 ** 62, 2 ** 63 - 1, 2 ** 64 - 1, -(2 ** 53 - 1), -(2 ** 53), -(2 ** 53) - 1, -(2 ** 62), -(2 ** 63)]
    for _ in range(n // 4):
        a = rng.getrandbits(rng.randint(0, 53)) * rng.choice((1, -1))
        pairs.append((a, rng.choice(edges) + rng.choice((0, 0, 1, -1))))
    pairs = [(a, b) for a, b in pairs if -(2 ** 63) <= b < 2 ** 64]
    jobs = [{"id": i, "v": str(v)} for i, v in enumerate(vals)] + \
           [{"id": len(vals) + i, "v": str(a), "w": str(b)} for i, (a, b) in enumerate(pairs)]
    results = common.run_driver("safeint", jobs)
    no_panics(chk, jobs, results)
    events, meta = [], []
    for v, r in zip(vals, results[:len(vals)]):
        if r.get("status") == "panic":
            continue
        events.append({"ev": "value", "neg": v < 0, "l": limbs(v), "obs": observe(v, r)})
        meta.append(("value", v, r))
    for (a, b), r in zip(pairs, results[len(vals):]):
        if r.get("status") == "panic":
            continue
        for k in ("u53_cmp", "i54_cmp"):
            if k in r:
                events.append({"ev": "cmp", "neg": a < 0, "l": limbs(a), "w_neg": b < 0, "w_l": limbs(b), "cmp": r[k],
                               "eq": r[k[:3] + "_eq"]})
                meta.append((k, a, b))
        for k in ("u53_cmpw", "i54_cmpw"):
            if k in r and r[k] is not None:
                p3 = k[:3]
                events.append({"ev": "cmpw", "neg": a < 0, "l": limbs(a), "w_neg": b < 0, "w_l": limbs(b), "cmp": r[k], "eq": r[p3 + "_eqw"],
                               "lt": r[p3 + "_ltw"], "ge": r[p3 + "_gew"]})
                meta.append((k, a, b))
    total_bad = 0
    base = 0
    for part in common.chunks(list(range(len(events))), 50000):
        ok, matched, tres = common.trace_validate("Trace_C18", [events[i] for i in part], timeout=1200)
        chk.add_tlc("Trace_C18", tres)
        if matched != len(part):
            raise ToolError(f"Trace_C18 consumed {matched} of {len(part)} events")
        for b in tres.bad:
            m = meta[part[b - 1]]
            total_bad += 1
            if m[0] == "value":
                chk.mismatch(f"C18/trace/{boundary_class(m[1])}/rejected-by-spec", f"SafeInt!Conforms rejects the observed outcomes for {m[1]}",
                             {"v": str(m[1])}, "SafeInt!Expect", events[part[b - 1]]["obs"])
            else:
                chk.mismatch(f"C18/{m[0]}/{boundary_class(m[1])}/order", f"order of {m[1]} and {m[2]} observed {events[part[b-1]]['cmp']}",
                             {"v": str(m[1]), "w": str(m[2])}, "SafeInt!Cmp", events[part[b - 1]]["cmp"])
    chk.traces += len(events) - total_bad
    chk.extra["trace_events"] = len(events)
    for v in vals:
        chk.judged(v)


def replay(chk, rec):
    c = rec["case"]
    v = int(c["v"])
    job = {"id": 0, "v": c["v"]}
    if "w" in c:
        job["w"] = c["w"]
    r = common.run_driver("safeint", [job])[0]
    if not no_panics(chk, [job], [r]):
        chk.mismatches = {k: v for k, v in chk.mismatches.items() if k == rec["signature"]}
        return
    events = [{"ev": "value", "neg": v < 0, "l": limbs(v), "obs": observe(v, r)}]
    if "w" in c:
        w = int(c["w"])
        for k in ("u53_cmp", "i54_cmp"):
            if k in r:
                events.append({"ev": "cmp", "neg": v < 0, "l": limbs(v), "w_neg": w < 0, "w_l": limbs(w), "cmp": r[k], "eq": r[k[:3] + "_eq"]})
    ok, matched, tres = common.trace_validate("Trace_C18", events)
    if tres.bad:
        chk.mismatch(rec["signature"], rec["what"], c, rec["expected"], events[tres.bad[0] - 1])
